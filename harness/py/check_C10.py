"""C10 -- saving and reloading the array state is lossless.

Proof (coq/Codec/CodecProofs.v, CodecRoundTrip.v, CodecRewrite.v, CodecExample.v) over the executable model
coq/Codec/CodecModel.v (decode = state_read_content, encode = state_write_content + state_write_thread):
  decode (conf_of s) (encode now s) = Ok (normalise now s) for every well-formed s and 8 <= now;
  encode now (normalise now s) = encode now s when no info time is clamped (rewrite reproduces the bytes);
  a witness that the rewrite does NOT reproduce the bytes when the clock is behind an info time (finding);
  copies identical.  Not proved in general, evaluated on every generated state: normalise idempotent.
The model is tied to the C on every run:

  route A (real -> model)  tiny arrays are driven through the real binary (sync, partial sync, scrub with a silently
           corrupted block, rehash, moves between disks, deletions, rewrite with a clock in the past); after every
           command that saves the state the content file must (a) be decoded by the model and re-encoded by the
           model BYTE FOR BYTE (same `now`, taken from the clock shim), (b) be reproduced byte for byte by the real
           `test-rewrite`, every content copy being identical, (c) give `list -l` / `status -G -l` dumps equal to those
           computed from the model's decoded state;
  route B (model -> real)  generated well-formed states (boundary values) are encoded by the model, installed as the
           content file of a matching configuration and loaded by the real tool: `list -l`, `status -G -l` must equal the
           dumps computed in Python from the generated state (and an independent Python normalise), `test-rewrite` must
           reproduce the file byte for byte; the extracted decode (encode s) must equal normalise s (failing-input search
           of the theorems);
  route C  damaged files (truncations, byte changes with the CRC repaired, wild counts): the model and the real
           loader must agree on accept / reject, and on the state when they accept;
  route D  the loader without configuration (`snapraid -C`): generated configuration against the model's decode with
           no_conf (auto-created disks, levels and splits)."""
import os, sys, json, time, threading, subprocess, shutil, re, resource, struct, hashlib
from concurrent.futures import ThreadPoolExecutor
from common import *
import c10_lib as L
import c10_gen as G
import content as CT
import c10_legacy as LG

CONSTS = {  # name -> (file, regex, value the model assumes)
    'UUID_MAX': ('cmdline/elem.h', r'#define\s+UUID_MAX\s+(\d+)', 128),
    'HASH_MAX': ('cmdline/util.h', r'#define\s+HASH_MAX\s+(\d+)', 16),
    'LEV_MAX': ('cmdline/state.h', r'#define\s+LEV_MAX\s+(\d+)', 6),
    'SPLIT_MAX': ('cmdline/elem.h', r'#define\s+SPLIT_MAX\s+(\d+)', 8),
    'BLOCK_STATE_BLK': ('cmdline/elem.h', r'#define\s+BLOCK_STATE_BLK\s+(\d+)', 1),
    'BLOCK_STATE_CHG': ('cmdline/elem.h', r'#define\s+BLOCK_STATE_CHG\s+(\d+)', 2),
    'BLOCK_STATE_REP': ('cmdline/elem.h', r'#define\s+BLOCK_STATE_REP\s+(\d+)', 3),
    'BLOCK_STATE_DELETED': ('cmdline/elem.h', r'#define\s+BLOCK_STATE_DELETED\s+(\d+)', 4),
    'INFO_MASK': ('cmdline/elem.h', r'#define\s+INFO_MASK\s+0x([0-9a-fA-F]+)', 7),
}

_T = []
for _i in range(256):
    _c = _i
    for _ in range(8):
        _c = (_c >> 1) ^ (0x82F63B78 if _c & 1 else 0)
    _T.append(_c)


def crc32c(data):
    crc = 0xffffffff
    for b in data:
        crc = _T[(crc ^ b) & 255] ^ (crc >> 8)
    return crc ^ 0xffffffff


def fix_crc(body_with_N):
    return body_with_N + struct.pack('<I', crc32c(body_with_N))


class Model:
    """the extracted model as a line server (one process per thread)"""

    def __init__(self, exe):
        self.exe = exe
        self.local = threading.local()
        self.calls = 0

    def _proc(self):
        p = getattr(self.local, 'p', None)
        if p is None or p.poll() is not None:
            def lim():
                resource.setrlimit(resource.RLIMIT_STACK, (resource.RLIM_INFINITY, resource.RLIM_INFINITY))
            p = subprocess.Popen([self.exe], stdin=subprocess.PIPE, stdout=subprocess.PIPE, text=True, preexec_fn=lim)
            self.local.p = p
        return p

    def ask(self, line):
        p = self._proc()
        self.calls += 1
        try:
            p.stdin.write(line + '\n')
            p.stdin.flush()
            out = p.stdout.readline()
        except BrokenPipeError:
            out = ''
        if not out:
            self.local.p = None
            return 'crash'
        return out.rstrip('\n')


def first_diff(a, b):
    k = 0
    while k < min(len(a), len(b)) and a[k] == b[k]:
        k += 1
    return k


def diff_lists(got, want, limit=3):
    gs, ws = set(got), set(want)
    return {'only_in_tool': [x.decode('latin1') for x in sorted(gs - ws)[:limit]],
            'only_in_expectation': [x.decode('latin1') for x in sorted(ws - gs)[:limit]]}


class Ctx:
    def __init__(self, chk, tool, shim, model):
        self.chk, self.tool, self.shim, self.model = chk, tool, shim, model
        self.lock = threading.Lock()
        self.stats = {'files_checked': 0, 'model_reencode_identical': 0, 'tool_rewrite_identical': 0, 'dumps_compared': 0,
                      'gen_states': 0, 'gen_roundtrip': 0, 'malformed': 0, 'malformed_accepted_both': 0, 'malformed_rejected_both': 0,
                      'blocks_by_state': {1: 0, 2: 0, 3: 0, 4: 0}, 'info_flags': {'bad': 0, 'rehash': 0, 'justsynced': 0, 'none': 0},
                      'versions': {2: 0, 3: 0}, 'hashsizes': {}, 'commands': 0, 'bare_disks': {'dirs': 0, 'links': 0, 'nothing': 0}, 'clamped_rewrites': 0, 'holes': 0,
                      'backward_clock_rewrite_changes_bytes': 0}
        self.distinct = set()
        self.samples = []
        self.valid_files = []      # (conf line, bytes, geometry) for route C

    def viol(self, tag, what, replay, no_input=False):
        with self.lock:
            self.nviol = getattr(self, 'nviol', 0) + 1
            if self.nviol <= 12:
                self.chk.violation(tag, what, replay, no_input=no_input)

    def note_state(self, s, data):
        with self.lock:
            st = self.stats
            for d in s['disks']:
                if not d['files'] and not d['deleted']:
                    kind = 'dirs' if d['dirs'] and not d['links'] else ('links' if d['links'] and not d['dirs'] else ('nothing' if not d['links'] else None))
                    if kind:
                        st['bare_disks'][kind] += 1
                for f in d['files']:
                    for b in f['blocks']:
                        st['blocks_by_state'][b['state']] = st['blocks_by_state'].get(b['state'], 0) + 1
                st['blocks_by_state'][4] += len(d['deleted'])
                if d['deleted']:
                    st['holes'] += 1
            for k, v in s['info_runs']:
                if v == 0:
                    st['info_flags']['none'] += k
                else:
                    if v & 1:
                        st['info_flags']['bad'] += k
                    if v & 2:
                        st['info_flags']['rehash'] += k
                    if v & 4:
                        st['info_flags']['justsynced'] += k
            v = data[7] - 48
            st['versions'][v] = st['versions'].get(v, 0) + 1
            st['hashsizes'][s['hs']] = st['hashsizes'].get(s['hs'], 0) + 1
            self.distinct.add(hashlib.sha1(data).digest())


def compare_dumps(ctx, A, s, now, tag, replay):
    """`list -l` and `status -G -l` of the real tool against the dumps computed from the state dict s."""
    ok = True
    lg = os.path.join(A.root, 'list.log')
    if os.path.exists(lg):
        os.remove(lg)
    rc, out = A.run(['list', '-v', '-l', lg], now=now)
    lines = L.read_log(lg)
    if rc != 0:
        ctx.viol(tag + '_list_rc', '%s: `list` exits %d on a content file the model decodes: %s' % (tag, rc, out[-300:].decode('latin1')), replay)
        return False
    got = sorted(l for l in lines if L.LIST_KEEP.match(l))
    want = L.expected_list(s)
    if got != want:
        ctx.viol(tag + '_list', '%s: `list -l` differs from the decoded state: %s' % (tag, json.dumps(diff_lists(got, want))), replay)
        ok = False
    cnt = L.log_counts(lines)
    if cnt != L.expected_counts(s):
        ctx.viol(tag + '_counts', '%s: loader counts (files, hardlinks, symlinks, dirs) %s, decoded state has %s' % (tag, cnt, L.expected_counts(s)), replay)
        ok = False
    sg = os.path.join(A.root, 'status.log')
    if os.path.exists(sg):
        os.remove(sg)
    rc, out = A.run(['status', '-G', '-l', sg], now=now)
    got = [l for l in L.read_log(sg) if L.STATUS_KEEP.match(l)]
    want = L.expected_status(s)
    if rc != 0 or sorted(got) != sorted(want):
        ctx.viol(tag + '_status', '%s: `status -G -l` (rc %d) differs from the decoded state: %s' % (tag, rc, json.dumps(diff_lists(got, want))), replay)
        ok = False
    with ctx.lock:
        ctx.stats['dumps_compared'] += 2
        ctx.stats['commands'] += 2
    return ok


def owners_check(ctx, data, tag, rep):
    """independent decoder: a saved content file maps a disk only if the disk owns something in it (a file, a link, a directory or a
    DELETED block): fs_is_empty is decided AFTER the positions used by no file were cleared"""
    try:
        pa = CT.parse(data, 16)
    except Exception as e:
        ctx.viol(tag + '_parse', '%s: the independent decoder cannot read a content file written by the tool: %r' % (tag, e), rep)
        return None
    for m in pa['maps']:
        d = pa['disks'].get(m['name'], {'files': [], 'links': [], 'dirs': [], 'deleted': {}})
        if not d['files'] and not d['links'] and not d['dirs'] and not d['deleted']:
            ctx.viol(tag + '_empty_map', '%s: the saved content file maps disk %s (M record, all-O hole record) although the disk owns nothing in the saved state: '
                     'the disk cannot be dropped from the configuration and a rewrite gives other bytes' % (tag, m['name']), rep)
            return pa
    with ctx.lock:
        ctx.stats['owner_checks'] = ctx.stats.get('owner_checks', 0) + 1
    return pa


def check_saved(ctx, A, now, tag, replay, hash_opt=(), clamp=False, before=None):
    """the three checks on the content file(s) just written at clock `now`.
    clamp: the clock went backwards (now < info times of the state that was saved): the file is the model's prediction from `before`
    (the file that was loaded), and its rewrite is only required to be reproduced by the model and to be a fixpoint from then on."""
    data = A.content(0)
    if data is None:
        return None
    kline = A.model_conf()
    with ctx.lock:
        ctx.stats['files_checked'] += 1
    for i in range(1, A.ncontent):
        if A.content(i) != data:
            ctx.viol(tag + '_copies', '%s: content copy %d differs from copy 0 (first difference at byte %d)' % (tag, i, first_diff(A.content(i) or b'', data)), replay)
    rep = dict(replay, conf=kline, content_hex=data.hex(), now=now)
    if before is not None:
        pre = ctx.model.ask('reencode %x %s %s' % (now, kline, L.hx(before)))
        if not pre.startswith('ok ') or bytes.fromhex(pre[3:]) != data:
            got = bytes.fromhex(pre[3:]) if pre.startswith('ok ') else b''
            ctx.viol(tag + '_predict', 'MODEL-DRIFT %s: the tool rewrote a content file at clock %d; model encode(now, decode(old file)) differs from the new file '
                     'at byte %d of %d' % (tag, now, first_diff(got, data), len(data)), dict(rep, before_hex=before.hex()), no_input=True)
    owners_check(ctx, data, tag, rep)
    dec = ctx.model.ask('decode %s %s' % (kline, L.hx(data)))
    if not dec.startswith('ok '):
        # does the tool itself load what it wrote, and write it back unchanged?
        rc, out = A.run(list(hash_opt) + ['test-rewrite'], now=now)
        d2 = A.content(0)
        if rc != 0 or d2 != data:
            ctx.viol(tag + '_reload', '%s: the tool cannot reload and reproduce the content file it has just written (test-rewrite rc %d, first difference at '
                     'byte %d of %d/%d); the model rejects the file too (%s): %s' % (tag, rc, first_diff(d2 or b'', data), len(d2 or b''), len(data), dec[:10],
                                                                                   out[-200:].decode('latin1')), rep)
        else:
            ctx.viol(tag + '_decode', 'MODEL-DRIFT %s: the model answers %s on a content file written and reloaded by the tool' % (tag, dec[:40]), rep, no_input=True)
        return None
    s = L.parse_state(dec[3:])
    ctx.note_state(s, data)
    re_ = ctx.model.ask('reencode %x %s %s' % (now, kline, L.hx(data)))
    mre = bytes.fromhex(re_[3:]) if re_.startswith('ok ') else None
    # (b) the real rewrite
    rc, out = A.run(list(hash_opt) + ['test-rewrite'], now=now)
    with ctx.lock:
        ctx.stats['commands'] += 1
    d2 = A.content(0)
    if not clamp:
        if mre != data:
            ctx.viol(tag + '_reencode', 'MODEL-DRIFT %s: model encode(decode(file)) differs from the file written by the tool at byte %d of %d (%s)'
                     % (tag, first_diff(mre or b'', data), len(data), re_[:12]), rep, no_input=True)
        else:
            with ctx.lock:
                ctx.stats['model_reencode_identical'] += 1
        if rc != 0 or d2 != data:
            ctx.viol(tag + '_rewrite', '%s: `test-rewrite` (rc %d) does not reproduce the content file: first difference at byte %d of %d/%d'
                     % (tag, rc, first_diff(d2 or b'', data), len(d2 or b''), len(data)), rep)
        else:
            with ctx.lock:
                ctx.stats['tool_rewrite_identical'] += 1
    else:
        if rc != 0 or mre != d2:
            ctx.viol(tag + '_reencode', 'MODEL-DRIFT %s (clock in the past): model encode(decode(file)) differs from the tool\'s rewrite (rc %d) at byte %d'
                     % (tag, rc, first_diff(mre or b'', d2 or b'')), rep, no_input=True)
        else:
            with ctx.lock:
                ctx.stats['model_reencode_identical'] += 1
        if d2 != data:
            with ctx.lock:
                ctx.stats['backward_clock_rewrite_changes_bytes'] += 1
                if getattr(ctx, 'finding_example', None) is None:
                    ctx.finding_example = dict(rep, first_rewrite_hex=data.hex(), second_rewrite_hex=(d2 or b'').hex(), clock=now,
                                               first_difference_at_byte=first_diff(d2 or b'', data))
        rc, out = A.run(list(hash_opt) + ['test-rewrite'], now=now)
        d3 = A.content(0)
        if rc != 0 or d3 != d2:
            ctx.viol(tag + '_fixpoint', '%s: the second `test-rewrite` at the same clock (rc %d) changes the file again: first difference at byte %d'
                     % (tag, rc, first_diff(d3 or b'', d2 or b'')), rep)
        else:
            with ctx.lock:
                ctx.stats['tool_rewrite_identical'] += 1
        dec = ctx.model.ask('decode %s %s' % (kline, L.hx(d2 or b'')))
        if dec.startswith('ok '):
            s = L.parse_state(dec[3:])
    for i in range(1, A.ncontent):
        if A.content(i) != d2:
            ctx.viol(tag + '_copies2', '%s: after test-rewrite content copy %d differs from copy 0' % (tag, i), rep)
    # (c) dumps
    compare_dumps(ctx, A, s, now, tag, rep)
    with ctx.lock:
        if len(ctx.samples) < 12 and (s['info_runs'] and len(data) < 1500):
            ctx.samples.append({'route': 'A', 'case': tag, 'bytes': len(data), 'version': data[7] - 48, 'content_hex': data.hex()[:160] + '...'})
        ctx.valid_files.append((kline, data))
    return s


# ---------------------------------------------------------------------------------------
# history oracle (independent decoder harness/py/content.py): the hash saved with a DELETED block

def history_check(ctx, before, after, kind, tag, replay, hs):
    """`before` / `after`: the content file loaded by a command and the one it saved.  Every DELETED block of `after` must carry
    the hash the same disk had at the same parity position in `before`:
      kind 'other' (scrub, rehash, rewrite: no scan, past hashes kept): the hash of the DELETED block that was there;
      kind 'sync'  (scan + clear_past_hash): the hash of the BLK block that was there (its file was removed by this scan),
                   or the INVALID marker (all zero) when the position held a CHG / REP / DELETED block;
      kind 'sync_R' (--force-realloc turns BLK into REP while loading): BLK hash or INVALID.
    Positions are never renumbered by a save: a DELETED block cannot appear where the disk had nothing."""
    if before is None or after is None or before == after:
        return
    try:
        pb = CT.parse(before, 16)
        pa = CT.parse(after, 16)
    except Exception as e:
        ctx.viol(tag + '_history', '%s: the independent decoder cannot read a content file written by the tool: %r' % (tag, e),
                 dict(replay, before_hex=before.hex(), after_hex=after.hex()))
        return
    zero = b'\0' * pa['hashsize']
    nchk = 0
    for name, d in pa['disks'].items():
        if not d['deleted']:
            continue
        prev = pb['disks'].get(name, {'files': [], 'deleted': {}})
        pmap = {}
        for f in prev['files']:
            for (st, pos, h) in f['blocks']:
                pmap[pos] = (st, h)
        for pos, h in prev['deleted'].items():
            pmap.setdefault(pos, (CT.DELETED, h))
        for pos, h in sorted(d['deleted'].items()):
            nchk += 1
            was = pmap.get(pos)
            if was is None:
                ok, why = False, 'the disk had no block at that position'
            elif kind == 'other':
                ok, why = (was[0] == CT.DELETED and was[1] == h), 'expected the hash of the DELETED block that was there (%s %s)' % (was[0], was[1].hex())
            elif was[0] == CT.BLK:
                ok = h == was[1] or (kind == 'sync_R' and h == zero)
                why = 'expected the hash of the BLK block that was there (%s)' % was[1].hex()
            else:
                ok, why = h == zero, 'expected the INVALID marker: the position held a %s block' % was[0]
            if not ok:
                others = [q for q, (st2, h2) in pmap.items() if h2 == h and q != pos]
                ctx.viol(tag + '_deleted_hash', '%s: after the save the DELETED block of disk %s at parity position %d carries hash %s; %s%s'
                         % (tag, name, pos, h.hex(), why, ('; that hash belonged to position %s' % others) if others else ''),
                         dict(replay, before_hex=before.hex(), after_hex=after.hex(), disk=name, position=pos))
                return
    with ctx.lock:
        ctx.stats['deleted_hashes_checked_against_history'] = ctx.stats.get('deleted_hashes_checked_against_history', 0) + nchk


def hole_scenario(ctx, idx, seed, root):
    """a multi-block file is deleted while the other disks keep only SOME of its positions in use (holes strictly inside the run
    of DELETED blocks), then the state is saved by partial / unprocessed syncs: state_write_content drops the DELETED blocks
    of the unused positions out of the middle of the deleted extent (fs_position_clear_deleted -> fs_deallocate, split case)."""
    import random
    rng = random.Random(seed)
    nd = rng.choice([2, 2, 3, 4])
    hs = rng.choice([16, 16, 8, 4])
    npar = rng.choice([1, 2])
    A = L.Array(root, ctx.tool, ctx.shim, ndisk=nd, npar=npar, hashsize=hs, ncontent=2)
    T = 1500000000 + rng.randrange(0, 2 ** 28)
    n = rng.choice([3, 3, 4, 5, 6, 8])
    big = rng.randrange(nd)                      # the disk of the multi-block file
    lead = rng.choice([0, 0, 1, 2])              # single-block files allocated before it (alphabetical order = allocation order)
    log = []
    replay = {'kind': 'hole', 'seed': seed, 'log': log}
    for j in range(lead):
        L.write_file(A.dpath(big, b'A%02d' % j), 1024, rng)
    L.write_file(A.dpath(big, b'B_big'), (n - 1) * 1024 + rng.choice([1, 1024, 500]), rng)
    L.write_file(A.dpath(big, b'C_keep'), rng.choice([1024, 2048]), rng)
    m = lead + n + rng.choice([0, 1, 2])
    for d in range(nd):
        if d != big:
            for j in range(m):
                L.write_file(A.dpath(d, b'p%02d' % j), 1024, rng)
    rc, out = A.run(['sync'], now=T)
    check_saved(ctx, A, T, 'H%d_0_sync' % idx, replay)
    # delete the big file; vacate a non-empty set of positions strictly inside its run on every other disk
    inner = list(range(lead + 1, lead + n - 1))
    holes = set(rng.sample(inner, rng.randrange(1, len(inner) + 1)))
    if rng.random() < 0.5 and len(inner) > 1:
        holes.discard(rng.choice(inner))         # keep at least one inner position used when possible
        if not holes:
            holes = {inner[0]}
    os.remove(A.dpath(big, b'B_big'))
    for d in range(nd):
        if d != big:
            for j in sorted(holes):
                os.remove(A.dpath(d, b'p%02d' % j))
            # positions outside the holes: each stays used by at least one disk; others may go
    others = [d for d in range(nd) if d != big]
    for j in range(m):
        if j not in holes:
            keep = rng.choice(others)
            for d in others:
                if d != keep and rng.random() < 0.3 and os.path.exists(A.dpath(d, b'p%02d' % j)) and j != 0:
                    os.remove(A.dpath(d, b'p%02d' % j))
    log.append({'n': n, 'lead': lead, 'big_disk': big, 'holes': sorted(holes)})
    steps = [rng.choice([['sync', '-S', str(m + n + 5), '-B', '1'], ['sync', '-B', '1'], ['sync', '-S', str(lead + n), '-B', '1']]),
             rng.choice([['test-rewrite'], ['sync', '-B', '1', '-S', '1'], ['scrub', '-p', 'new', '-o', '0']]),
             ['sync']]
    for k, args in enumerate(steps):
        T += rng.randrange(8, 3000)
        before = A.content(0)
        rc, out = A.run(args, now=T)
        log.append(' '.join(args))
        with ctx.lock:
            ctx.stats['commands'] += 1
            ctx.stats['hole_histories'] = ctx.stats.get('hole_histories', 0) + (1 if k == 0 else 0)
        tag = 'H%d_%d_%s' % (idx, k + 1, args[0])
        history_check(ctx, before, A.content(0), 'sync' if args[0] == 'sync' else 'other', tag, replay, hs)
        check_saved(ctx, A, T, tag, replay)
    shutil.rmtree(root, ignore_errors=True)


def oldest_scenario(ctx, idx, seed, root):
    """the time base of the 'i' record and the 'C' previous-hash record depend on the SAVED positions only: the oldest-synced files
    (alone in their stripes, optionally the last ones carrying the rehash mark) are deleted after newer files were synced at a later
    clock (more than the 8 s granularity of the info time); the save that drops their positions must be reproduced byte for byte by
    a rewrite, and must not keep a previous hash that no saved block refers to."""
    import random
    rng = random.Random(seed)
    nd = rng.choice([2, 2, 3])
    hs = rng.choice([16, 16, 8])
    A = L.Array(root, ctx.tool, ctx.shim, ndisk=nd, npar=rng.choice([1, 2]), hashsize=hs, ncontent=2)
    T = 1500000000 + rng.randrange(0, 2 ** 28)
    rehash = rng.random() < 0.6
    h1, h2 = rng.sample(['--test-force-murmur3', '--test-force-spooky2'], 2)
    replay = {'kind': 'oldest', 'seed': seed, 'rehash': rehash}
    old = []
    # 1) the old files: more blocks than anything another disk holds at that time, so that some stripes are theirs alone
    od = rng.randrange(nd)
    for j in range(rng.choice([1, 2])):
        sub = b'A_old%d' % j
        L.write_file(A.dpath(od, sub), rng.choice([5000, 6144, 8000, 9216]), rng)
        old.append((od, sub))
    alone = rng.random() < 0.65        # only one disk holds files: after the deletion nothing is left to process, the state is saved once
    if not alone and rng.random() < 0.4:
        d2 = (od + 1) % nd
        L.write_file(A.dpath(d2, b'A_old_other'), 1024, rng)     # a short old file on another disk: shares stripe 0 only
        old.append((d2, b'A_old_other'))
    hopt = [h1]
    steps = []
    A.run(hopt + ['sync'], now=T)
    check_saved(ctx, A, T, 'O%d_0_sync' % idx, replay, hopt)
    if rehash:
        T += rng.randrange(8, 100)
        hopt = [h2]
        loaded = A.content(0)
        A.run(hopt + ['rehash'], now=T)
        history_check(ctx, loaded, A.content(0), 'other', 'O%d_1_rehash' % idx, replay, hs)
        check_saved(ctx, A, T, 'O%d_1_rehash' % idx, replay, hopt)
    # 2) newer files everywhere, synced several time granules later
    T += rng.choice([9, 16, 100, 5000, 86400])
    for d in ([od] if alone else range(nd)):
        # short files on the other disks: the last stripes of the old files stay theirs alone
        for j in range(rng.randrange(1, 3) if d == od else 1):
            L.write_file(A.dpath(d, b'N_new%d' % j), rng.choice([1, 1024, 1500, 3000]) if d == od else rng.choice([1, 1024, 2000]), rng)
    loaded = A.content(0)
    A.run(hopt + ['sync'], now=T)
    history_check(ctx, loaded, A.content(0), 'sync', 'O%d_2_sync' % idx, replay, hs)
    check_saved(ctx, A, T, 'O%d_2_sync' % idx, replay, hopt)
    # 3) the old files go; the save drops their positions (and with them the oldest time / the last rehash marks)
    for d, sub in old:
        os.remove(A.dpath(d, sub))
    T += rng.choice([9, 50, 3000])
    args = rng.choice([['sync'], ['sync'], ['sync', '-B', '1'], ['sync', '-S', '1000', '-B', '1']])
    loaded = A.content(0)
    rc, out = A.run(hopt + args, now=T)
    with ctx.lock:
        ctx.stats['commands'] += 4
        ctx.stats['oldest_histories'] = ctx.stats.get('oldest_histories', 0) + 1
    tag = 'O%d_3_%s' % (idx, 'sync' if len(args) == 1 else 'partial')
    after = A.content(0)
    history_check(ctx, loaded, after, 'sync', tag, replay, hs)
    try:
        pa = CT.parse(after, 16)
        marked = any(v and v['rehash'] for v in pa['info'])
        if pa['prevhash'] and not marked:
            ctx.viol(tag + '_stale_prevhash', '%s: the saved content file holds a previous-hash (C) record but no saved position carries the rehash mark: the '
                     'reloaded state has a rehash in progress that no block refers to' % tag, dict(replay, content_hex=after.hex()))
        times = [v['time'] & ~7 for v in pa['info'] if v]
    except Exception as e:
        ctx.viol(tag + '_parse', '%s: independent decoder fails on the saved file: %r' % (tag, e), dict(replay, content_hex=(after or b'').hex()))
    check_saved(ctx, A, T, tag, replay, hopt)
    T += 20
    A.run(hopt + ['sync'], now=T)
    check_saved(ctx, A, T, 'O%d_4_sync' % idx, replay, hopt)
    shutil.rmtree(root, ignore_errors=True)


def emptied_scenario(ctx, idx, seed, root):
    """a disk is emptied: its last blocks are DELETED ones, alone in their stripes or sharing stripes with other disks; the state is
    saved by `sync -E` killed after the save that precedes the processing (--test-kill-after-sync), by a partial sync, or by a sync
    that ends normally.  Every saved file: no map for a disk that owns nothing (independent decoder), model re-encode and real
    rewrite byte-identical, dumps; and when the victim owns nothing any more the array must load with the victim removed from the
    configuration."""
    import random
    rng = random.Random(seed)
    nd = rng.choice([2, 2, 3])
    hs = rng.choice([16, 16, 8])
    A = L.Array(root, ctx.tool, ctx.shim, ndisk=nd, npar=rng.choice([1, 2]), hashsize=hs, ncontent=2)
    # the second content copy must not sit on the victim
    victim = rng.randrange(1, nd) if nd > 1 else 0
    T = 1500000000 + rng.randrange(0, 2 ** 28)
    replay = {'kind': 'emptied', 'seed': seed}
    nfile = rng.choice([2, 3])
    alone = rng.random() < 0.6      # same block counts on every disk: after the others free stripe group b, it is the victim's alone
    ka, kb = rng.choice([1, 2, 3]), rng.choice([1, 2, 3])
    if alone:
        nfile = 2
    for d in range(nd):
        for j in range(nfile + (1 if d != victim else 0)):
            size = 1024 * ((ka, kb, 1)[min(j, 2)] if alone else rng.choice([1, 2, 2])) - (rng.choice([0, 1, 500]) if alone else 0)
            L.write_file(A.dpath(d, b'%c_f%d' % (97 + j, d)), size, rng)
    if rng.random() < 0.3:
        os.symlink(b'x', A.dpath(victim, b'zlink'))
    A.run(['sync'], now=T)
    check_saved(ctx, A, T, 'E%d_0_sync' % idx, replay)
    # free some stripes on the OTHER disks so that some stripes of the victim are its own
    T += rng.randrange(8, 3000)
    for d in range(nd):
        if d != victim:
            j = 1 if alone else rng.randrange(1, nfile + 1)
            os.remove(A.dpath(d, b'%c_f%d' % (97 + j, d)))
    if rng.random() < (0.7 if alone else 0.5):
        os.remove(A.dpath(victim, b'a_f%d' % victim))
    loaded = A.content(0)
    A.run(['sync'], now=T)
    history_check(ctx, loaded, A.content(0), 'sync', 'E%d_1_sync' % idx, replay, hs)
    check_saved(ctx, A, T, 'E%d_1_sync' % idx, replay)
    # empty the victim
    for f in os.listdir(A.dpath(victim, b'')):
        if not f.startswith(b'snapraid.content'):
            os.remove(os.path.join(A.dpath(victim, b''), f))
    T += rng.randrange(8, 3000)
    args = rng.choice([['sync', '-E', '--test-kill-after-sync'], ['sync', '-E', '--test-kill-after-sync'], ['sync', '-E', '-B', '1'],
                       ['sync', '-E', '-S', '1000', '-B', '1'], ['sync', '-E']])
    loaded = A.content(0)
    rc, out = A.run(args, now=T)
    after = A.content(0)
    tag = 'E%d_2_%s' % (idx, 'kill' if 'kill' in args[-1] else ('partial' if '-B' in args else 'sync'))
    with ctx.lock:
        ctx.stats['commands'] += 3
        ctx.stats['emptied_histories'] = ctx.stats.get('emptied_histories', 0) + 1
    history_check(ctx, loaded, after, 'sync', tag, replay, hs)
    rep = dict(replay, args=args, content_hex=(after or b'').hex())
    try:
        pa = CT.parse(after, 16) if after else None      # the ownership rule itself is applied by check_saved
    except Exception:
        pa = None
    check_saved(ctx, A, T, tag, replay)
    if pa is not None and A.labels[victim] not in [m['name'] for m in pa['maps']]:
        # the saved state has no trace of the victim: the user may drop it from the configuration
        A.install(after)
        A.order = [i for i in A.order if i != victim]
        A.write_conf()
        rc2, out2 = A.run(['status'], now=T)
        with ctx.lock:
            ctx.stats['commands'] += 1
            ctx.stats['reload_without_empty_disks'] = ctx.stats.get('reload_without_empty_disks', 0) + 1
        if rc2 != 0:
            ctx.viol(tag + '_dropped_disk', '%s: the saved state has no map for %s, yet the array does not load (rc %d) with that disk removed from the configuration: %s'
                     % (tag, A.labels[victim], rc2, out2[-200:].decode('latin1')), rep)
        else:
            check_saved(ctx, A, T, tag + '_without_disk', replay)
    shutil.rmtree(root, ignore_errors=True)


BIGFLAGS = ['--test-skip-fallocate', '--test-io-cache', '1']


def big_scenario(ctx, idx, seed, root):
    """large geometry: block sizes of 4..16 MiB and SPARSE files (truncate, nothing is written) so that file sizes, runs of DELETED
    blocks ('o' records), block runs and the parity size cross 2^31 and 2^32 BYTES; saved by partial syncs only (a full sync would
    write gigabytes of parity), reloaded by every route (model re-encode, test-rewrite, list / status dumps, history oracle)."""
    import random
    rng = random.Random(seed)
    bs_k = rng.choice([4096, 8192, 16384, 16384])
    bs = bs_k * 1024
    K = (1 << 32) // bs                       # blocks in 4 GiB
    nd = rng.choice([2, 2, 3])
    hs = rng.choice([16, 16, 8, 2])
    A = L.Array(root, ctx.tool, ctx.shim, ndisk=nd, npar=rng.choice([1, 2]), hashsize=hs, ncontent=2, blocksize_k=bs_k)
    T = 1500000000 + rng.randrange(0, 2 ** 28)
    log = []
    replay = {'kind': 'big', 'seed': seed, 'log': log}
    sizes = {}
    for d in range(nd):
        nb = rng.choice([K - 1, K, K + 1, K + 2, K // 2, K // 2 + 1]) if d >= 2 else rng.choice([K + 1, K + 2, K + 1 + rng.randrange(0, 40)])
        size = nb * bs - rng.choice([0, 0, 1, bs - 1, rng.randrange(0, bs)])
        p = A.dpath(d, b'big%d' % d)
        with open(p, 'wb') as f:
            f.truncate(size)
        sizes[d] = size
        L.write_file(A.dpath(d, b'zsmall%d' % d), rng.choice([1, 1000, 70000]), rng)      # a disk never loses all its files
    if os.stat(A.dpath(0, b'big0')).st_blocks * 512 > 1 << 20:
        shutil.rmtree(root, ignore_errors=True)       # the file system does not keep the files sparse: give up rather than fill it
        return
    log.append({'blocksize': bs, 'sizes': sizes})
    victim = rng.randrange(2)          # both of the first two disks have more than 4 GiB: the DELETED run left by the victim is >= 4 GiB
    steps = [('sync', ['sync', '-B', '1']), ('delete', None), ('sync', ['sync', '-B', '1']),
             ('sync', ['sync', '-B', str(rng.choice([1, 2])), '-S', str(rng.choice([0, 1, 2]))]), ('other', ['test-rewrite'])]
    for k, (kind, args) in enumerate(steps):
        if args is None:
            os.remove(A.dpath(victim, b'big%d' % victim))      # its blocks become DELETED blocks, kept where another disk still has blocks
            continue
        T += rng.randrange(8, 3000)
        before = A.content(0)
        rc, out = A.run(BIGFLAGS + args, now=T, timeout=300)
        log.append(' '.join(args))
        with ctx.lock:
            ctx.stats['commands'] += 1
            ctx.stats['big_geometry_steps'] = ctx.stats.get('big_geometry_steps', 0) + 1
        tag = 'G%d_%d_%s' % (idx, k, args[0])
        if rc != 0:
            ctx.viol(tag + '_rc', '%s: `%s` exits %d on a large-geometry array (blocksize %d, sizes %s): %s' % (tag, ' '.join(args), rc, bs, sizes, out[-300:].decode('latin1')), replay)
            break
        after = A.content(0)
        history_check(ctx, before, after, kind, tag, replay, hs)
        if after:
            try:
                pa = CT.parse(after, 16)
                runs = [len(d['deleted']) for d in pa['disks'].values()]
                with ctx.lock:
                    ctx.stats['big_deleted_run_max_bytes'] = max(ctx.stats.get('big_deleted_run_max_bytes', 0), max(runs + [0]) * bs)
                    ctx.stats['big_file_max_bytes'] = max(ctx.stats.get('big_file_max_bytes', 0), max(sizes.values()))
            except Exception:
                pass
        check_saved(ctx, A, T, tag, replay, BIGFLAGS)
    shutil.rmtree(root, ignore_errors=True)


def uuid_scenario(ctx, idx, seed, root):
    """disk UUIDs (--test-fake-uuid gives the first two data lines the ids fake-uuid-2 / fake-uuid-1): a map without UUID gets the one
    of its disk at the next save; a disk renamed in the configuration is found again through its UUID and its map is renamed;
    swapping two data lines changes two UUIDs at once (allowed with two parity levels).  state_map is outside the Coq model: the
    expected file is the model's encoding of the model-decoded old file with the UUIDs of the maps replaced in Python."""
    import random
    rng = random.Random(seed)
    nd = rng.choice([2, 3])
    A = L.Array(root, ctx.tool, ctx.shim, ndisk=nd, npar=2, hashsize=rng.choice([16, 8]), splits=rng.choice([[1, 1], [2, 1]]), ncontent=2)
    T = 1500000000 + rng.randrange(0, 2 ** 28)
    replay = {'kind': 'uuid', 'seed': seed}
    for d in range(nd):
        for j in range(rng.randrange(1, 4)):
            L.write_file(A.dpath(d, rng.choice(L.ODD_NAMES[:14]) + b'%d' % j), rng.choice([0, 1, 1024, 2500]), rng)
    os.makedirs(A.dpath(nd - 1, b'edir'), exist_ok=True)
    A.run(['sync'], now=T)
    check_saved(ctx, A, T, 'U%d_0_sync' % idx, replay)

    def predicted(before, now):
        dec = ctx.model.ask('decode %s %s' % (A.model_conf(), L.hx(before)))
        if not dec.startswith('ok '):
            return None
        st = L.parse_state(dec[3:])
        ids = dict(A.conf_disks())
        for m in st['maps']:
            if ids.get(m['name']):
                m['uuid'] = ids[m['name']]
        e = ctx.model.ask('encode %x %s' % (now, L.state_line(st)))
        try:
            return bytes.fromhex(e)
        except ValueError:
            return None

    def step(tag, what):
        nonlocal T
        T += rng.randrange(8, 2000)
        before = A.content(0)
        rc, out = A.run(['touch'], now=T)           # loads with disk access (test-rewrite does not read the UUIDs) and always saves
        after = A.content(0)
        with ctx.lock:
            ctx.stats['commands'] += 1
            ctx.stats['uuid_steps'] = ctx.stats.get('uuid_steps', 0) + 1
        exp = predicted(before, T)
        rep = dict(replay, step=what, before_hex=before.hex(), after_hex=(after or b'').hex(), conf_disks=[(a.decode(), b.decode()) for a, b in A.conf_disks()])
        if rc != 0 or exp is None or after != exp:
            ctx.viol(tag, '%s (%s): touch rc %d; the saved file differs from the old state with the UUIDs of the configured disks in its maps at byte %d: %s'
                     % (tag, what, rc, first_diff(after or b'', exp or b''), out[-200:].decode('latin1')), rep)
            return False
        try:
            pm = {m['name'].encode('latin1') if isinstance(m['name'], str) else m['name']: m['uuid'] for m in CT.parse(after, 16)['maps']}
            want = {n: u for n, u in A.conf_disks() if n in pm}
            if any(pm[n] != u for n, u in want.items() if u):
                ctx.viol(tag, '%s (%s): maps of the saved file %s, configured disks %s' % (tag, what, pm, want), rep)
                return False
        except Exception as e:
            ctx.viol(tag, '%s: independent decoder fails: %r' % (tag, e), rep)
            return False
        check_saved(ctx, A, T, tag, replay)
        return True

    A.fake_uuid = True
    if not step('U%d_1_first_uuid' % idx, 'maps without UUID, disks now report one'):
        return
    # rename the first disk of the configuration: found again by its UUID
    A.labels[A.order[0]] = 'renamed_%d' % rng.randrange(100)
    A.write_conf()
    if not step('U%d_2_rename' % idx, 'first data disk renamed in the configuration'):
        return
    # swap the first two data lines: both UUIDs change
    A.order[0], A.order[1] = A.order[1], A.order[0]
    A.write_conf()
    step('U%d_3_swap' % idx, 'first two data lines swapped: two UUID changes')
    shutil.rmtree(root, ignore_errors=True)


# ---------------------------------------------------------------------------------------
# route A: real arrays

def scenario(ctx, idx, seed, steps, root):
    import random
    rng = random.Random(seed)
    nd = rng.choice([2, 3, 3, 4])
    npar = rng.choice([1, 2, 2, 3])
    hs = rng.choice([16, 16, 16, 2, 8, 4])
    splits = [rng.choice([1, 1, 2, 3]) for _ in range(npar)] if rng.random() < 0.35 else [1] * npar
    A = L.Array(root, ctx.tool, ctx.shim, ndisk=nd, npar=npar, hashsize=hs, splits=splits, ncontent=rng.choice([2, 3]))
    T = 1500000000 + rng.randrange(0, 2 ** 28)
    hash_opt = [rng.choice(['--test-force-murmur3', '--test-force-spooky2'])]
    present = {}     # (disk, sub) -> size
    names = list(L.ODD_NAMES)
    log = []
    replay = {'kind': 'scenario', 'seed': seed, 'steps': steps, 'log': log}

    # sometimes the last disk holds no file at all: only an empty directory, or only a symlink (fs_is_empty must still map it)
    bare = rng.choice([None, None, 'dirs', 'links']) if nd > 2 else None
    nfd = nd - 1 if bare else nd

    def add_files(k):
        for _ in range(k):
            d = rng.randrange(nfd)
            sub = rng.choice(names)
            if rng.random() < 0.3:
                sub = sub + b'_%d' % rng.randrange(100)
            if any(sub == o or sub.startswith(o + b'/') or o.startswith(sub + b'/') for (dd, o) in present if dd == d):
                continue
            size = rng.choice([0, 1, 1023, 1024, 1025, 2048, 3000, 5 * 1024, 4097])
            mt = rng.choice([None, None, 10 ** 9 * rng.randrange(1, 2 ** 31) + rng.choice([0, 1, 999999999, 123456789]),
                             10 ** 9 * (2 ** 32 + 5), -10 ** 9 * 86400 * 400 + 7])
            try:
                L.write_file(A.dpath(d, sub), size, rng, mtime=mt)
                present[(d, sub)] = size
            except OSError:
                pass

    add_files(rng.randrange(3, 8))
    # links and empty directories
    try:
        os.symlink(b'target\xff:\n', A.dpath(0, b'sym\x01link'))
        os.symlink(b'', A.dpath(1 % nd, b'sym2')) if False else None
        if bare != 'links':
            os.makedirs(A.dpath(nd - 1, b'empty:dir\n/inner'), exist_ok=True)
        else:
            os.symlink(b'no where', A.dpath(nd - 1, b'only link'))
        k0 = [k for k in present if k[0] == 0 and present[k] > 0]
        if k0:
            os.link(A.dpath(0, k0[0][1]), A.dpath(0, b'hard\\link'))
    except OSError:
        pass
    first = True
    for step in range(steps):
        T += rng.randrange(8, 5000)
        if first:
            op = 'sync'
            first = False
        else:
            # mutate the file system
            for _ in range(rng.randrange(0, 3)):
                m = rng.choice(['add', 'del', 'mod', 'move', 'grow'])
                keys = sorted(present)
                if m == 'add' or not keys:
                    add_files(rng.randrange(1, 3))
                elif m == 'del':
                    k = rng.choice(keys)
                    if sum(1 for x in keys if x[0] == k[0]) > 1:      # never empty a disk (sync would need --force-empty)
                        try:
                            os.remove(A.dpath(*k))
                            del present[k]
                        except OSError:
                            pass
                elif m in ('mod', 'grow'):
                    k = rng.choice(keys)
                    size = present[k] if m == 'mod' else present[k] + rng.choice([1, 1024, 2500])
                    L.write_file(A.dpath(*k), size, rng)
                    present[k] = size
                elif m == 'move' and nfd > 1:
                    k = rng.choice(keys)
                    d2 = (k[0] + 1) % nfd
                    if (d2, k[1]) not in present and sum(1 for x in keys if x[0] == k[0]) > 1 and \
                            not any(k[1].startswith(o + b'/') or o.startswith(k[1] + b'/') for (dd, o) in present if dd == d2):
                        try:
                            os.makedirs(os.path.dirname(A.dpath(d2, k[1])), exist_ok=True)
                            shutil.copy2(A.dpath(*k), A.dpath(d2, k[1]))
                            os.remove(A.dpath(*k))
                            present[(d2, k[1])] = present.pop(k)
                        except OSError:
                            pass
            op = rng.choice(['sync', 'sync', 'partial', 'partial', 'scrub', 'scrub_bad', 'rehash', 'rewrite_past', 'sync_nocopy', 'noop_flags', 'lose_copy'])
        log.append(op)
        tag = 'A%d_%d_%s' % (idx, step, op)
        now = T
        clamp = False
        before = None
        loaded = A.content(0)
        hkind = 'other'
        if op == 'sync':
            rc, out = A.run(hash_opt + ['sync'], now=T)
        elif op == 'partial':
            args = ['sync', '-B', str(rng.choice([1, 1, 2, 3]))]
            if rng.random() < 0.4:
                args += ['-S', str(rng.randrange(0, 4))]
            rc, out = A.run(hash_opt + args, now=T)
        elif op == 'sync_nocopy':
            rc, out = A.run(hash_opt + ['sync', rng.choice(['-N', '-R', '-F'])], now=T)
        elif op == 'scrub':
            rc, out = A.run(hash_opt + ['scrub', '-p', rng.choice(['full', '50', 'new', '100']), '-o', '0'], now=T)
        elif op == 'scrub_bad':
            A.run(hash_opt + ['sync'], now=T - 4)      # everything synced, then one byte rots silently
            history_check(ctx, loaded, A.content(0), 'sync', tag + '_presync', replay, hs)
            loaded = A.content(0)
            keys = [k for k in sorted(present) if present[k] > 0]
            if keys:
                k = rng.choice(keys)
                p = A.dpath(*k)
                st = os.stat(p)
                with open(p, 'r+b') as f:
                    f.seek(rng.randrange(present[k]))
                    f.write(b'\xa5')
                os.utime(p, ns=(st.st_atime_ns, st.st_mtime_ns))
            rc, out = A.run(hash_opt + ['scrub', '-p', 'full', '-o', '0'], now=T)
        elif op == 'rehash':
            hash_opt = ['--test-force-spooky2' if hash_opt[0].endswith('murmur3') else '--test-force-murmur3']
            rc, out = A.run(hash_opt + ['rehash'], now=T)
        elif op == 'rewrite_past':
            now = T - rng.choice([10 ** 6, 10 ** 7, 4000, T - 5])    # the clock went backwards: info times are clamped
            clamp = True
            before = A.content(0)
            rc, out = A.run(hash_opt + ['test-rewrite'], now=now)
            with ctx.lock:
                ctx.stats['clamped_rewrites'] += 1
        elif op == 'lose_copy':
            # a content copy is missing (the first one: the next is loaded) or has another size: the command loads a good one and
            # every copy is written again
            good = A.content(0)
            cps = A.content_paths()
            k = rng.randrange(len(cps))
            how = 'remove' if k == 0 else rng.choice(['remove', 'truncate', 'grow'])
            if how == 'remove':
                os.remove(cps[k])
            elif how == 'truncate':
                open(cps[k], 'wb').write(good[:rng.randrange(0, len(good))])
            else:
                open(cps[k], 'ab').write(b'\0' * rng.randrange(1, 9))
            rc, out = A.run(hash_opt + ['test-rewrite'], now=T)
            with ctx.lock:
                ctx.stats['lost_copies'] = ctx.stats.get('lost_copies', 0) + 1
            for i in range(A.ncontent):
                if rc != 0 or A.content(i) != good:
                    ctx.viol(tag + '_lose_copy', '%s: content copy %d was %sd; after test-rewrite (rc %d) copy %d is not the good copy (first difference at byte %d)'
                             % (tag, k, how, rc, i, first_diff(A.content(i) or b'', good)), dict(replay, copy=k, how=how))
                    break
        elif op == 'noop_flags':
            # a sync that has nothing to process still loads with clear_past_hash and saves
            rc, out = A.run(hash_opt + ['sync', '-S', '100000', '--test-force-content-write'], now=T)
        with ctx.lock:
            ctx.stats['commands'] += 1
        if op in ('sync', 'partial', 'noop_flags'):
            hkind = 'sync'
        elif op == 'sync_nocopy':
            hkind = 'sync_R'
        history_check(ctx, loaded, A.content(0), hkind, tag, replay, hs)
        check_saved(ctx, A, now, tag, replay, hash_opt, clamp=clamp, before=before)
    shutil.rmtree(root, ignore_errors=True)


# ---------------------------------------------------------------------------------------
# route B: generated states

def gen_case(ctx, idx, seed, root, big, state_override=None, now_override=None):
    import random
    rng = random.Random(seed)
    now = now_override if now_override is not None else rng.choice([1700000000, 1700000000, 1700000003, 2 ** 31 + 7, 2 ** 32 + 100, 12])
    if state_override is not None:
        s, geom = state_override
    else:
        s, geom = G.gen_state(rng, big=big, now=now)
    A = L.Array(root, ctx.tool, ctx.shim, ndisk=geom['nd'], npar=geom['nl'], hashsize=geom['hs'], splits=geom['split'], ncontent=2,
                blocksize_k=geom['bs_k'])
    pp = A.parity_paths()
    for l, p in enumerate(s['parity']):
        for k, x in enumerate(p['splits']):
            x['path'] = pp[l][k].encode()
    sl = L.state_line(s)
    tag = 'B%d' % idx
    replay = {'kind': 'gen', 'seed': seed, 'big': big, 'now': now, 'state': sl, 'geom': geom}
    with ctx.lock:
        ctx.stats['gen_states'] += 1
    # the theorems on the extracted code
    rt = ctx.model.ask('roundtrip %x %s' % (now, sl))
    fp = ctx.model.ask('fixpoint %x %s' % (now, sl))
    if rt != 'ok' or fp != 'ok':
        ctx.viol(tag + '_theorem', 'generated well-formed state: extracted decode(encode s) = normalise s answers "%s", rewrite fixpoint answers "%s"'
                 % (rt[:200], fp[:200]), replay)
    else:
        with ctx.lock:
            ctx.stats['gen_roundtrip'] += 1
    # model normalise against the independent one
    nm = ctx.model.ask('normalise %x %s' % (now, sl))
    want = G.py_normalise(now, s)
    if nm != L.state_line(want):
        k = first_diff(nm, L.state_line(want))
        ctx.viol(tag + '_normalise', 'MODEL-DRIFT model normalise differs from the independent Python oracle at column %d: "%s" vs "%s"'
                 % (k, nm[max(0, k - 30):k + 40], L.state_line(want)[max(0, k - 30):k + 40]), replay, no_input=True)
    enc = ctx.model.ask('encode %x %s' % (now, sl))
    try:
        data = bytes.fromhex(enc)
    except ValueError:
        ctx.viol(tag + '_encode', 'model encode failed: ' + enc[:100], replay, no_input=True)
        shutil.rmtree(root, ignore_errors=True)
        return
    A.install(data)
    rep = dict(replay, content_hex=data.hex() if len(data) < 20000 else data.hex()[:20000] + '...')
    ctx.note_state(want, data)
    # the real tool loads it: dumps from the generated state
    ok = compare_dumps(ctx, A, want, now, tag, rep)
    # rewrite by the real tool: the model predicts the bytes; when no info time is clamped they are the installed bytes
    times = [v & ~7 for k, v in s['info_runs'] if v]
    monotone = all(0 < t <= now for t in times)
    re_ = ctx.model.ask('reencode %x %s %s' % (now, A.model_conf(), L.hx(data)))
    f2 = bytes.fromhex(re_[3:]) if re_.startswith('ok ') else None
    rc, out = A.run(['test-rewrite'], now=now)
    d2 = A.content(0)
    with ctx.lock:
        ctx.stats['commands'] += 1
        ctx.stats['files_checked'] += 1
    if rc != 0 or d2 != f2:
        ctx.viol(tag + '_rewrite', 'MODEL-DRIFT %s: the real `test-rewrite` (rc %d) of the file encoded by the model differs from the model\'s own re-encoding: '
                 'first difference at byte %d of %d/%d; %s' % (tag, rc, first_diff(d2 or b'', f2 or b''), len(d2 or b''), len(f2 or b''), out[-200:].decode('latin1')),
                 rep, no_input=True)
    elif monotone and d2 != data:
        ctx.viol(tag + '_rewrite', '%s: `test-rewrite` does not reproduce a content file whose info times are all <= now: first difference at byte %d of %d/%d'
                 % (tag, first_diff(d2, data), len(d2), len(data)), rep)
    else:
        if d2 != data:
            with ctx.lock:
                ctx.stats['backward_clock_rewrite_changes_bytes'] += 1
                if getattr(ctx, 'finding_example_b', None) is None:
                    ctx.finding_example_b = dict(rep, second_rewrite_hex=d2.hex(), clock=now, first_difference_at_byte=first_diff(d2, data))
        rc, out = A.run(['test-rewrite'], now=now)
        d3 = A.content(0)
        with ctx.lock:
            ctx.stats['commands'] += 1
        if rc != 0 or d3 != d2:
            ctx.viol(tag + '_fixpoint', '%s: a second `test-rewrite` at the same clock changes the file again (rc %d): first difference at byte %d'
                     % (tag, rc, first_diff(d3 or b'', d2 or b'')), rep)
        else:
            with ctx.lock:
                ctx.stats['tool_rewrite_identical'] += 1
            if A.content(1) != d2:
                ctx.viol(tag + '_copies', '%s: content copies differ after test-rewrite' % tag, rep)
    # whatever the bytes, the state must have survived the rewrite
    if rc == 0:
        compare_dumps(ctx, A, want, now, tag + '_after_rewrite', rep)
    # the same state with its DELETED blocks at unused positions still in the file (not cleaned): the real save must drop exactly
    # those and keep the hash of every other one (independent decoder), and write what the model writes
    rawx = ctx.model.ask('rawencode %x %s' % (now, sl))
    try:
        raw = bytes.fromhex(rawx)
    except ValueError:
        raw = None
    if raw is not None and raw != data and len(raw) < 200000:
        A.install(raw)
        pred = ctx.model.ask('reencode %x %s %s' % (now, A.model_conf(), L.hx(raw)))
        rc, out = A.run(['test-rewrite'], now=now)
        d3 = A.content(0)
        rrep = dict(replay, content_hex=raw.hex(), note='file with DELETED blocks at unused positions')
        with ctx.lock:
            ctx.stats['commands'] += 1
            ctx.stats['uncleaned_files'] = ctx.stats.get('uncleaned_files', 0) + 1
        bad = None
        if rc == 0 and d3:
            try:
                got = {nm.encode('latin1'): dd['deleted'] for nm, dd in CT.parse(d3, 16)['disks'].items()}
                for d in want['disks']:
                    exp = dict(d['deleted'])
                    if got.get(d['name'], {}) != exp:
                        g = got.get(d['name'], {})
                        pos = sorted(set(g) ^ set(exp) | {q for q in set(g) & set(exp) if g[q] != exp[q]})[:4]
                        bad = 'disk %s: DELETED blocks after the save differ from the ones of the used positions before it at positions %s: %s, expected %s' % (
                            d['name'].decode('latin1'), pos, [(q, g[q].hex()) for q in pos if q in g], [(q, exp[q].hex()) for q in pos if q in exp])
                        break
                if not bad:
                    gm = [m['name'].encode('latin1') for m in CT.parse(d3, 16)['maps']]
                    em = [m['name'] for m in want['maps']]
                    if gm != em:
                        bad = 'maps after the save %s, expected %s (a disk left with nothing after the clean-up is not mapped)' % (gm, em)
            except Exception as e:
                bad = 'the independent decoder cannot read the rewritten file: %r' % (e,)
            # the disks that own nothing any more can be dropped from the configuration
            keepn = {m['name'] for m in want['maps']}
            keepi = [i for i in A.order if A.labels[i].encode() in keepn]
            if not bad and keepi and len(keepi) < len(A.order):
                saved_order = list(A.order)
                A.order = keepi
                A.write_conf()
                A.install(d3)          # the content copies live in directories that stay
                rc2, out2 = A.run(['list'], now=now)
                A.order = saved_order
                A.write_conf()
                with ctx.lock:
                    ctx.stats['commands'] += 1
                    ctx.stats['reload_without_empty_disks'] = ctx.stats.get('reload_without_empty_disks', 0) + 1
                if rc2 != 0:
                    bad = 'after the save the disks %s own nothing, but the array does not load (rc %d) once they are removed from the configuration: %s' % (
                        [A.labels[i] for i in saved_order if i not in keepi], rc2, out2[-200:].decode('latin1'))
        if rc != 0:
            ctx.viol(tag + '_uncleaned', '%s: the tool does not load (rc %d) a content file whose only oddity is DELETED blocks at unused positions, which the model '
                     'loads: %s' % (tag, rc, out[-200:].decode('latin1')), rrep, no_input=not pred.startswith('ok '))
        elif bad:
            ctx.viol(tag + '_uncleaned', '%s: saving a state that holds DELETED blocks at unused positions: %s' % (tag, bad), rrep)
        elif not pred.startswith('ok ') or bytes.fromhex(pred[3:]) != d3:
            ctx.viol(tag + '_uncleaned', 'MODEL-DRIFT %s: rewrite of a file with DELETED blocks at unused positions differs from the model\'s (first difference at byte %d)'
                     % (tag, first_diff(bytes.fromhex(pred[3:]) if pred.startswith('ok ') else b'', d3 or b'')), rrep, no_input=True)
    # ---- legacy records: an independent Python writer emits the same state as a SNAPCNT1/2 file with 'm' maps, 'n' blocks, 'P' ----
    if LG.eligible(want) and len(data) < 60000:
        ver, oldm, newb = rng.choice([1, 2]), rng.random() < 0.7, rng.random() < 0.7
        lraw, lexp = LG.encode(want, ver, oldm, newb)
        lrep = dict(replay, content_hex=lraw.hex(), note='legacy file SNAPCNT%d, m=%s n=%s' % (ver, oldm, newb))
        dec = ctx.model.ask('decode %s %s' % (A.model_conf(), L.hx(lraw)))
        with ctx.lock:
            ctx.stats['legacy_files'] = ctx.stats.get('legacy_files', 0) + 1
        if dec != 'ok ' + L.state_line(lexp):
            k = first_diff(dec, 'ok ' + L.state_line(lexp))
            ctx.viol(tag + '_legacy_model', 'MODEL-DRIFT %s: the model loads a legacy file (SNAPCNT%d, m=%s, n=%s) into a state different from the one its independent '
                     'writer encoded: column %d "%s"' % (tag, ver, oldm, newb, k, dec[max(0, k - 20):k + 40]), lrep, no_input=True)
        A.install(lraw)
        if compare_dumps(ctx, A, lexp, now, tag + '_legacy', lrep):
            pred = ctx.model.ask('reencode %x %s %s' % (now, A.model_conf(), L.hx(lraw)))
            rc, out = A.run(['test-rewrite'], now=now)
            d4 = A.content(0)
            with ctx.lock:
                ctx.stats['commands'] += 1
            if rc != 0 or not pred.startswith('ok ') or bytes.fromhex(pred[3:]) != d4:
                ctx.viol(tag + '_legacy_rewrite', 'MODEL-DRIFT %s: rewrite (rc %d) of a legacy file differs from the model\'s at byte %d' %
                         (tag, rc, first_diff(bytes.fromhex(pred[3:]) if pred.startswith('ok ') else b'', d4 or b'')), lrep, no_input=True)
            elif d4[:8] != b'SNAPCNT2':
                ctx.viol(tag + '_legacy_rewrite', '%s: a legacy file is not rewritten in the current format' % tag, lrep)
            else:
                compare_dumps(ctx, A, lexp, now, tag + '_legacy_after_rewrite', lrep)
    # ---- a split removed from the configuration: dropped when its size is 0, refused otherwise ('Q' record) ----
    lv = [l for l, p in enumerate(want['parity']) if len(p['splits']) >= 2]
    if lv and len(data) < 60000:
        import copy
        l = rng.choice(lv)
        for used in (False, True):
            s2 = copy.deepcopy(want)
            s2['parity'][l]['splits'][-1]['size'] = rng.choice([1, 4096, 2 ** 40]) if used else 0
            enc2 = ctx.model.ask('encode %x %s' % (now, L.state_line(s2)))
            geom2 = dict(geom, split=[k - (1 if i == l else 0) for i, k in enumerate(geom['split'])])
            root2 = root + ('_q%d' % used)
            A2 = L.Array(root2, ctx.tool, ctx.shim, ndisk=geom2['nd'], npar=geom2['nl'], hashsize=geom2['hs'], splits=geom2['split'], ncontent=1,
                         blocksize_k=geom2['bs_k'])
            try:
                raw2 = bytes.fromhex(enc2)
            except ValueError:
                break
            qrep = dict(replay, content_hex=raw2.hex(), note='level %d has one split less in the configuration; size of the removed one %s 0' % (l, '!=' if used else '=='))
            A2.install(raw2)
            dec2 = ctx.model.ask('decode %s %s' % (A2.model_conf(), L.hx(raw2)))
            rc, out = A2.run(['test-rewrite'], now=now)
            with ctx.lock:
                ctx.stats['commands'] += 1
                ctx.stats['split_removed'] = ctx.stats.get('split_removed', 0) + 1
            if used:
                if rc == 0 or dec2.startswith('ok '):
                    ctx.viol(tag + '_split_used', '%s: a parity split that still holds data (size != 0) was removed from the configuration: tool rc %d, model %s '
                             '(both must refuse)' % (tag, rc, dec2[:8]), qrep, no_input=(rc != 0))
            else:
                d5 = A2.content(0)
                pred = ctx.model.ask('reencode %x %s %s' % (now, A2.model_conf(), L.hx(raw2)))
                okp = pred.startswith('ok ') and rc == 0 and bytes.fromhex(pred[3:]) == d5
                if not okp:
                    ctx.viol(tag + '_split_drop', 'MODEL-DRIFT %s: dropping an unused split: tool rc %d, model %s, rewritten files %s' %
                             (tag, rc, pred[:8], 'differ' if rc == 0 else '-'), qrep, no_input=True)
                else:
                    try:
                        sp = CT.parse(d5, 16)['levels'][l]['splits']
                        exp = want['parity'][l]['splits'][:-1]
                        if len(sp) != len(exp) or any(a['uuid'] != b['uuid'] or (len(exp) > 1 and a['size'] != b['size']) for a, b in zip(sp, exp)):
                            ctx.viol(tag + '_split_drop', '%s: after dropping the unused last split of level %d the saved splits are %s, expected %s'
                                     % (tag, l, [(a['uuid'], a['size']) for a in sp], [(b['uuid'], b['size']) for b in exp]), qrep)
                    except Exception as e:
                        ctx.viol(tag + '_split_drop', '%s: independent decoder fails on the rewritten file: %r' % (tag, e), qrep)
            shutil.rmtree(root2, ignore_errors=True)
    with ctx.lock:
        if len(data) < 100000:
            ctx.valid_files.append((A.model_conf(), data))
        if len(ctx.samples) < 12 and len(data) < 800:
            ctx.samples.append({'route': 'B', 'case': tag, 'now': now, 'state': sl[:300], 'content_hex': data.hex()[:160] + '...'})
    shutil.rmtree(root, ignore_errors=True)


# ---------------------------------------------------------------------------------------
# route C: damaged files

def tool_loads(ctx, A, data, now=1700000000, timeout=20):
    """does the real loader accept the bytes?  returns (accepted, list lines, rc)"""
    A.install(data)
    lg = os.path.join(A.root, 'mal.log')
    if os.path.exists(lg):
        os.remove(lg)
    env = dict(os.environ, TZ='UTC')

    def lim():
        resource.setrlimit(resource.RLIMIT_AS, (3 << 30, 3 << 30))
    try:
        r = subprocess.run([A.tool] + L.FLAGS + ['-c', A.conf, 'list', '-v', '-l', lg], stdout=subprocess.PIPE, stderr=subprocess.STDOUT, env=env,
                           timeout=timeout, preexec_fn=lim)
        rc = r.returncode
    except subprocess.TimeoutExpired:
        rc = -999
    return rc == 0, L.read_log(lg), rc


def mutate(rng, data):
    body = bytearray(data[:-4])
    k = rng.random()
    if k < 0.2:
        cut = rng.randrange(0, len(data))
        return bytes(data[:cut]), 'truncate@%d' % cut
    if k < 0.5:
        i = rng.randrange(12, len(body))
        body[i] = rng.choice([0, 0x7f, 0x80, 0xff, body[i] ^ (1 << rng.randrange(8)), rng.randrange(256)])
        return fix_crc(bytes(body)), 'byte@%d+crc' % i
    if k < 0.6:
        i = rng.randrange(12, len(data))
        b = bytearray(data)
        b[i] ^= 1 << rng.randrange(8)
        return bytes(b), 'bit@%d' % i
    if k < 0.7:
        return bytes(data) + bytes(rng.randrange(256) for _ in range(rng.randrange(1, 6))), 'trailing'
    if k < 0.8:
        i = rng.randrange(12, len(body))
        ins = rng.choice([b'\x7f\x7f\x7f\x7f\x8f', b'\x7f\x7f\x7f\x7f\x7f', b'\xff', b'\x80', b'O', b'o', b'N'])
        body[i:i] = ins
        return fix_crc(bytes(body)), 'insert@%d+crc' % i
    if k < 0.9:
        i = rng.randrange(12, len(body))
        del body[i:i + rng.randrange(1, 4)]
        return fix_crc(bytes(body)), 'delete@%d+crc' % i
    b = bytearray(data)
    b[7] = rng.choice([0x31, 0x32, 0x33, 0x34, 0x30])
    return fix_crc(bytes(b[:-4])), 'version+crc'


def malformed_case(ctx, A, kline, data, what, tag):
    rep = {'kind': 'mal', 'conf': kline, 'content_hex': data.hex(), 'mutation': what}
    dec = ctx.model.ask('decode %s %s' % (kline, L.hx(data)))
    acc, lines, rc = tool_loads(ctx, A, data)
    with ctx.lock:
        ctx.stats['malformed'] += 1
        ctx.stats['commands'] += 1
    if dec.startswith('ok '):
        s = L.parse_state(dec[3:])
        if not acc:
            # state_map, after the load and outside the model: "Too many data disks" when a map position is >= RAID_DATA_MAX (251)
            if any(m['pos'] + 1 > 251 for m in s['maps']):
                with ctx.lock:
                    ctx.stats['malformed_rejected_by_state_map'] = ctx.stats.get('malformed_rejected_by_state_map', 0) + 1
                return
            ctx.viol(tag, 'MODEL-DRIFT damaged file (%s): the model accepts, the tool rejects (rc %d)' % (what, rc), rep, no_input=True)
            return
        got = sorted(l for l in lines if L.LIST_KEEP.match(l))
        if got != L.expected_list(s) or L.log_counts(lines) != L.expected_counts(s):
            ctx.viol(tag, 'MODEL-DRIFT damaged file (%s) accepted by both, but the states differ: %s' % (what, json.dumps(diff_lists(got, L.expected_list(s)))), rep, no_input=True)
        with ctx.lock:
            ctx.stats['malformed_accepted_both'] += 1
    else:
        if acc:
            ctx.viol(tag, 'MODEL-DRIFT damaged file (%s): the tool loads it (rc 0), the model answers %s' % (what, dec[:10]), rep, no_input=True)
            return
        with ctx.lock:
            ctx.stats['malformed_rejected_both'] += 1


# ---------------------------------------------------------------------------------------
# route D: the loader without configuration (snapraid -C): level / split / disk auto-configuration

NOCONF = L.conf_line(True, 256 * 1024, 16, [], [])


def noconf_expect(s):
    out = ['blocksize %d' % (s['bs'] // 1024), 'hashsize %d' % s['hs']]
    for l, p in enumerate(s['parity']):
        out.append('level %s splits %d' % (L.LEVELS[l], len(p['splits'])))
        for k, x in enumerate(p['splits']):
            out.append('split %d PATH:%s SIZE:%s UUID:%s' % (k, x['path'].decode('latin1') or '?', '?' if x['size'] == L.SIZE_INVALID else str(x['size']),
                                                             x['uuid'].decode('latin1') or '?'))
    for m in s['maps']:
        out.append('data %s uuid %s first %s' % (m['name'].decode('latin1'), m['uuid'].decode('latin1'),
                                                 next((L_first(d) for d in s['disks'] if d['name'] == m['name']), '')))
    return out


def L_first(d):
    return 'yes' if d['files'] else ''


def noconf_parse(text):
    out = []
    lines = text.decode('latin1').split('\n')
    lev = -1
    k = None
    cur = None
    pend = {}
    for ln in lines:
        if ln.startswith('blocksize ') or ln.startswith('hashsize '):
            out.append(ln)
        m = re.match(r'# You had (\d+) of them:', ln)
        if m:
            lev += 1
            out.append('level %s splits %s' % (L.LEVELS[lev], m.group(1)))
        m = re.match(r'# (\d+):$', ln)
        if m:
            k = int(m.group(1))
            cur = {}
        for key in ('PATH', 'SIZE', 'UUID'):
            if ln.startswith('# %s:' % key) and cur is not None:
                cur[key] = ln[len(key) + 3:]
        if ln == '#' and cur is not None:
            out.append('split %d PATH:%s SIZE:%s UUID:%s' % (k, cur.get('PATH'), cur.get('SIZE'), cur.get('UUID')))
            cur = None
        m = re.match(r"# Disk '(.*)' is the one with id '(.*)'$", ln)
        if m:
            pend['uuid'] = m.group(2)
        if ln.startswith('# and containing: '):
            pend['first'] = 'yes'
        m = re.match(r'data (.*) ENTER_HERE_THE_DIR$', ln)
        if m:
            out.append('data %s uuid %s first %s' % (m.group(1), pend.get('uuid', ''), pend.get('first', '')))
            pend = {}
    return out


def noconf_case(ctx, data, path, tag):
    """the real `snapraid -C <content>` against the model's decode without configuration"""
    open(path, 'wb').write(data)
    try:
        r = subprocess.run([ctx.tool, '-C', path], stdout=subprocess.PIPE, stderr=subprocess.DEVNULL, timeout=30, env=dict(os.environ, TZ='UTC'))
    except subprocess.TimeoutExpired:
        return
    dec = ctx.model.ask('decode %s %s' % (NOCONF, L.hx(data)))
    rep = {'kind': 'mal', 'conf': NOCONF, 'content_hex': data.hex(), 'mutation': 'none (snapraid -C)'}
    with ctx.lock:
        ctx.stats['noconf'] = ctx.stats.get('noconf', 0) + 1
    if (r.returncode == 0) != dec.startswith('ok '):
        ctx.viol(tag, 'MODEL-DRIFT without configuration (snapraid -C): tool rc %d, model %s' % (r.returncode, dec[:10]), rep, no_input=True)
        return
    if r.returncode != 0:
        return
    s = L.parse_state(dec[3:])
    texts = [m['uuid'] for m in s['maps']] + [m['name'] for m in s['maps']] + [x['uuid'] for p in s['parity'] for x in p['splits']] + \
            [x['path'] for p in s['parity'] for x in p['splits']]
    if any(c < 0x20 or c == 0x27 for t in texts for c in t):
        return      # the generated configuration is line oriented: such strings cannot be read back from it
    with ctx.lock:
        ctx.stats['noconf_compared'] = ctx.stats.get('noconf_compared', 0) + 1
    got, want = noconf_parse(r.stdout), noconf_expect(s)
    if got != want:
        d = [(a, b) for a, b in zip(got + [''] * len(want), want + [''] * len(got)) if a != b][:3]
        ctx.viol(tag, 'MODEL-DRIFT without configuration (snapraid -C): generated configuration differs from the model\'s decoded state: %s' % json.dumps(d), rep, no_input=True)


def check_consts(chk, snap):
    bad = []
    for name, (f, rx, val) in CONSTS.items():
        try:
            m = re.search(rx, open(os.path.join(snap, f), errors='replace').read())
        except FileNotFoundError:
            m = None
        if not m:
            bad.append('%s not found in %s' % (name, f))
            continue
        v = int(m.group(1), 16 if name == 'INFO_MASK' else 10)
        if v != val:
            bad.append('%s = %d in %s, the model assumes %d' % (name, v, f, val))
    return bad


def replay_case(path):
    rp = json.load(open(path))['replay']
    snap = snapshot_repo()
    tool = build_tool(snap)
    shim = os.path.join(snap, 'c10_timeshim.so')
    run(['gcc', '-shared', '-fPIC', '-O1', '-o', shim, os.path.join(VERIF, 'harness', 'c', 'c10_timeshim.c'), '-ldl'])
    model = Model(build_model('Extract/Extract_C10.vo', 'ocaml/C10', 'c10_ext', 'driver.ml', 'model'))
    chk = Check('C10', 'replay')
    ctx = Ctx(chk, tool, shim, model)
    root = mkscratch('c10r.')
    kind = rp.get('kind')
    if kind == 'scenario':
        scenario(ctx, 0, rp['seed'], rp['steps'], os.path.join(root, 'a'))
    elif kind == 'emptied':
        emptied_scenario(ctx, 0, rp['seed'], os.path.join(root, 'a'))
    elif kind == 'oldest':
        oldest_scenario(ctx, 0, rp['seed'], os.path.join(root, 'a'))
    elif kind == 'big':
        big_scenario(ctx, 0, rp['seed'], os.path.join(root, 'a'))
    elif kind == 'uuid':
        uuid_scenario(ctx, 0, rp['seed'], os.path.join(root, 'a'))
    elif kind == 'hole':
        hole_scenario(ctx, 0, rp['seed'], os.path.join(root, 'a'))
    elif kind == 'gen':
        toks = rp['state']
        s = L.parse_state(toks)
        gen_case(ctx, 0, rp['seed'], os.path.join(root, 'a'), rp.get('big', False), state_override=(s, rp['geom']), now_override=rp['now'])
    elif kind == 'mal':
        print('model: ' + model.ask('decode %s %s' % (rp['conf'], L.hx(bytes.fromhex(rp['content_hex']))))[:200])
        print('(install the bytes as the content file of a configuration matching the conf line to see the tool)')
    for what, p, _ in chk.violations:
        print('# ' + what)
    print('replay: %d violation(s)' % len(chk.violations))
    return 1 if chk.violations else 0


def main(tier, replay=None):
    if replay:
        return replay_case(replay)
    chk = Check('C10', tier, 'proof + correspondence')
    thorough = tier == 'thorough'
    snap = snapshot_repo()
    regen_msgs = regen(snap)
    tool = [None, None]

    def bt():
        try:
            tool[0] = build_tool(snap)
        except BuildError as e:
            tool[1] = str(e)
    tb = threading.Thread(target=bt)
    tb.start()
    shim = os.path.join(snap, 'c10_timeshim.so')
    r = run(['gcc', '-shared', '-fPIC', '-O1', '-o', shim, os.path.join(VERIF, 'harness', 'c', 'c10_timeshim.c'), '-ldl'])
    if r.returncode != 0:
        raise RuntimeError('shim build failed: ' + r.stdout)

    t_ob = time.time()
    ob = check_obligations('C10')
    phases = {'build+snapshot_s': round(t_ob - chk.t0, 1), 'obligations_s': round(time.time() - t_ob, 1)}
    proof_coverage(chk, ob, 'make -f Makefile.coq -k Props/Properties_C10.vo (coqc 8.16.1, full .vo) + Print Assumptions',
                   ['Coq 8.16.1 kernel incl. vm_compute',
                    'coq/Codec/CodecModel.v is a hand transcription of state_read_content / state_write_content / state_write_thread '
                    '(cmdline/state.c) and of the helpers of elem.c / elem.h it uses; tied to the C by routes A, B, C of this check on every run',
                    'coq/Codec/Varint.v (packed integers, strings) and coq/Crc/CrcModel.v (crc32c_spec) are the models of C16',
                    'constants UUID_MAX, HASH_MAX, LEV_MAX, SPLIT_MAX, BLOCK_STATE_*, INFO_MASK are re-read from the headers on every run; PATH_MAX = 4096 (Linux)',
                    'extraction (ExtrOcamlBasic only) + ocaml/C10/driver.ml (parsing/printing)',
                    'harness/c/c10_timeshim.c (time() from C10_FAKE_TIME)',
                    'harness/py/c10_lib.py (expected `list -l` / `status -G -l` dumps), harness/py/c10_gen.py (state generator, independent normalise)',
                    'the extent trees of elem.c are abstracted to "parity position -> block" lookups; a position used twice aborts at the end of the load '
                    'in the model, possibly earlier in the C (same verdict)',
                    'NOT modelled: state_map after the load (new maps for unmapped configured disks, UUID updates, the limit of 251 data disk positions -- '
                    'the check knows that limit when it compares accept/reject on damaged files), the text/SNAPCNT1-only paths, '
                    'I/O errors while writing, multi-threaded writers (every thread runs the same state_write_thread on the same state)'])
    cb = check_consts(chk, snap)
    if cb:
        chk.violation('consts', 'MODEL-DRIFT constants of the model differ from the headers: ' + '; '.join(cb), {'consts': cb}, no_input=True)
    try:
        model_exe = build_model('Extract/Extract_C10.vo', 'ocaml/C10', 'c10_ext', 'driver.ml', 'model')
    except BuildError as e:
        chk.violation('model', 'extracted model does not build: ' + str(e)[-400:], {'error': str(e)[-2000:]}, no_input=True)
        return chk.finish()
    tb.join()
    if tool[0] is None:
        chk.violation('build', 'working tree does not build: ' + (tool[1] or '')[:500], {'error': (tool[1] or '')[:4000]}, no_input=True)
        return chk.finish()
    phases['model_build_s'] = round(time.time() - t_ob - phases['obligations_s'], 1)
    t_run = time.time()
    ctx = Ctx(chk, tool[0], shim, Model(model_exe))
    base = mkscratch('c10.')
    rng = chk.rng

    # ---- corpus first ----
    cdir = os.path.join(VERIF, 'corpus', 'C10')
    ncorpus = 0
    for f in sorted(os.listdir(cdir)) if os.path.isdir(cdir) else []:
        if not f.endswith('.json'):
            continue
        c = json.load(open(os.path.join(cdir, f)))
        ncorpus += 1
        if c['kind'] == 'gen':
            gen_case(ctx, 9000 + ncorpus, c.get('seed', 1), os.path.join(base, 'corp%d' % ncorpus), False,
                     state_override=(L.parse_state(c['state']), c['geom']), now_override=c['now'])
        elif c['kind'] == 'scenario':
            scenario(ctx, 9000 + ncorpus, c['seed'], c['steps'], os.path.join(base, 'corp%d' % ncorpus))

    nscen = 80 if thorough else 24
    steps = 9 if thorough else 7
    ngen = 1500 if thorough else 250
    nbig = 40 if thorough else 8
    nmal = 4000 if thorough else 600
    jobs = []
    with ThreadPoolExecutor(max_workers=NCPU) as ex:
        for i in range(nscen):
            jobs.append(ex.submit(scenario, ctx, i, rng.getrandbits(48), steps, os.path.join(base, 'A%d' % i)))
        for i in range(60 if thorough else 16):
            jobs.append(ex.submit(hole_scenario, ctx, i, rng.getrandbits(48), os.path.join(base, 'H%d' % i)))
        for i in range(40 if thorough else 12):
            jobs.append(ex.submit(emptied_scenario, ctx, i, rng.getrandbits(48), os.path.join(base, 'EM%d' % i)))
        for i in range(40 if thorough else 10):
            jobs.append(ex.submit(oldest_scenario, ctx, i, rng.getrandbits(48), os.path.join(base, 'OL%d' % i)))
        for i in range(12 if thorough else 4):
            jobs.append(ex.submit(big_scenario, ctx, i, rng.getrandbits(48), os.path.join(base, 'BG%d' % i)))
        for i in range(24 if thorough else 6):
            jobs.append(ex.submit(uuid_scenario, ctx, i, rng.getrandbits(48), os.path.join(base, 'U%d' % i)))
        for i in range(ngen):
            jobs.append(ex.submit(gen_case, ctx, i, rng.getrandbits(48), os.path.join(base, 'B%d' % i), False))
        for i in range(nbig):
            jobs.append(ex.submit(gen_case, ctx, 5000 + i, rng.getrandbits(48), os.path.join(base, 'G%d' % i), 1))
        for i in range(40 if thorough else 10):
            jobs.append(ex.submit(gen_case, ctx, 7000 + i, rng.getrandbits(48), os.path.join(base, 'HG%d' % i), 3))
        for i in range(2 if thorough else 0):
            jobs.append(ex.submit(gen_case, ctx, 6000 + i, rng.getrandbits(48), os.path.join(base, 'H%d' % i), 2))
        for j in jobs:
            try:
                j.result()
            except Exception as e:
                import traceback
                chk.violation('harness', 'harness error: %r %s' % (e, traceback.format_exc()[-600:]), {'error': repr(e)}, no_input=True)

    phases['routes_AB_s'] = round(time.time() - t_run, 1)
    t_c = time.time()
    # ---- route C: damaged versions of the valid files collected above ----
    files = [x for x in ctx.valid_files if len(x[1]) < 4000]
    geoms = {}
    for kline, data in files:
        geoms.setdefault(kline, []).append(data)
    klines = sorted(geoms)
    rng.shuffle(klines)
    per = max(1, nmal // max(1, min(len(klines), 40)))
    mjobs = []

    def mal_group(gi, kline, datas, seed):
        import random
        r = random.Random(seed)
        # rebuild an array with this geometry: parse the conf line back
        t = kline.split()
        bs, hs = int(t[2], 16), int(t[3], 16)
        ndk = int(t[9], 16)
        i = 10 + 2 * ndk
        nl = int(t[i], 16)
        i += 1
        split = []
        for _ in range(nl):
            k = int(t[i], 16)
            split.append(k)
            i += 1 + k
        root = os.path.join(base, 'C%d' % gi)
        A = L.Array(root, ctx.tool, ctx.shim, ndisk=ndk, npar=nl, hashsize=hs, splits=split, ncontent=1, blocksize_k=bs // 1024)
        kl = A.model_conf()
        for n in range(per):
            data = r.choice(datas)
            # the paths of the Q records are those of the array that wrote the file: irrelevant to the loader with a configuration
            m, what = mutate(r, data)
            malformed_case(ctx, A, kl, m, what, 'C%d_%d' % (gi, n))
        shutil.rmtree(root, ignore_errors=True)
    with ThreadPoolExecutor(max_workers=NCPU) as ex:
        for gi, kline in enumerate(klines[:40]):
            mjobs.append(ex.submit(mal_group, gi, kline, geoms[kline], rng.getrandbits(48)))
        for j in mjobs:
            try:
                j.result()
            except Exception as e:
                import traceback
                chk.violation('harness', 'harness error: %r %s' % (e, traceback.format_exc()[-600:]), {'error': repr(e)}, no_input=True)

    phases['route_C_s'] = round(time.time() - t_c, 1)
    t_d = time.time()
    import random as _r
    rd = _r.Random(rng.getrandbits(48))
    pool = [x for x in ctx.valid_files if len(x[1]) < 6000 and not any(0x0a in m for m in [x[1][:0]])]
    rd.shuffle(pool)
    ddir = os.path.join(base, 'D')
    os.makedirs(ddir, exist_ok=True)
    with ThreadPoolExecutor(max_workers=NCPU) as ex:
        djobs = [ex.submit(noconf_case, ctx, data, os.path.join(ddir, 'c%d' % i), 'D%d' % i) for i, (kl, data) in enumerate(pool[:(400 if thorough else 80)])]
        for j in djobs:
            try:
                j.result()
            except Exception as e:
                import traceback
                chk.violation('harness', 'harness error: %r %s' % (e, traceback.format_exc()[-600:]), {'error': repr(e)}, no_input=True)
    phases['route_D_s'] = round(time.time() - t_d, 1)
    chk.cov['phases'] = phases
    # ---- verdict on the obligations ----
    if ob['failed']:
        found = [v for v in chk.violations if not v[2]]
        if not found:
            f0 = ob['failed'][0]
            chk.violation('obligation', 'proof obligation of C10 no longer holds (%s): %s -- the failing-input search (%d generated states through '
                          'decode/encode/normalise on the extracted model and through the real tool, %d real content files) found no concrete failing input'
                          % (f0['where'], f0['error'][:300], ctx.stats['gen_states'], ctx.stats['files_checked']), {'failed': ob['failed']}, no_input=True)
    st = ctx.stats
    chk.cov['evaluations'] = st['files_checked'] + st['malformed'] + st['gen_states']
    chk.cov['distinct_nontrivial'] = len(ctx.distinct)
    chk.cov['rule'] = ('distinct content files (by CRC) that went through model decode + re-encode and the real loader/rewriter; '
                       'a case counts only if it holds at least one record beyond the header')
    chk.cov['samples'] = ctx.samples
    chk.cov['distribution'] = {k: v for k, v in st.items()}
    chk.cov['corpus_cases'] = ncorpus
    chk.cov['violations_found_before_cap'] = getattr(ctx, 'nviol', 0)
    chk.assumptions = ['time() is the only clock read while saving (LD_PRELOAD shim)', 'tmpfs under /dev/shm accepts arbitrary byte names',
                       'tmpfs has no device UUID: disk UUIDs are empty except in the uuid scenarios (--test-fake-uuid); parity UUID updates of state_map '
                       '(state.c 1461-1473) are not reachable here',
                       'exercised by oracle only (outside the Coq model): state_map UUID adoption / UUID change / rename of a disk found by UUID '
                       '(expected file = model encoding of the model-decoded old file with the map UUIDs replaced in Python; the lookup by UUID itself IS in decode), '
                       'state_read choosing among content copies (missing first copy, missing / shorter / longer other copy -> every copy rewritten), '
                       'the DELETED-hash history rule per command (sync: BLK hash or INVALID; sync -R: either; others: unchanged)',
                       'HAVE_MT_WRITE is not defined in config.h: the single-stream writer (sopen_multi_write) is the compiled one; both variants call the same '
                       'state_write_thread',
                       'not reached, by design: fatal / os_abort branches of the loader (counters are lost on abort), opt.match_first_uuid, the removal of maps '
                       'without disk in state_map (unreachable after the M record check), --test-skip-content-write (nothing is saved)']
    if regen_msgs:
        chk.notes.append('translator: ' + '; '.join(regen_msgs))
    fe = getattr(ctx, 'finding_example', None) or getattr(ctx, 'finding_example_b', None)
    if fe is not None:
        chk.violation('F-C10a', 'rewriting a content file saved with the clock (%s) behind one of its info times does not reproduce it byte for byte: the two '
                      'files differ at byte %s (info record); decoded states equal, the next rewrite is a fixpoint, the model predicts both files '
                      '(C10_rewrite_reproduces_refuted); seen %d times in this run' % (fe.get('clock'), fe.get('first_difference_at_byte'),
                                                                                     st['backward_clock_rewrite_changes_bytes']),
                      fe, finding_key='F-C10a-rewrite-not-identical-clock-behind')
    if st['backward_clock_rewrite_changes_bytes']:
        chk.notes.append('FINDING (C10_rewrite_reproduces_refuted) replayed on the binary %d times: a content file saved with the clock behind one of '
                         'its info times is not reproduced byte for byte by test-rewrite at the same clock (the model predicts the new bytes; '
                         'the second rewrite is a fixpoint; the decoded state is unchanged)' % st['backward_clock_rewrite_changes_bytes'])
    return chk.finish()
