"""C11 -- a successful sync captures every change and converges.

Per history (one tiny real array, one scan order, with/without usable inodes, sequential or threaded scan):
  random file-system operations, then  diff / sync / diff / list / check  judged by the harness's own walk of the
  data disks (ground truth) and by the independent content decoder + parity checker of C06; the scan model
  (coq/Scan/ScanModel.v, extracted) predicts, from the old content and the directory listing the harness observed,
  the seven counters, the diff verdict and the complete post-scan content (states, positions, past hashes), which is
  compared with the content file left by a real sync killed before its first parity write; the model's
  scan + SyncModel.sync_loop then predicts the content after the real sync."""
import os, sys, json, shutil, random
from common import *
from arraylib import *
from c11_lib import *
import c11_model

DIRS = ['', '', 'da/', 'db/', 'da/in/']
BASES = ['a', 'b', 'c', 'x.y', 'e']


def rpath(rng):
    return rng.choice(DIRS) + rng.choice(BASES)


def gen_op(rng, w, first, hardlinks):
    """one operation chosen with knowledge of the present tree (so that it usually applies)"""
    nd = w.arr.nd
    T = w.truth()
    d = 'd%d' % rng.randint(1, nd)
    have = sorted(T[d]['files'])
    ex = (lambda: rng.choice(have)) if have else (lambda: rpath(rng))
    k = rng.random()
    if w.filters and rng.random() < 0.25:
        # names the configuration excludes (or that the tool ignores): they must never show up in diff, list or the content
        if d == 'd1' and rng.random() < 0.4:
            # siblings of the content file kept on this disk: they are ordinary entries (only the file, its .tmp and its .lock are skipped)
            n = rng.choice(['snapraid.content.bak', 'snapraid.content.tmp.bak', 'snapraid.content.locked-2026', 'snapraid.content2', 'snapraid.content.d/in', 'da/snapraid.content'])
            j = rng.random()
            if j < 0.6:
                return ['create', d, n, rng.choice(SIZES)]
            if j < 0.75:
                return ['symlink', d, 'snapraid.content.lnk', rng.choice(['a', 'snapraid.content'])]
            if j < 0.85:
                return ['mkdir', d, 'snapraid.content.e']
            return ['delete', d, rng.choice([n, 'snapraid.content.lnk', 'snapraid.content.e'])]
        n = rng.choice(['.hid', 'x.tmp', 'da/y.tmp', 'exdir/a', 'da/.h2', 'exdir/in/b', 'da/exdir/c', 'em2/z.tmp'])
        j = rng.random()
        if j < 0.5:
            return ['create', d, n, rng.choice(SIZES)]
        if j < 0.65:
            return ['symlink', d, rng.choice(['l.tmp', '.hl', 'exdir/l']), 'a']
        if j < 0.85:
            return ['fifo', d, rng.choice(['pipe', 'em3/pipe', 'da/pipe'])]
        return ['delete', d, n]
    if first or not have or k < 0.16:
        return ['create', d, rpath(rng), rng.choice(SIZES)]
    if k < 0.21:
        return ['recreate', d, ex(), rng.choice(SIZES)]
    if k < 0.25:
        return ['reuse', d, ex(), rpath(rng), rng.choice(SIZES)]
    if k < 0.32:
        return ['rewrite', d, ex()]
    if k < 0.37:
        return ['append', d, ex(), rng.choice([1, 100, 1024, 2000])]
    if k < 0.42:
        return ['truncate', d, ex(), rng.choice([0, 1, 1024, 1500])]
    if k < 0.50:
        return ['delete', d, ex() if rng.random() < 0.65 else rng.choice(sorted(T[d]['links']) + sorted(T[d]['dirs']) + [rpath(rng)])]
    if k < 0.60:
        return ['rename', d, ex(), rpath(rng)]
    if k < 0.64:
        if rng.random() < 0.35 and len(have) > 1:
            # exchange inode numbers; among files of equal size and time-stamp only while the recorded inodes are not usable
            # (with usable inodes the tool rightly takes inode + size + time-stamp as identity)
            # ... and are certain not to become usable again before they are saved anew (recorded UUID empty: the next reported UUID is a change)
            stc = w.content()
            safe = not w.inodes_usable(stc, d) and (stc is None or all(m['uuid'] == b'' for m in stc['maps'] if m['name'] == d))
            pairs = [(x, y) for x in have for y in have if x < y and T[d]['files'][x][3] == 1 and T[d]['files'][y][3] == 1 and
                     (safe or T[d]['files'][x][:2] != T[d]['files'][y][:2])]
            same = [(x, y) for (x, y) in pairs if T[d]['files'][x][:2] == T[d]['files'][y][:2]]
            if pairs:
                return ['inoswap', d] + list(rng.choice(same or pairs))
        return ['swap', d, ex(), ex()]
    if k < 0.71:
        return ['move', d, ex(), 'd%d' % rng.randint(1, nd), rpath(rng)]
    if k < 0.77:
        p = ex()
        # cp -p: same path on another disk (path match) or same base name elsewhere (name match)
        q = p if rng.random() < 0.6 else rng.choice(DIRS) + p.rsplit('/', 1)[-1]
        return ['copy', d, p, 'd%d' % rng.randint(1, nd), q]
    if k < 0.795:
        return ['samesec', d, ex(), rng.choice(['touch', 'rewrite'])]
    if k < 0.815:
        return ['touch', d, ex()]
    if k < 0.84:
        return ['resize_keepm', d, ex(), rng.choice([1, 700, 1024, 3000])]
    if k < 0.86:
        return ['restore', d, ex()]
    if k < 0.885:
        return ['samestamp', d, ex(), d if rng.random() < 0.5 else 'd%d' % rng.randint(1, nd), rng.choice(DIRS) + rng.choice(['zz', 'yy.q'])]
    if k < 0.91:
        return ['symlink', d, rng.choice(DIRS) + rng.choice(['a', 'ln', 'lm']), rng.choice(['a', '../b', 'nowhere', 'da'])]
    if k < 0.935 and hardlinks:
        if rng.random() < 0.4:
            c = [l for l in sorted(T[d]['links'])] + [f for f in have if T[d]['files'][f][3] > 1]
            if c:
                return ['linkkind', d, rng.choice(c)]
        return ['hardlink', d, ex(), rpath(rng)]
    if k < 0.96:
        return ['mkdir', d, rng.choice(['da/in', 'db', 'em', 'a', 'da/ee/f'])]
    if k < 0.98:
        return ['file2dir', d, ex(), rng.choice(BASES), rng.choice(SIZES)]
    return ['dir2file', d, rng.choice(['da', 'db', 'da/in', 'a', 'em']), rng.choice(SIZES)]


def apply_ops(rng, w, first, hardlinks):
    n = rng.randint(4, 7) if first else (0 if rng.random() < 0.12 else rng.randint(1, 5))
    ops = []
    for _ in range(n):
        o = gen_op(rng, w, first, hardlinks)
        if w.op(o):
            ops.append(o)
    return ops


def view(w, T, lst):
    """what a scan records for the tree T: per disk files {sub: (size, mtime_ns, ino)} and links {sub: (kind, target)}; of
    several names of one inode the first one met by the scan is the file, the others are hard links to it"""
    v = {}
    for di, d in enumerate(w.arr.disks):
        files, links = {}, {}
        first = {}
        for e in lst[di]:
            if e[0] == 'f':
                sub = e[1].decode('latin1')
                size, mt, ino, nl = T[d]['files'][sub]
                if ino in first:
                    links[sub] = ('hardlink', first[ino])
                else:
                    first[ino] = sub
                    files[sub] = (size, mt, ino)
        for sub, to in T[d]['links'].items():
            links[sub] = ('symlink', to)
        v[d] = (files, links)
    return v


def tree_differs(w, vnow, vold, st0):
    """the harness's own comparison: was a file or link added, removed or changed since the recorded state?"""
    why = []
    for d in w.arr.disks:
        fn, ln = vnow[d]
        fo, lo = vold[d] if vold else ({}, {})
        usable = w.inodes_usable(st0, d)
        for s in fn:
            if s not in fo:
                why.append('%s:%s added' % (d, s))
            elif fn[s][:2] != fo[s][:2]:
                why.append('%s:%s changed' % (d, s))
            elif usable and fn[s][2] != fo[s][2]:
                why.append('%s:%s rewritten (new inode)' % (d, s))
        for s in fo:
            if s not in fn:
                why.append('%s:%s removed' % (d, s))
        if ln != lo:
            why.append('%s: links differ' % d)
    return why


def incomplete(st):
    """parity_is_invalid: a stripe below the allocated size with a file block and a block whose parity is not valid"""
    if st is None:
        return False
    byp = {}
    for d, dd in st['disks'].items():
        for f in dd['files']:
            for (s, pos, h) in f['blocks']:
                e = byp.setdefault(pos, [False, False])
                e[0] = True
                if s != 'BLK':
                    e[1] = True
        for pos in dd['deleted']:
            byp.setdefault(pos, [False, False])[1] = True
    return any(a and b for a, b in byp.values())


class Hist:
    def __init__(self, chk, binary, shim, model, rng, cfg):
        self.chk, self.rng, self.cfg = chk, rng, cfg
        self.w = World(binary, shim, rng, nd=cfg['nd'], np_=cfg['np'], order=cfg['order'], fake_uuid=cfg['uuid'], multi=cfg['multi'], where=cfg['where'], filters=cfg.get('filters', False), murmur=cfg.get('murmur', False), splits=cfg.get('splits', 1), ncontent=cfg.get('ncontent', 1))
        self.model = None if cfg['multi'] else model     # the model scans the disks one after the other: threaded histories are judged by the oracles only
        self.recorded = None        # view() of the tree at the last sync (what the array is supposed to know)
        self.ncmd = 0
        self.nmodel = 0
        self.counts = {}
        self.pending_drift = None
        self.stats = {'diff2': 0, 'diff0': 0, 'inode_reuse': 0, 'steps': 0, 'partial': 0, 'invisible': 0}
        self.seen_inodes = {}

    def bad(self, tag, what, **kw):
        self.chk.violation(tag, what, {'config': self.cfg, 'history': self.w.log, **kw})

    def drift(self, tag, what, **kw):
        self.chk.violation(tag, 'MODEL-DRIFT: ' + what, {'config': self.cfg, 'history': self.w.log, **kw}, no_input=True)

    # ----------------------------------------------------------------------------------------------
    def step(self, ops, partial=False, invisible=False, popts=None, fixpoint=False):
        w, a = self.w, self.w.arr
        plan = self.cfg.get('uuid_plan')
        if plan:
            # the UUID the disks report changes between the commands of one history: none -> a UUID, a UUID -> none
            w.fake_uuid = plan[self.stats['steps'] % len(plan)]
        if ops is None:
            ops = apply_ops(self.rng, w, self.stats['steps'] == 0, self.cfg['order'] == 'alpha')
        else:
            for o in ops:
                w.op(o)
        self.stats['steps'] += 1
        w.sync_store()
        st0 = w.content()
        T = w.truth()
        lst = w.listing()
        vnow = view(w, T, lst)
        # inode reuse statistics (an inode seen earlier under another identity)
        for d in a.disks:
            for s, (size, mt, ino, nl) in T[d]['files'].items():
                k = (d, ino)
                if k in self.seen_inodes and self.seen_inodes[k] != (s, mt) and self.seen_inodes[k][1] < mt and self.seen_inodes[k][0] != s:
                    self.stats['inode_reuse'] += 1
                self.seen_inodes[k] = (s, mt)
        why = tree_differs(w, vnow, self.recorded, st0)
        inc = incomplete(st0)
        exp = 2 if (why or inc) else 0
        # ---- diff before the sync: verdict against the harness's own comparison
        pred = None
        if self.model:
            pred = c11_model.predict_scan(self, st0, lst, clear_past=False)
        r = w.run('diff'); self.ncmd += 1
        if r.rc != exp:
            self.bad('diff_verdict', 'diff exits %d, but the harness\'s comparison of the tree with the recorded state says %s (%s)'
                     % (r.rc, 'DIFFERENT' if exp else 'equal', '; '.join(why[:4]) or ('incomplete previous sync' if inc else 'nothing changed')),
                     rc=r.rc, expected=exp, why=why, incomplete=inc, out=r.out[-600:])
            return False
        self.stats['diff2' if exp else 'diff0'] += 1
        cnt = counters(r)
        if pred is not None and cnt is not None:
            self.nmodel += 1
            if pred['counters'] != cnt or pred['rc'] != r.rc:
                # reported (as MODEL-DRIFT) only if the real run goes on to satisfy every oracle of this step
                c11_model.note_drift(self, 'drift_diff', 'the scan model predicts counters %s exit %s, the real diff reports %s exit %d' % (pred['counters'], pred['rc'], cnt, r.rc),
                                     model=pred['counters'], real=cnt, request=pred['request'][:6000])
            for k, v in cnt.items():
                self.counts[k] = self.counts.get(k, 0) + v
        if self.cfg.get('gui') and cnt is not None:
            # -G: one scan:equal tag per unchanged entry (the other scan: tags are always logged): judged against the walk
            rg = w.run('diff', '-G'); self.ncmd += 1
            eq = [t for t in rg.tags if t.startswith('scan:equal:')]
            old = self.recorded or {}
            want = set()
            for d in a.disks:
                fo, lo = old.get(d, ({}, {}))
                usable = w.inodes_usable(st0, d)
                for s_, v in vnow[d][0].items():
                    if s_ in fo and fo[s_][:2] == v[:2] and (not usable or fo[s_][2] == v[2]):
                        want.add('scan:equal:%s:%s' % (d, s_))
                for s_, v in vnow[d][1].items():
                    if lo.get(s_) == v:
                        want.add('scan:equal:%s:%s' % (d, s_))
            self.stats['gui_equal_tags'] = self.stats.get('gui_equal_tags', 0) + len(eq)
            if rg.rc != r.rc or (not w.multi and counters(rg) != cnt) or (not any(o[0] in ('swap', 'rename', 'linkkind', 'hardlink') for o in ops) and not w.multi and set(eq) != want) or len(eq) != counters(rg)['equal']:
                self.bad('gui_equal', 'diff -G (exit %d, %s) logs scan:equal for %s, the walk says unchanged: %s' % (rg.rc, counters(rg), sorted(eq)[:6], sorted(want)[:6]))
                return False
        if self.cfg['both_scans']:
            r2 = w.run('diff', multi=not w.multi); self.ncmd += 1
            c2 = counters(r2)

            def merged(c):
                # whether a new file is reported `copied` or `added` depends, under threads, on whether the scan of the OTHER disk has
                # already dropped the record the copy would be taken from (observed: 13/7 of 20 runs on one tree): the two are one class
                return dict({k: v for k, v in c.items() if k not in ('copied', 'added')}, new=c['copied'] + c['added'])
            if c2 != cnt and merged(c2) == merged(cnt):
                self.stats['thread_copy_race_observed'] = self.stats.get('thread_copy_race_observed', 0) + 1
            if r2.rc != r.rc or (self.cfg['order'] == 'alpha' and merged(c2) != merged(cnt) and not any(o[0] in ('copy', 'move') for o in ops)):
                self.bad('diff_threads', 'diff gives a different verdict with threaded and with sequential scanning: %d %s vs %d %s' % (r.rc, cnt, r2.rc, c2))
                return False
        # ---- the sync, with the model predicting the post-scan state and the final state
        sopts = (popts or ['-B', str(self.rng.randint(1, 3))]) if partial else []
        if self.model:
            ok = c11_model.sync_with_model(self, st0, lst, sopts)
            if ok is False:
                return False
            r = ok
        else:
            r = w.run('sync', *sopts); self.ncmd += 1
        if r.rc != 0:
            errs = r.tag('error:')
            if errs and all('Unexpected data change' in t for t in errs):
                # copy detection met a file with the name, size and time-stamp of another file's (old) version but other bytes:
                # the refusal is what C19 demands; the documented way out must work and then everything else is judged as usual
                self.stats['decoy_refusals'] = self.stats.get('decoy_refusals', 0) + 1
                self.pending_drift = None
                r = w.run('sync', '-N'); self.ncmd += 1
                partial = False
            if r.rc != 0:
                self.bad('sync_fails', 'sync fails (exit %d) after ordinary file-system changes: %s' % (r.rc, (r.tag('error:')[:2] or (r.err or r.out)[-300:])), out=r.out[-800:], err=r.err[-800:])
                return False
        st2 = w.content()
        errs = a.check_map(st2)
        perr, n = a.check_parity(st2)
        for e in (errs + perr)[:2]:
            self.bad('c06_oracle', 'after a successful sync: %s' % e)
            return False
        for i in range(1, len(a.content_files)):
            sti = a.content(i)
            if sti['disks'] != st2['disks'] or sti['info'] != st2['info']:
                self.bad('content_copies', 'after a successful sync the content copies %d and 0 record different arrays' % i)
                return False
        def recorded_part(st, ref):
            # inode numbers of a disk whose recorded inodes are not usable are kept in memory only and saved by the way: not compared
            return {d: dict(dd, files=[dict(f, inode=(f['inode'] if w.inodes_usable(ref, d) else 0)) for f in dd['files']]) for d, dd in st['disks'].items()}
        if fixpoint and exp == 0 and st0 is not None and (recorded_part(st2, st0) != recorded_part(st0, st0) or st2['blockmax'] != st0['blockmax']):
            self.bad('not_a_fixpoint', 'a sync with nothing to do (diff exit 0) changed what the content file records')
            return False
        w.learn_hashes(st2)
        inc2 = incomplete(st2)
        nonblk = [(d, f['sub']) for d, dd in st2['disks'].items() for f in dd['files'] for b in f['blocks'] if b[0] != 'BLK']
        if partial:
            self.stats['partial'] += 1
        elif nonblk or any(dd['deleted'] for dd in st2['disks'].values()):
            self.bad('not_converged', 'a complete successful sync leaves blocks that are not synced: %s' % nonblk[:3])
            return False
        self.recorded = vnow
        # ---- diff after the sync
        r = w.run('diff'); self.ncmd += 1
        cnt = counters(r)
        exp2 = 2 if inc2 else 0
        if r.rc != exp2 or any(v for k, v in cnt.items() if k != 'equal'):
            self.bad('diff_after_sync', 'diff after a successful sync exits %d (expected %d) with counters %s' % (r.rc, exp2, cnt), out=r.out[-500:])
            return False
        nent = sum(len(v[0]) + len(v[1]) for v in vnow.values())
        if cnt['equal'] != nent:
            self.bad('diff_equal_count', 'diff after sync counts %d equal entries, the tree has %d files and links' % (cnt['equal'], nent))
            return False
        # ---- list against the walk
        r = w.run('list', *(['-v'] if self.cfg.get('gui') else [])); self.ncmd += 1
        lf, ll = list_tags(r)
        ef = {(d, s): (v[0], v[1] // 10**9, v[1] % 10**9) for d in a.disks for s, v in vnow[d][0].items()}
        el = {(d, s): v for d in a.disks for s, v in vnow[d][1].items()}
        if r.rc != 0 or lf != ef or ll != el:
            miss = sorted(set(ef.items()) ^ set(lf.items()))[:3] + sorted(set(el.items()) ^ set(ll.items()))[:3]
            self.bad('list_tree', 'list (exit %d) does not report exactly the files and links present with their sizes, time-stamps and targets; differing entries: %s' % (r.rc, miss),
                     listed_files=sorted(map(str, lf.items())), tree_files=sorted(map(str, ef.items())), listed_links=sorted(map(str, ll.items())), tree_links=sorted(map(str, el.items())))
            return False
        # empty directories: `list` does not print them (list.c has no directory loop); judge them on the content file
        for d in a.disks:
            got = set(x.decode('latin1') for x in st2['disks'].get(d, {'dirs': []})['dirs'])
            if got != T[d]['dirs']:
                self.bad('dirs_tree', 'the empty directories recorded for %s after sync are %s, the tree has %s' % (d, sorted(got), sorted(T[d]['dirs'])))
                return False
        # ---- check
        if not inc2:
            r = w.run('check'); self.ncmd += 1
            if r.rc != 0 or r.tag('error:') or r.tag('parity_error:'):
                self.bad('check_errors', 'check after a successful sync exits %d: %s' % (r.rc, (r.tag('error:') + r.tag('parity_error:') + [r.err[-200:]])[:3]))
                return False
            if invisible:
                return self.invisible_probe(st2, vnow)
        return True

    def step_killed(self, ops):
        """changes, then a sync that dies before its first parity write (the content file holds the post-scan state): only the
        map/parity oracles are applied; the next step sees an incomplete sync"""
        w, a = self.w, self.w.arr
        for o in ops:
            w.op(o)
        w.sync_store()
        r = w.run('sync', shim_env={'VSHIM_KILL_ON': 'pwrite:.parity:1:before'}); self.ncmd += 1
        st = w.content()
        if st is not None:
            for e in (a.check_map(st) + a.check_parity(st)[0])[:1]:
                self.bad('c06_oracle', 'after a sync killed before its first parity write: %s' % e)
                return False
        return True

    def step_during(self, ops, victim, action, prehash=False):
        """a file changes AFTER the scan and BEFORE the sync loop reads it (--test-run runs a command between the two): the sync
        must notice (attributes are checked again when the file is opened), count an error, fail, and leave the file's stripes
        unsynced; the next diff exits 2 and the next sync converges"""
        w, a = self.w, self.w.arr
        for o in ops:
            w.op(o)
        w.sync_store()
        d, sub = victim
        q = w.p(d, sub)
        script = os.path.join(a.root, 'during.sh')
        cmd = {'touch': 'touch -d "2031-01-01 00:00:00.5" %s' % q, 'rm': 'rm -f %s' % q, 'append': 'echo more >> %s' % q, 'replace': 'cp -p %s %s.n && mv %s.n %s' % (q, q, q, q)}[action]
        open(script, 'w').write('#!/bin/sh\n%s\n' % cmd)
        st0, lst = w.content(), w.listing()
        ro = ['--test-run', 'sh ' + script]
        if self.model:
            r = c11_model.sync_with_model(self, st0, lst, [], prehash=prehash, nokill=True, fs_after=True, real_opts=ro)
            if r is False:
                return False
        else:
            r = w.run('sync', *((['-h'] if prehash else []) + ro)); self.ncmd += 1
        w.log.append(['during-sync', action, d, sub])
        self.stats['changed_during_sync'] = self.stats.get('changed_during_sync', 0) + 1
        if os.path.isfile(q):
            a.note_version(d, sub)
        st = w.content()
        tags = [t for t in r.tag('error:') if ':%s:%s:' % (d, sub) in t]
        f = next((f for f in st['disks'][d]['files'] if f['sub'].decode('latin1') == sub), None)
        f0 = next((x for x in (st0['disks'].get(d, {'files': []})['files'] if st0 else []) if x['sub'].decode('latin1') == sub), None)
        same = f0 is not None and f is not None and (f0['size'], f0['sec'], f0['nsec']) == (f['size'], f['sec'], f['nsec'])
        newblk = f is not None and any(b[0] == 'BLK' and not (same and i < len(f0['blocks']) and f0['blocks'][i] == b) for i, b in enumerate(f['blocks']))
        if r.rc == 0 or not tags or f is None or newblk:
            self.bad('changed_during_sync', '%s:%s was changed (%s) between the scan and the sync loop: sync exits %d, error tags %s, recorded blocks %s'
                     % (d, sub, action, r.rc, tags[:2], f and [b[0] for b in f['blocks']]))
            return False
        for e in (a.check_map(st) + a.check_parity(st)[0])[:1]:
            self.bad('c06_oracle', 'after a sync during which a file changed: %s' % e)
            return False
        r = w.run('diff'); self.ncmd += 1
        if r.rc != 2:
            self.bad('diff_verdict', 'diff exits %d after a sync that failed on a file changed under it' % r.rc)
            return False
        return True

    def invisible_probe(self, st2, vnow):
        """a same-size rewrite in place with the time-stamp put back: by the property's own words only files whose size or
        time-stamp changed are read again, so diff must say `equal`, sync must not touch anything -- and check then finds
        the data error (C04's subject).  The file is healed (new time-stamp) afterwards."""
        w, a = self.w, self.w.arr
        T = w.truth()
        c = [(d, s) for d in a.disks for s, v in vnow[d][0].items() if v[0] > 0 and T[d]['files'][s][3] == 1]
        if not c:
            return True
        d, s = self.rng.choice(sorted(c))
        q = w.p(d, s)
        st = os.stat(q)
        old = open(q, 'rb').read()
        new = bytes([old[0] ^ 0x5A]) + old[1:]
        with open(q, 'r+b') as f:
            f.write(new)
        os.utime(q, ns=(st.st_atime_ns, st.st_mtime_ns))
        w.log.append(['invisible-rewrite', d, s])
        self.stats['invisible'] += 1
        before = w.content()
        r = w.run('diff'); self.ncmd += 1
        if r.rc != 0:
            self.bad('invisible_diff', 'diff exits %d after a same-size rewrite in place with restored time-stamp (size, time-stamp and inode unchanged)' % r.rc)
            return False
        r = w.run('sync'); self.ncmd += 1
        after = w.content()
        if r.rc != 0 or after['disks'] != before['disks'] or after['info'] != before['info'] or after['blockmax'] != before['blockmax']:
            self.bad('invisible_sync', 'sync (exit %d) changed the content file although no size, time-stamp or inode changed' % r.rc)
            return False
        r = w.run('check'); self.ncmd += 1
        tags = [t for t in r.tag('error:') if (':%s:%s:' % (d, s)) in t]
        if r.rc == 0 or not tags:
            self.bad('invisible_check', 'check does not report the silently rewritten block of %s:%s (exit %d)' % (d, s, r.rc))
            return False
        w.write(d, s, new)           # heal: the new bytes with a new time-stamp
        w.log.append(['heal', d, s])
        return True

    def run(self, nsteps):
        for i in range(nsteps):
            ops = None
            last = i == nsteps - 1
            partial = (not last) and self.rng.random() < 0.15
            invisible = (not partial) and self.rng.random() < 0.2
            if not self.step(ops, partial=partial, invisible=invisible):
                break
            if self.model and c11_model.flush_drift(self):      # the real run satisfied every oracle: a disagreement is MODEL-DRIFT
                break
            if len(self.chk.violations) > 4:
                break


def scripted(chk, binary, shim, model, rng, tier):
    """fixed recipes with randomised parameters, run before the generated histories:
    (a) a copy-detected file, an incomplete sync (-B / -S -B / killed), the copy touched (same bytes, re-allocated at the same
        positions), a full sync: the parity oracle and `check` judge whether the parity really holds the copy;
    (b) a symlink replaced by a hard link of the same name whose recorded target text is the same, and back"""
    out = []
    nvar = 4 if tier == 'quick' else 16
    for v in range(nvar):
        size = rng.choice([3072, 4100, 5000, 2500])
        how = ['B2', 'filler_B1', 'S1B1', 'kill'][v % 4]
        cfg = {'nd': 2, 'np': rng.choice([1, 2]), 'order': 'alpha', 'uuid': v % 2 == 0, 'multi': False, 'where': 'tmpfs', 'both_scans': False,
               'seed': rng.getrandbits(32), 'scripted': 'copy_partial_touch/' + how}
        H = Hist(chk, binary, shim, model, random.Random(cfg['seed']), cfg)
        try:
            first = [['create', 'd1', 'X', size], ['create', 'd1', 'other', 1500]]
            if how == 'filler_B1':
                first.append(['create', 'd2', 'filler', 2048])
            ok = H.step(first)
            if ok and how == 'kill':
                ok = H.step_killed([['copy', 'd1', 'X', 'd2', 'X']])
            elif ok:
                ok = H.step([['copy', 'd1', 'X', 'd2', 'X']], partial=True, popts={'B2': ['-B', '2'], 'filler_B1': ['-B', '1'], 'S1B1': ['-S', '1', '-B', '1']}[how])
            ok = ok and H.step([['touch', 'd2', 'X']])
            ok = ok and H.step([['rewrite', 'd1', 'other']])
            if ok and model:
                c11_model.flush_drift(H)
        finally:
            shutil.rmtree(H.w.arr.root, ignore_errors=True)
        out.append(H)
    for v in range(max(2, nvar // 2)):
        # (f) a sync whose ONLY change is a file restored under its name with the same size and time-stamp but a new inode (usable inodes);
        #     split parity: the content file then stores the parity sizes and is rewritten only when something changed
        cfg = {'nd': 3, 'np': 1, 'order': ['alpha', 'inode', 'dir', 'physical'][v % 4], 'uuid': True, 'multi': False, 'where': 'tmpfs', 'both_scans': False,
               'seed': rng.getrandbits(32), 'scripted': 'restore_only', 'splits': 2, 'gui': v % 2 == 1}
        H = Hist(chk, binary, shim, model, random.Random(cfg['seed']), cfg)
        try:
            ok = H.step([['create', 'd1', 'm', rng.choice([1, 2048, 3000])], ['create', 'd1', 'k', 1024], ['create', 'd2', 'c', 2500], ['create', 'd3', 'e', 10]])
            ok = ok and H.step([['create', 'd3', 'filler', 5]])        # the fake UUIDs are recorded now: inodes usable
            ok = ok and H.step([['restore', 'd1', 'm']])
            ok = ok and H.step([['restore', 'd2', 'c'], ['restore', 'd1', 'k']])
            ok = ok and H.step([])
            if ok and model:
                c11_model.flush_drift(H)
        finally:
            shutil.rmtree(H.w.arr.root, ignore_errors=True)
        out.append(H)
    for v in range(4 if tier == 'quick' else 12):
        # (h) the UUID reported by the disks changes between two commands (none -> one, one -> none, and back) while files of equal size and
        #     time-stamp exchange their inode numbers (names and bytes stay): nothing changed, nothing may be taken as moved; check stays quiet
        plan = [[False, True, True, False], [True, True, False, False], [False, True, False, True], [True, False, True, True]][v % 4]
        cfg = {'nd': 2, 'np': 1 + v % 2, 'order': ['alpha', 'inode', 'dir', 'physical'][(v // 4) % 4 if v >= 4 else 0], 'uuid': plan[0], 'multi': False, 'where': 'tmpfs',
               'both_scans': False, 'seed': rng.getrandbits(32), 'scripted': 'uuid_transition', 'uuid_plan': plan, 'ncontent': 1 + (v // 2) % 2, 'splits': 1 + v % 3}
        H = Hist(chk, binary, shim, model, random.Random(cfg['seed']), cfg)
        try:
            ok = H.step([['create', 'd1', 'X', 3000], ['samestamp', 'd1', 'X', 'd1', 'Y'], ['samestamp', 'd1', 'X', 'd1', 'da/Z'], ['create', 'd1', 'w', 100], ['create', 'd2', 'other', 2048]])
            for t in range(1, 4):
                swap = [['inoswap', 'd1', 'X', 'Y']] if t % 2 else [['inoswap', 'd1', 'Y', 'da/Z'], ['inoswap', 'd1', 'X', 'w']]
                # the exchange among same-stamp files only when this step's commands cannot use the recorded inodes
                H.w.fake_uuid = plan[t]
                stc = H.w.content()
                usable = H.w.inodes_usable(stc, 'd1')
                rec_empty = stc is None or all(m['uuid'] == b'' for m in stc['maps'] if m['name'] == 'd1')
                # recorded UUID non-empty but not reported now: the recorded inodes come back into use when it is reported again, so the
                # exchanged ones must be saved by this sync: something else changes too (a sync with nothing to do does not save)
                force = [] if (usable or rec_empty) else [['create', 'd1', 'forcesave%d' % t, 5]]
                ok = ok and H.step(([['inoswap', 'd1', 'X', 'w']] if usable else swap) + force + ([['create', 'd2', 'n%d' % t, 10]] if t == 2 else []), fixpoint=True)
            if ok and model:
                c11_model.flush_drift(H)
        finally:
            shutil.rmtree(H.w.arr.root, ignore_errors=True)
        out.append(H)
    for v in range(3 if tier == 'quick' else 9):
        # (i) syncs in which ONE single kind of thing changed, each followed by a sync with nothing to do (a fixed point), over geometries in
        #     which the content file is saved only when something asks for it (split parity: the parity sizes are stored) and several content copies
        geo = [{'splits': 2, 'ncontent': 2, 'np': 1}, {'splits': 3, 'ncontent': 1, 'np': 2}, {'splits': 1, 'ncontent': 3, 'np': 1}][v % 3]
        cfg = {'nd': 2 + (v // 3) % 2, 'order': ['alpha', 'dir', 'inode'][(v // 3) % 3], 'uuid': True, 'multi': False, 'where': 'tmpfs', 'both_scans': False,
               'seed': rng.getrandbits(32), 'scripted': 'only_one_change', 'gui': v % 2 == 0, **geo}
        H = Hist(chk, binary, shim, model, random.Random(cfg['seed']), cfg)
        try:
            ok = H.step([['create', 'd1', 'a', 2500], ['create', 'd1', 'e0', 0], ['create', 'd2', 'b', 1024], ['symlink', 'd1', 'l', 'a'], ['mkdir', 'd2', 'emp'], ['create', 'd2', 'db/e1', 0]])
            ok = ok and H.step([['create', 'd2', 'filler', 3]])          # the fake UUIDs are recorded: inodes usable from here on
            kinds = [[['create', 'd1', 'marker.lock', 0], ['create', 'd2', 'newdir/keep', 0]],        # only new empty files
                     [['mkdir', 'd1', 'newemp'], ['mkdir', 'd2', 'x/y/z']],                         # only new empty directories
                     [['symlink', 'd2', 'nl', 'nowhere']],                                            # only a new link
                     [['delete', 'd1', 'e0']],                                                        # only an empty file removed
                     [['restore', 'd1', 'a']],                                                        # only an inode changed
                     [['samesec', 'd2', 'b', 'touch']],                                               # only the nanoseconds of a time-stamp
                     [['touch', 'd2', 'db/e1']],                                                      # only the time-stamp of an empty file
                     [['symlink', 'd1', 'l', 'b']],                                                   # only a link target
                     [['delete', 'd2', 'emp']],                                                       # only an empty directory removed
                     [['delete', 'd2', 'nl']],                                                        # only a link removed
                     [['rename', 'd2', 'newdir/keep', 'newdir/kept']],                                # only an empty file renamed
                     [['create', 'd1', 'one', 1]]]                                                    # only one new one-byte file
            if cfg['order'] == 'alpha':
                kinds.append([['hardlink', 'd1', 'a', 'zhard']])                                      # only a second name of an inode
            first3, rest = kinds[:3], kinds[3:]         # the removals and the rename need what the first three create
            H.rng.shuffle(first3); H.rng.shuffle(rest)
            kinds = first3 + rest
            for kops in kinds:
                ok = ok and H.step(kops)
                ok = ok and H.step([], fixpoint=True)
            if ok and model:
                c11_model.flush_drift(H)
        finally:
            shutil.rmtree(H.w.arr.root, ignore_errors=True)
        out.append(H)
    for v in range(2):
        # (g) a data disk that holds no regular file at all, only links and empty directories (from the start, or after its files left)
        cfg = {'nd': 3, 'np': 1, 'order': ['alpha', 'dir'][v], 'uuid': v == 0, 'multi': False, 'where': 'tmpfs', 'both_scans': False,
               'seed': rng.getrandbits(32), 'scripted': 'links_only_disk', 'gui': v == 1}
        H = Hist(chk, binary, shim, model, random.Random(cfg['seed']), cfg)
        try:
            first = [['create', 'd1', 'a', 2048], ['create', 'd2', 'b', 100], ['symlink', 'd3', 'lnk', 'nowhere'], ['mkdir', 'd3', 'skel/sub']]
            if v == 1:
                first.append(['create', 'd3', 'f', 1024])
            ok = H.step(first)
            ok = ok and H.step([['delete', 'd3', 'f']] if v == 1 else [['symlink', 'd3', 'l2', 'lnk']])
            ok = ok and H.step([['create', 'd1', 'c', 10]])
            ok = ok and H.step([['delete', 'd3', 'lnk'], ['mkdir', 'd3', 'e2']])
            if ok and model:
                c11_model.flush_drift(H)
        finally:
            shutil.rmtree(H.w.arr.root, ignore_errors=True)
        out.append(H)
    for v in range(nvar):
        # (e) a file changes between the scan and the sync loop
        action = ['touch', 'rm', 'append', 'replace'][v % 4]
        cfg = {'nd': 2, 'np': 1, 'order': 'alpha', 'uuid': v % 2 == 0, 'multi': False, 'where': 'tmpfs', 'both_scans': False,
               'seed': rng.getrandbits(32), 'scripted': 'changed_during_sync/' + action, 'murmur': True}
        H = Hist(chk, binary, shim, model, random.Random(cfg['seed']), cfg)
        try:
            ok = H.step([['create', 'd1', 'a', 3072], ['create', 'd1', 'b', 100], ['create', 'd2', 'c', 2048]])
            victim = ('d1', 'n1') if v % 3 else ('d1', 'a')
            ops = [['create', 'd1', 'n1', 2500], ['rewrite', 'd2', 'c']] + ([['rewrite', 'd1', 'a']] if victim[1] == 'a' and v % 2 else [])
            ok = ok and H.step_during(ops, victim, action, prehash=((v // 4) % 2 == 1) if nvar > 4 else (v % 2 == 1))
            ok = ok and H.step([])
            if ok and model:
                c11_model.flush_drift(H)
        finally:
            shutil.rmtree(H.w.arr.root, ignore_errors=True)
        out.append(H)
    for v in range(nvar):
        # (c) an incomplete sync whose remaining work is only removals (DELETED blocks under live blocks of another disk), then no change
        how = ['B1', 'S2B1', 'kill', 'B2'][v % 4]
        cfg = {'nd': 2, 'np': 1, 'order': 'alpha', 'uuid': v % 2 == 1, 'multi': False, 'where': 'tmpfs', 'both_scans': v % 2 == 0,
               'seed': rng.getrandbits(32), 'scripted': 'delete_partial/' + how, 'splits': 1 + (v // 2) % 2}
        H = Hist(chk, binary, shim, model, random.Random(cfg['seed']), cfg)
        try:
            ok = H.step([['create', 'd1', 'X', 5000], ['create', 'd2', 'Y', rng.choice([4100, 5000])], ['create', 'd2', 'keep', 10]])
            if ok and how == 'kill':
                ok = H.step_killed([['delete', 'd2', 'Y']])
            elif ok:
                ok = H.step([['delete', 'd2', 'Y']], partial=True, popts={'B1': ['-B', '1'], 'S2B1': ['-S', '2', '-B', '1'], 'B2': ['-B', '2']}[how])
            ok = ok and H.step([])
            if ok and model:
                c11_model.flush_drift(H)
        finally:
            shutil.rmtree(H.w.arr.root, ignore_errors=True)
        out.append(H)
    for v in range(max(2, nvar // 2)):
        # (d) links and empty directories that go away; a content file written before nanoseconds were recorded; excluded names
        cfg = {'nd': 2, 'np': 1, 'order': ['alpha', 'inode'][v % 2], 'uuid': v % 2 == 0, 'multi': False, 'where': 'tmpfs', 'both_scans': False,
               'seed': rng.getrandbits(32), 'scripted': 'removals+old_nsec+filters', 'gui': True, 'filters': True}
        H = Hist(chk, binary, shim, model, random.Random(cfg['seed']), cfg)
        try:
            w = H.w
            ok = H.step([['create', 'd1', 'a', 2500], ['create', 'd1', 'da/b', 1024], ['create', 'd2', 'c', 0], ['symlink', 'd1', 'l1', 'a'], ['symlink', 'd2', 'da/l2', 'nowhere'],
                         ['symlink', 'd1', 'keepl', 'da/b'], ['create', 'd1', 'e0', 0], ['mkdir', 'd1', 'em'], ['mkdir', 'd2', 'da/ee/f'], ['create', 'd1', 'x.tmp', 100], ['create', 'd1', '.hid', 10], ['create', 'd2', 'exdir/q', 10],
                         ['fifo', 'd2', 'em3/pipe'], ['create', 'd2', 'onlytmp/z.tmp', 5],
                         ['create', 'd1', 'snapraid.content.bak', 1500], ['create', 'd1', 'snapraid.content.tmp.bak', 10], ['create', 'd1', 'snapraid.content.locked-2026', 0],
                         ['create', 'd1', 'snapraid.content2', 1024], ['create', 'd1', 'snapraid.content.d/in', 100], ['symlink', 'd1', 'snapraid.content.lnk', 'a'], ['mkdir', 'd1', 'snapraid.content.e']] + ([['hardlink', 'd1', 'a', 'zh']] if cfg['order'] == 'alpha' else []))
            ok = ok and H.step([['delete', 'd1', 'l1'], ['delete', 'd1', 'em'], ['delete', 'd2', 'da/l2'], ['copy', 'd1', 'e0', 'd2', 'e0']] + ([['delete', 'd1', 'zh']] if cfg['order'] == 'alpha' else []))
            if ok:
                # the content file as an old version would have written it: no nanoseconds recorded; nothing changed on the disks
                data = open(w.arr.content_files[0], 'rb').read()
                new, nf = content_forget_nsec(data, (lambda sub: True) if v % 2 == 0 else (lambda sub: sub != b'a'))
                for cpath in [w.arr.content_files[0], os.path.join(w.arr.root, 'd1', 'snapraid.content')]:
                    open(cpath, 'wb').write(new)
                w.log.append(['content-without-nanoseconds', nf])
                H.stats['old_nsec_files'] = H.stats.get('old_nsec_files', 0) + nf
                ok = H.step([])
            ok = ok and H.step([['delete', 'd2', 'da/ee/f'], ['create', 'd2', 'exdir/q2', 3], ['delete', 'd1', 'snapraid.content.bak'], ['rewrite', 'd1', 'snapraid.content2'], ['delete', 'd1', 'snapraid.content.lnk']])
            if ok and model:
                c11_model.flush_drift(H)
        finally:
            shutil.rmtree(H.w.arr.root, ignore_errors=True)
        out.append(H)
    for v in range(nvar):
        sub = ['', 'da/'][v % 2]
        cfg = {'nd': 2, 'np': 1, 'order': 'alpha', 'uuid': (v // 2) % 2 == 0, 'multi': False, 'where': 'tmpfs', 'both_scans': False,
               'seed': rng.getrandbits(32), 'scripted': 'link_kind'}
        H = Hist(chk, binary, shim, model, random.Random(cfg['seed']), cfg)
        try:
            ok = H.step([['create', 'd1', sub + 'a', rng.choice([0, 1, 2048])], ['create', 'd2', 'x', 100], ['symlink', 'd1', sub + 'zl', sub + 'a']])
            for _ in range(3):
                ok = ok and H.step([['linkkind', 'd1', sub + 'zl']] + ([['create', 'd2', 'y', 10]] if rng.random() < 0.5 else []))
            if ok and model:
                c11_model.flush_drift(H)
        finally:
            shutil.rmtree(H.w.arr.root, ignore_errors=True)
        out.append(H)
    return out


def corpus_cases(chk, binary, shim, model):
    """corpus/C11/*.json: fixed cases run before the generated ones"""
    import glob
    n = 0
    for p in sorted(glob.glob(os.path.join(VERIF, 'corpus', 'C11', '*.json'))):
        case = json.load(open(p))
        if case.get('kind') != 'scan_past_refuted':
            continue
        n += 1
        cfg = {'nd': 1, 'np': 1, 'order': 'alpha', 'uuid': False, 'multi': False, 'where': 'tmpfs', 'both_scans': False, 'seed': 1, 'corpus': os.path.basename(p)}
        H = Hist(chk, binary, shim, model, random.Random(1), cfg)
        try:
            w, a = H.w, H.w.arr
            old, new = case['model']['old'], case['model']['new']
            w.write('d1', old['name'], w.rng.randbytes(old['size']))
            r = w.run('sync')
            st = w.content()
            hA = st['disks']['d1']['files'][0]['blocks'][0][2]
            os.unlink(w.p('d1', old['name'])); w.log.append(['delete', 'd1', old['name']])
            w.write('d1', new['name'], w.rng.randbytes(new['size']))
            st0, lst = w.content(), w.listing()
            r = c11_model.sync_with_model(H, st0, lst, []) if model else w.run('sync')
            post = (H.last_post if hasattr(H, 'last_post') else None)
            # the post-scan state as left by the killed run is compared with the model inside sync_with_model; look at it again here
            ok = r is not False and r.rc == 0
            st2 = w.content()
            fB = st2['disks']['d1']['files'][0]
            rc = w.run('check')
            if not ok or rc.rc != 0 or any(b[0] != 'BLK' for b in fB['blocks']):
                H.bad('corpus_' + case['name'], 'corpus case %s: sync exits %s, check exits %d, blocks %s' % (case['name'], r and r.rc, rc.rc, [b[0] for b in fB['blocks']]))
            else:
                pk = getattr(H, 'post_kill', None)
                same = bool(pk) and pk['disks']['d1']['files'][0]['blocks'][0][0] == 'CHG' and pk['disks']['d1']['files'][0]['blocks'][0][2] == hA
                chk.notes.append('corpus %s: the binary %s the past hash of the 100-byte block into the 1024-byte CHG block (post-scan state); sync then rewrites the parity and check passes'
                                 % (case['name'], 'copies' if same else 'does NOT copy'))
                if pk and not same:
                    H.drift('corpus_' + case['name'], 'the post-scan state of the binary no longer shows the inherited past hash of the witness %s' % case['name'])
            if model:
                c11_model.flush_drift(H)
        finally:
            shutil.rmtree(H.w.arr.root, ignore_errors=True)
    return n


def configs(rng, n):
    cfgs = []
    for h in range(n):
        order = ORDERS[h % 4]
        cfgs.append({'nd': rng.choice([2, 2, 3]), 'np': rng.choice([1, 1, 2]), 'order': order, 'uuid': h % 3 != 2, 'multi': h % 5 == 4,
                     'where': 'disk' if h % 4 == 3 or h % 7 == 5 else 'tmpfs', 'both_scans': h % 2 == 0, 'seed': rng.getrandbits(32), 'gui': h % 3 == 1, 'filters': h % 4 == 2, 'splits': (2 + (h // 5) % 2) if h % 5 == 3 else 1, 'ncontent': 2 if h % 6 == 4 else 1,
                     'uuid_plan': [[False, True], [True, True, False], [False, False, True, True]][(h // 7) % 3] if h % 7 in (2, 5) else None})
    return cfgs


def main(tier, replay=None):
    chk = Check('C11', tier, 'proof')
    snap = snapshot_repo()
    regen(snap)
    try:
        binary = build_tool(snap)
        shim = build_shim(snap)
    except BuildError as e:
        chk.violation('build', 'working tree does not build: ' + str(e)[:500], {'error': str(e)}, no_input=True)
        return chk.finish()
    ob = check_obligations('C11')
    proof_coverage(chk, ob, 'make -f Makefile.coq -k Props/Properties_C11.vo (coqc 8.16.1) + Print Assumptions', c11_model.TRUSTED)
    try:
        model = c11_model.build()
    except BuildError as e:
        model = None
        chk.violation('model_build', 'the scan model does not build: %s' % str(e)[-600:], {'error': str(e)[-3000:]}, no_input=True)
    rng = chk.rng
    ncorpus = corpus_cases(chk, binary, shim, model) if not replay else 0
    scr = scripted(chk, binary, shim, model, rng, tier) if not replay else []
    if replay:
        rp = json.load(open(replay))['replay']
        cfgs = [rp['config']]
    else:
        cfgs = configs(rng, 40 if tier == 'quick' else 200)
    nsteps = 5 if tier == 'quick' else 7
    import concurrent.futures as cf

    def one(cfg):
        H = Hist(chk, binary, shim, model, random.Random(cfg['seed']), cfg)
        try:
            H.run(nsteps)
        finally:
            shutil.rmtree(H.w.arr.root, ignore_errors=True)
        return H
    tot = {'cmds': 0, 'model': 0, 'steps': 0}
    stats = {}
    counts = {}
    samples = []
    with cf.ThreadPoolExecutor(max_workers=min(8, NCPU)) as ex:
        for H in ex.map(one, cfgs):
            tot['cmds'] += H.ncmd; tot['model'] += H.nmodel
            for k, v in H.stats.items():
                stats[k] = stats.get(k, 0) + v
            for k, v in H.counts.items():
                counts[k] = counts.get(k, 0) + v
            if len(samples) < 3:
                samples.append({'config': H.cfg, 'history': H.w.log[:16]})
    for H in scr:
        tot['cmds'] += H.ncmd; tot['model'] += H.nmodel
        for k, v in H.stats.items():
            stats[k] = stats.get(k, 0) + v
    chk.cov.update({'evaluations': tot['cmds'], 'distinct_nontrivial': stats.get('diff2', 0), 'scripted_recipes': len(scr),
                    'rule': 'histories of random file-system operations (create/recreate/rewrite/append/truncate/delete/rename/swap/move/copy -p/touch/symlink/hardlink/mkdir/file<->dir) '
                            'on %d arrays, scan orders alpha/inode/dir/physical, with and without usable inodes (fake UUIDs), threaded and sequential scans, tmpfs and ext4 (inode reuse); '
                            'per step diff/sync/diff/list/check judged by the harness walk; non-trivial = steps in which the tree differed from the recorded state' % len(cfgs),
                    'corpus_cases': ncorpus, 'histories': len(cfgs), 'steps': stats.get('steps', 0), 'diff_exit2': stats.get('diff2', 0), 'diff_exit0': stats.get('diff0', 0),
                    'partial_syncs': stats.get('partial', 0), 'thread_copy_race_observed': stats.get('thread_copy_race_observed', 0), 'decoy_refusals_then_nocopy': stats.get('decoy_refusals', 0), 'invisible_rewrites_probed': stats.get('invisible', 0), 'inode_reuses_observed': stats.get('inode_reuse', 0),
                    'scan_counters_seen': counts, 'model_predictions_compared': tot['model'], 'traces_validated_against_impl': tot['model']})
    chk.cov['samples'] = samples
    chk.notes.append('under threaded scanning (the default) copy detection races with the scan of the other disk: a new file with the name, size and time-stamp of the OLD version of a file changed or removed on another disk is reported `copied` or `added`, and a sync of it fails (Unexpected data change) or succeeds, depending on timing; sequentially it depends on the disk order')
    chk.notes.append('`list` prints files and links only (cmdline/list.c has no loop over the directory list): the empty directories of the property statement are judged on the decoded content file instead')
    chk.notes.append('a same-size rewrite in place with restored time-stamp is invisible to diff and sync by the property\'s own wording (only size/time-stamp changes are re-read); the check asserts diff=0, sync no-op, and that `check` reports the block')
    if ob['failed'] and not chk.violations:
        chk.violation('obligation', 'proof obligation of C11 no longer checks: %s' % ob['failed'][0],
                      {'theorem_file': 'coq/Props/Properties_C11.v', 'failed': ob['failed'], 'log_tail': ob['log'][-1500:]}, no_input=True)
    chk.assumptions += c11_model.ASSUMPTIONS
    return chk.finish()
