"""C12 -- commands modify only what they are documented to modify.

Scenario matrix: commands {status, diff, list, dup, check (plain, -a, -v, filters), devices, scrub (plans), sync (options),
fix (filters), pool, touch} x array conditions {healthy, unsynced changes pending, silently damaged data, a data disk
emptied, a parity file deleted, a content copy deleted, parity bytes damaged} (x injected read errors in the thorough tier).
For every run
 (i)   the shim's write-set log (every state-changing system call with its path) is mapped to effect classes and must be
       inside the command's documented set (Python rule table below, independent of the Coq model);
 (ii)  a byte/mtime/inode snapshot of the whole array directory before/after must show no change outside that set
       (this also sees writes through paths the shim does not interpose);
 (iii) fix: every data write is on an object recorded in the content file, selected by the filters and reported in the
       log (fixed / *_fixed / status:recovered / status:unrecoverable), or creates an ancestor directory of one; every
       parity block changed inside the old range has a parity_fixed report and its level is not excluded; touch: only
       time changes, same seconds, only on recorded files whose recorded nanoseconds are 0;
 (iv)  the extracted Coq model (coq/Cmd/CmdModel.v) run on the independently computed precondition summary must give the
       same exit class and the same effect class set as observed."""
import os, sys, json, time, shutil, random, threading, itertools
import concurrent.futures as cf
from common import *
from arraylib import *
import c12_lib as L

T0 = 1700000000


class Ctx:
    def __init__(self, chk, binary, shim, model, tier):
        self.chk, self.binary, self.shim, self.model, self.tier = chk, binary, shim, model, tier
        self.lock = threading.Lock()
        self.runs = 0
        self.model_cmp = 0
        self.effects_seen = 0
        self.samples = []
        self.by_cmd = {}
        self.by_cond = {}
        self.fault_runs = 0
        self.notes = set()

    def viol(self, tag, what, replay, **kw):
        with self.lock:
            if len(self.chk.violations) < 14:
                self.chk.violation(tag, what, replay, **kw)


# ------------------------------------------------------------------------------------------------ arrays and conditions

def build(ctx, rng, cond, shape=(3, 2, 2)):
    nd, np_, nc = shape
    a = Array(ctx.binary, nd=nd, np_=np_, ncontent=nc, shim=ctx.shim, pool=True, splits=2 if cond == 'parity_split_missing' else 1)
    # a sentinel directory outside the data disks but inside the snapshot: nothing may ever change there
    os.makedirs(os.path.join(a.root, 'outside'))
    open(os.path.join(a.root, 'outside', 'target'), 'wb').write(rng.randbytes(6000))
    os.utime(os.path.join(a.root, 'outside', 'target'), ns=((T0 - 500) * 10**9 + 5, (T0 - 500) * 10**9 + 5))
    L.populate(a, rng)
    for di, d in enumerate(a.disks):
        a.write(d, 'z%d' % di, rng.randbytes(1500), mtime_ns=(T0 + 1000 + di) * 10**9)        # nanoseconds = 0: touch candidates
    # touch candidates (nanoseconds 0) over the whole range of time_t the file system takes: beyond 2^31, beyond 2^32, before 1970,
    # before -2^31; plus one drawn at random
    far = [2**31 + 5, 2**32 + 7, -86400 * 400, -(2**31) - 11, 2**33 + 1, rng.randrange(-2**34, 2**34)]
    for i, sec in enumerate(far):
        d = a.disks[i % nd]
        try:
            a.write(d, 'far%d' % i, rng.randbytes(1100 + i), mtime_ns=sec * 10**9)
            if os.stat(a.path(d, 'far%d' % i)).st_mtime_ns != sec * 10**9:
                os.unlink(a.path(d, 'far%d' % i)); a.store.pop((d, 'far%d' % i), None)
        except (OverflowError, OSError):
            if os.path.lexists(a.path(d, 'far%d' % i)):
                os.unlink(a.path(d, 'far%d' % i))
            a.store.pop((d, 'far%d' % i), None)
    # a hardlink, two files with equal content (dup), the same path on two disks (pool duplicate)
    os.link(a.path(a.disks[0], 'a0'), a.path(a.disks[0], 'hl0'))
    same = rng.randbytes(2100)
    a.write(a.disks[1], 'dupA', same, mtime_ns=(T0 + 2000) * 10**9 + 11)
    a.write(a.disks[nd - 1], 'dir/dupB', same, mtime_ns=(T0 + 2001) * 10**9 + 12)
    a.write(a.disks[0], 'common', rng.randbytes(700), mtime_ns=(T0 + 2002) * 10**9 + 13)
    a.write(a.disks[1], 'common', rng.randbytes(900), mtime_ns=(T0 + 2003) * 10**9 + 14)
    if cond == 'never_synced':
        return a
    r = a.run('sync')
    if r.rc != 0:
        raise RuntimeError('initial sync failed: %r' % r)
    if cond == 'healthy':
        pass
    elif cond == 'sizes_changed':
        # a file grown since the sync (fix truncates it: "Fixed size"), a recorded empty file that now has data, a file shortened
        for d, n, extra in ((a.disks[0], 'c0', 3000), (a.disks[1], 'f1', 10)):
            p = a.path(d, n)
            a.write(d, n, open(p, 'rb').read() + rng.randbytes(extra))
        a.write(a.disks[0], 'e00', b'no longer empty')
        p = a.path(a.disks[1], 'dir/b1')
        a.write(a.disks[1], 'dir/b1', open(p, 'rb').read()[:100])
        # same size and time, larger on disk is impossible; but larger with the RECORDED time: fix must give the time back
        p = a.path(a.disks[2 % nd], 'f%d' % (2 % nd)); st0 = os.stat(p)
        a.write(a.disks[2 % nd], 'f%d' % (2 % nd), open(p, 'rb').read() + b'tail', mtime_ns=st0.st_mtime_ns)
    elif cond == 'hardlinks_damaged':
        os.unlink(a.path(a.disks[0], 'hl0'))                       # hardlink missing
        if rng.random() < 0.5:
            a.write(a.disks[0], 'hl0', b'an independent file')     # ... or replaced by a file of its own
    elif cond == 'parity_split_missing':
        # one file of a split parity level is missing (the unused second file, or the first one holding the parity)
        os.unlink(a.parity_files[rng.randrange(np_)][rng.randrange(2)])
    elif cond == 'file_symlinked':
        # recorded non-empty files replaced by symbolic links: to a file outside the array, to another recorded file, dangling
        for d, n, to in ((a.disks[0], 'a0', os.path.join(a.root, 'outside', 'target')), (a.disks[1], 'f1', 'a1'), (a.disks[nd - 1], 'dir/b%d' % (nd - 1), '/nowhere/at/all')):
            os.unlink(a.path(d, n))
            os.symlink(to, a.path(d, n))
    elif cond == 'dirs_lost':
        # whole directory chains of recorded files are gone: check / scrub / sync report the files, nothing re-creates the directories
        shutil.rmtree(a.path(a.disks[0], 'dir'))
        shutil.rmtree(a.path(a.disks[1], 'dir/sub'))
        shutil.rmtree(a.path(a.disks[nd - 1], 'emptydir%d' % (nd - 1)))
    elif cond == 'data_and_parity_damaged':
        # silent damage in data AND in the parity of the same stripes: fix has to find out which is wrong
        for d, n, off in ((a.disks[0], 'a0', 7), (a.disks[1], 'f1', 2100)):
            p = a.path(d, n); st0 = os.stat(p)
            with open(p, 'r+b') as f:
                f.seek(off); f.write(b'QQQ')
            os.utime(p, ns=(st0.st_atime_ns, st0.st_mtime_ns))
        f = a.parity_files[0][0]
        data = bytearray(open(f, 'rb').read())
        data[3] ^= 0x55; data[1024 * 6 + 9] ^= 0x55
        open(f, 'wb').write(data)
    elif cond == 'killed_sync':
        # a sync that updated the parity but never saved its final state, then a loss
        for di, d in enumerate(a.disks):
            a.write(d, 'new%d' % di, rng.randbytes(2500))
            a.write(d, 'f%d' % di, rng.randbytes(4000))
        os.unlink(a.path(a.disks[0], 'c0'))
        r = a.run('sync', '--test-kill-after-sync')
        os.unlink(a.path(a.disks[1], 'new1'))
        os.unlink(a.path(a.disks[0], 'a0'))
    elif cond == 'partial_sync':
        # pending changes, a sync limited to the first stripes (CHG / REP / DELETED blocks stay), then more loss
        for di, d in enumerate(a.disks):
            a.write(d, 'new%d' % di, rng.randbytes(2500))
            os.unlink(a.path(d, 'c%d' % di))
            a.write(d, 'f%d' % di, rng.randbytes(4000))
        r = a.run('sync', '-B', '3')
        if r.rc != 0:
            raise RuntimeError('partial sync failed: %r' % r)
        os.unlink(a.path(a.disks[0], 'new0'))
        os.unlink(a.path(a.disks[1], 'a1'))
        a.write(a.disks[nd - 1], 'late', rng.randbytes(1200))
    elif cond == 'unsynced':
        for di, d in enumerate(a.disks):
            a.write(d, 'new%d' % di, rng.randbytes(2500))
            os.unlink(a.path(d, 'c%d' % di))
            a.write(d, 'f%d' % di, rng.randbytes(4000))
        os.unlink(a.path(a.disks[0], 'ln0'))
        os.makedirs(a.path(a.disks[1], 'newdir/empty'))
        # a touch candidate (recorded nanoseconds 0) rewritten with ANOTHER whole-second time-stamp: touch may only add the
        # sub-second part to the second found on disk
        a.write(a.disks[1], 'z1', rng.randbytes(1500), mtime_ns=(T0 + 7777) * 10**9)
        # recorded nanoseconds not 0, rewritten with a whole-second time-stamp: not a touch candidate
        a.write(a.disks[0], 'a0', rng.randbytes(3000), mtime_ns=(T0 + 5000) * 10**9)
    elif cond == 'damaged':
        # silent damage: same size, same time stamp
        for d, n in ((a.disks[0], 'a0'), (a.disks[1], 'dir/sub/d1')):
            p = a.path(d, n)
            st = os.stat(p)
            data = bytearray(open(p, 'rb').read())
            data[5] ^= 0x40
            data[-1] ^= 1
            with open(p, 'r+b') as f:
                f.write(data)
            os.utime(p, ns=(st.st_atime_ns, st.st_mtime_ns))
    elif cond == 'disk_emptied':
        d = a.disks[1]
        for n in os.listdir(a.path(d, '')):
            a.remove(d, n)
    elif cond == 'parity_deleted':
        os.unlink(a.parity_files[0][0])
    elif cond == 'parity_damaged':
        f = a.parity_files[np_ - 1][0]
        data = bytearray(open(f, 'rb').read())
        data[10] ^= 0xff
        data[2048 + 7] ^= 1
        open(f, 'wb').write(data)
    elif cond == 'content_deleted':
        os.unlink(a.content_files[rng.randrange(nc)])
    elif cond == 'links_damaged':
        os.unlink(a.path(a.disks[0], 'ln0'))
        os.symlink('elsewhere', a.path(a.disks[0], 'ln0'))
        shutil.rmtree(a.path(a.disks[1], 'emptydir1'))
        os.unlink(a.path(a.disks[2 % nd], 'e0%d' % (2 % nd)))
        shutil.rmtree(a.path(a.disks[0], 'dir'))
    else:
        raise KeyError(cond)
    if cond != 'never_synced' and rng.random() < 0.5:
        # stale entries in the pool directory: an old link, an empty sub directory, a plain file
        pd = os.path.join(a.root, 'pool')
        os.makedirs(os.path.join(pd, 'olddir', 'deeper'), exist_ok=True)
        os.symlink('/nowhere/stale', os.path.join(pd, 'stale_link'))
        os.symlink('/nowhere/stale2', os.path.join(pd, 'olddir', 'stale2'))
        open(os.path.join(pd, 'plainfile'), 'w').write('not a link')
    return a


CONDS_QUICK = ['healthy', 'unsynced', 'damaged', 'disk_emptied', 'parity_deleted', 'content_deleted', 'parity_damaged', 'links_damaged',
               'sizes_changed', 'hardlinks_damaged', 'partial_sync', 'never_synced', 'data_and_parity_damaged', 'killed_sync',
               'parity_split_missing', 'file_symlinked', 'dirs_lost']

RO_CMDS = [('status', []), ('diff', []), ('list', []), ('dup', []), ('check', []), ('check', ['-a']), ('check', ['-v']),
           ('check', ['-f', '/a0']), ('check', ['-d', 'd1']), ('check', ['-m']), ('check', ['-e']), ('check', ['-a', '-d', 'd2']),
           ('devices', []), ('status', ['-v']), ('list', ['-v']), ('dup', ['-v']), ('diff', ['-v']), ('check', ['-G']), ('status', ['-G']),
           ('diff', ['-G']), ('check', ['-S', '100000']), ('check', ['-S', '2', '-B', '3']), ('check', ['-b']), ('list', ['-G'])]
SCRUB_CMDS = [('scrub', []), ('scrub', ['-p', 'full']), ('scrub', ['-p', 'new']), ('scrub', ['-p', 'bad']), ('scrub', ['-p', '50', '-o', '0']),
              ('scrub', ['-p', 'full', '-o', '5']), ('scrub', ['--test-force-scrub-even']), ('scrub', ['--test-force-scrub-at', '3']),
              ('scrub', ['-p', 'full', '--test-force-autosave-at', '1']), ('scrub', ['-p', '100', '-o', '0', '-v'])]
SYNC_CMDS = [('sync', []), ('sync', ['-h']), ('sync', ['-F']), ('sync', ['-B', '2']), ('sync', ['-N']), ('sync', ['-R']),
             ('sync', ['--test-force-autosave-at', '2']), ('sync', ['-S', '100000']), ('sync', ['-S', '1', '-B', '2']), ('sync', ['-h', '-v']),
             ('sync', ['-G'])]
FIX_CMDS = [('fix', []), ('fix', ['-m']), ('fix', ['-f', '/a0']), ('fix', ['-d', 'd1']), ('fix', ['-e']), ('fix', ['-d', 'parity']),
            ('fix', ['-d', 'd2', '-d', '2-parity']), ('fix', ['-f', '/dir/sub/d1', '-f', '/ln0']), ('fix', ['-B', '3']),
            ('fix', ['-S', '100000']), ('fix', ['-v']), ('fix', ['-f', '/hl0', '-f', '/e00']), ('fix', ['-b']), ('fix', ['-N'])]
OTHER_CMDS = [('pool', []), ('touch', [])]


# ------------------------------------------------------------------------------------------------ the documented sets (Python rule table)

def parity_excluded_py(opts, l):
    fd = [opts[i + 1] for i, x in enumerate(opts) if x == '-d']
    if fd:
        return LEVNAME[l] not in fd
    return ('-m' in opts) or ('-f' in opts)


def selected_py(opts, disk, rel, missing_before):
    fd = [opts[i + 1] for i, x in enumerate(opts) if x == '-d']
    ff = [opts[i + 1] for i, x in enumerate(opts) if x == '-f']
    if fd and disk not in fd:
        return False
    if ff and not any(rel == p.lstrip('/') for p in ff):
        return False
    if '-m' in opts and not missing_before:
        return False
    return True


def has_bad_block(ent, st):
    return any(pos < len(st['info']) and st['info'][pos] and st['info'][pos]['bad'] for _, pos, _ in ent['blocks'])


def selected_full(opts, dn, rel, missing, kind, ent, st):
    """state_filter: -d / -f / -m as selected_py; -e / -b (filter_correctness) keep only FILES owning a block whose info word
    is marked bad; links and directories are not filtered by -e / -b"""
    rest = [x for x in opts if x not in ('-e', '-b')]
    if ('-e' in opts or '-b' in opts) and kind == 'file':
        return bool(st) and has_bad_block(ent, st) and selected_py(rest, dn, rel, missing)
    return selected_py(rest, dn, rel, missing)


def unsynced_before(o, a, dn, rel, ent):
    """check.c:1119-1127 FILE_IS_UNSYNCED, judged on the before-snapshot: the file is missing (fix creates it empty) or its
    size / mtime differ from the record"""
    b4 = o.before.get(os.path.join(a.root, dn, rel))
    if b4 is None or b4[0] != 'f':
        return True
    return len(b4[1]) != ent['size'] or b4[2] // 10**9 != ent['sec'] or (b4[2] % 10**9) != ent['nsec']


def recorded_objects(st, arr):
    """(disk idx, rel) -> kind for everything recorded in the content state"""
    rec = {}
    if not st:
        return rec
    for di, d in enumerate(arr.disks):
        dd = st['disks'].get(d)
        if not dd:
            continue
        for f in dd['files']:
            rec[(di, f['sub'].decode('latin1'))] = ('file', f)
        for l in dd['links']:
            rec[(di, l['sub'].decode('latin1'))] = ('link', l)
        for x in dd['dirs']:
            rec[(di, x.decode('latin1'))] = ('dir', x)
    return rec


def reported_objects(tags, arr):
    """(disk name, sub) named by fix in its log"""
    rep = set()
    for t in tags:
        p = t.split(':')
        if p[0] == 'fixed' and len(p) >= 4 and p[1].isdigit():
            rep.add((p[2], p[3]))
        elif p[0] == 'fixed' and len(p) >= 3:
            rep.add((p[1], p[2]))
        elif p[0] in ('hardlink_fixed', 'symlink_fixed', 'dir_fixed') and len(p) >= 3:
            rep.add((p[1], p[2]))
        elif p[0] == 'status' and len(p) >= 4 and p[1] in ('recovered', 'unrecoverable'):
            rep.add((p[2], p[3]))
    return rep


def judge(ctx, a, paths, o, cond, st_before, replay, ignore=()):
    """the property, judged without the Coq model"""
    cmd, opts = o.cmd, o.opts
    rep = dict(replay)
    rep.update({'command': [cmd] + opts, 'condition': cond, 'rc': o.rc, 'stderr': o.r.err[-600:], 'shim_log': o.shim_text[-2500:],
                'history': [list(map(str, h)) for h in a.history[-30:]]})
    rec = recorded_objects(st_before, a)
    reported = reported_objects(o.r.tags, a)
    pf_tags = set()
    for t in o.r.tags:
        p = t.split(':')
        if p[0] == 'parity_fixed' and len(p) >= 3:
            pf_tags.add((int(p[1]), p[2]))

    def bad(tag, msg):
        ctx.viol(tag, 'WRITE OUTSIDE THE DOCUMENTED SET: `%s %s` on a %s array: %s' % (cmd, ' '.join(opts), cond, msg), rep)

    for r in L.lock_path_removed(o)[:1]:
        bad('lock_removed', 'the lock file is removed or replaced (%s %s): the lock is a flock on its inode, a later command would lock a different inode' % (r['call'], r['extra']))
    # ---- (i) the shim's write set
    for cl, kind, r in o.eff:
        ctx.effects_seen += 1
        if r['path'] in ignore:
            continue
        t = cl[0]
        if t in ('lock', 'log', 'shimlog'):
            continue
        if t == 'content':
            if cmd not in ('scrub', 'sync', 'touch'):
                bad('content', '%s %s (%s)' % (r['call'], r['path'], kind))
            continue
        if t == 'parity':
            l = cl[1]
            if cmd == 'sync':
                continue
            if cmd == 'fix':
                if parity_excluded_py(opts, l):
                    bad('parity_excluded', '%s on %s although the level is excluded by the filters' % (r['call'], r['path']))
                elif kind == 'write':
                    import re as _re
                    m = _re.search(r'off=(\d+)', r['extra'])
                    pos = int(m.group(1)) // a.bs if m else -1
                    if (pos, LEVNAME[l]) not in pf_tags:
                        bad('parity_unreported', 'parity block %d of %s written without a parity_fixed report' % (pos, LEVNAME[l]))
                continue
            bad('parity', '%s %s (%s)' % (r['call'], r['path'], kind))
            continue
        if t == 'pool':
            if cmd != 'pool':
                bad('pool', '%s %s' % (r['call'], r['path']))
            continue
        if t == 'data':
            di, rel = cl[1], cl[2]
            dn = a.disks[di]
            if cmd == 'touch':
                ent = rec.get((di, rel))
                if kind != 'utime' or not ent or ent[0] != 'file' or ent[1]['nsec'] != 0:
                    bad('touch_data', '%s on %s:%s (%s), not a time change of a recorded file with recorded nanoseconds 0' % (r['call'], dn, rel, kind))
                continue
            if cmd == 'fix':
                base = rel[:-len('.unrecoverable')] if rel.endswith('.unrecoverable') else rel
                ent = rec.get((di, base))
                if ent is None:
                    # an ancestor directory of a recorded, selected object?
                    anc = [k for k in rec if k[0] == di and k[1].startswith(rel + '/')]
                    if kind == 'mkdir' and any(selected_py(opts, dn, k[1], True) for k in anc):
                        continue
                    bad('fix_unrecorded', '%s on %s:%s, which is not recorded in the content file' % (r['call'], dn, rel))
                    continue
                missing_before = os.path.join(a.root, dn, base) not in o.before
                transient = kind in ('create', 'unlink') and os.path.join(a.root, dn, base) not in o.after and missing_before
                if not selected_full(opts, dn, base, missing_before, ent[0], ent[1], st_before):
                    bad('fix_unselected', '%s on %s:%s, which the filters do not select' % (r['call'], dn, rel))
                    continue
                if ('-e' in opts or '-b' in opts) and ent[0] == 'file' and not transient and unsynced_before(o, a, dn, base, ent[1]):
                    bad('fix_unsynced', '%s (%s) on %s:%s under %s although the file was modified or removed after the last sync (fixes apply only to files not modified since)'
                        % (r['call'], kind, dn, rel, '-e' if '-e' in opts else '-b'))
                    continue
                if (dn, base) not in reported and not (kind in ('create', 'unlink') and os.path.join(a.root, dn, base) not in o.after
                                                      and os.path.join(a.root, dn, base) not in o.before):
                    bad('fix_unreported', '%s (%s) on %s:%s without any fixed/recovered/unrecoverable report' % (r['call'], kind, dn, rel))
                continue
            bad('data', '%s %s (%s): a path inside data disk %s' % (r['call'], r['path'], kind, dn))
            continue
        bad('other', '%s %s (%s): not a data, parity, content, pool, lock or log path' % (r['call'], r['path'], kind))
    # ---- (ii) the snapshot
    ign_cl = set(paths.classify(x) for x in ignore)
    for cl, what, b4, af in o.diff:
        t = cl[0]
        if cl in ign_cl:
            continue          # changed by the harness itself while the command ran (--test-run disturbance)
        if t in ('lock', 'log'):
            continue
        if t == 'content':
            if cmd not in ('scrub', 'sync', 'touch'):
                bad('snap_content', 'content copy %d changed (%s)' % (cl[1], what))
            continue
        if t == 'parity' and what in ('created-file', 'removed-file'):
            l = cl[1]
            if what == 'created-file' and (cmd == 'sync' or (cmd == 'fix' and not parity_excluded_py(opts, l))):
                continue      # parity_create: a missing parity file of a level the command may write appears (empty or filled)
            bad('snap_parity_entry', 'parity file %s %s (%d bytes) by a command that may not write this level'
                % (os.path.basename(b4), 'created' if what == 'created-file' else 'removed', af))
            continue
        if t == 'parity':
            l = cl[1]
            if cmd == 'sync':
                continue
            if cmd == 'fix' and not parity_excluded_py(opts, l):
                n = min(len(b4), len(af))
                for pos in range(n // a.bs):
                    if b4[pos * a.bs:(pos + 1) * a.bs] != af[pos * a.bs:(pos + 1) * a.bs] and (pos, LEVNAME[l]) not in pf_tags:
                        bad('snap_parity_unreported', 'bytes of parity block %d of %s changed without a parity_fixed report' % (pos, LEVNAME[l]))
                        break
                continue
            bad('snap_parity', 'parity level %d changed (%d -> %d bytes)' % (l, len(b4), len(af)))
            continue
        if t == 'pool':
            if cmd != 'pool':
                bad('snap_pool', 'pool entry %s %s' % (cl[1], what))
            continue
        if what == 'dirmtime' and t in ('data', 'dataroot'):
            if cmd == 'fix':
                continue          # fix makes / removes entries in the directories of the objects it repairs (judged entry by entry)
            bad('snap_dirmtime', 'the time of directory %s of data disk %s changed: an entry was created or removed in it' % (cl[2] if t == 'data' else '.', a.disks[cl[1]]))
            continue
        if t == 'data':
            di, rel = cl[1], cl[2]
            dn = a.disks[di]
            if cmd == 'touch':
                ent = rec.get((di, rel))
                okk = what == 'mtime' and ent and ent[0] == 'file' and ent[1]['nsec'] == 0 and b4[2] // 10**9 == af[2] // 10**9
                if not okk:
                    bad('snap_touch', '%s:%s changed (%s) beyond the sub-second part of its time' % (dn, rel, what))
                elif b4[2] % 10**9 != 0:
                    ctx.viol('touch_nonzero', 'touch changed the sub-second time of %s:%s although it was not zero on disk (%d ns): the recorded value was 0 but the file had been modified since' % (dn, rel, b4[2] % 10**9), rep)
                continue
            if cmd == 'fix':
                if what == 'nlink':
                    continue          # a hard link to / from this inode was made or removed under another name, judged there
                # other names of the same inode: a change seen through a hardlink is the change of the file it links to
                full = os.path.join(a.root, dn, rel)
                inos = set(x[3] for x in (b4, af) if x and x[0] == 'f')
                aliases = [q for snap_ in (o.before, o.after) for q, v in snap_.items() if q != full and v[0] == 'f' and v[3] in inos and v[4] > 1]
                if any(paths.classify(q)[0] == 'data' and (a.disks[paths.classify(q)[1]], paths.classify(q)[2]) in reported for q in aliases) and 'inode' not in what:
                    continue
                base = rel[:-len('.unrecoverable')] if rel.endswith('.unrecoverable') else rel
                ent = rec.get((di, base))
                if ent is None:
                    anc = [k for k in rec if k[0] == di and k[1].startswith(rel + '/')]
                    if what == 'created' and af and af[0] == 'd' and any(selected_py(opts, dn, k[1], True) for k in anc):
                        continue
                    bad('snap_fix_unrecorded', '%s:%s %s, not recorded in the content file' % (dn, rel, what))
                    continue
                missing_before = os.path.join(a.root, dn, base) not in o.before
                if not selected_full(opts, dn, base, missing_before, ent[0], ent[1], st_before):
                    bad('snap_fix_unselected', '%s:%s %s, not selected by the filters' % (dn, rel, what))
                elif ('-e' in opts or '-b' in opts) and ent[0] == 'file' and unsynced_before(o, a, dn, base, ent[1]):
                    bad('snap_fix_unsynced', '%s:%s %s under %s although the file was modified or removed after the last sync (fixes apply only to files not modified since)'
                        % (dn, rel, what, '-e' if '-e' in opts else '-b'))
                elif (dn, base) not in reported:
                    bad('snap_fix_unreported', '%s:%s %s without any fixed/recovered/unrecoverable report' % (dn, rel, what))
                continue
            bad('snap_data', '%s:%s %s' % (dn, rel, what))
            continue
        if t in ('contentdir', 'dataroot', 'poolroot'):
            if af is not None and b4 is not None:
                continue
        bad('snap_other', '%s %s' % (cl, what))


# ------------------------------------------------------------------------------------------------ the tie with the Coq model

def extend_summary(ctx, a, paths, cmd, opts, d, cond, o_before_snapshot, faulty):
    """fields of the summary beyond what c12_lib.presummary computes; unknown ones are enumerated"""
    st = d['_state']
    unk = d['_unknown']
    space = d.setdefault('_space', {})
    healthy = cond == 'healthy'
    # state_config: a -d filter that names neither a data disk nor a parity is a configuration error (exit before the lock)
    fdn = [opts[i + 1] for i, x in enumerate(opts) if x == '-d']
    if any(n not in a.disks and n not in LEVNAME[:a.np] for n in fdn):
        d['conf_ok'] = False
    if cmd in ('check', 'fix'):
        if healthy and not faulty:
            d['check_errors'] = False
        else:
            unk.append('check_errors'); space['check_errors'] = [False, True]
    if cmd == 'scrub':
        if '-p' in opts and opts[opts.index('-p') + 1] == 'full':
            d['scrub_stripes'] = 0 if d['array_empty'] else 1
        elif '-p' in opts and opts[opts.index('-p') + 1] == 'bad' and st and not any(i and i['bad'] for i in st['info']):
            d['scrub_stripes'] = 0
        else:
            unk.append('scrub_stripes'); space['scrub_stripes'] = [0, 1]
        if healthy and not faulty:
            d['scrub_errors'] = False
        else:
            unk.append('scrub_errors'); space['scrub_errors'] = [False, True]
    if cmd in ('check', 'fix') and st is not None:
        d['blockmax'] = st['blockmax']
        d['_unknown'] = [u for u in d['_unknown'] if u != 'blockmax']
        unk = d['_unknown']
    if cmd == 'sync':
        if faulty or not healthy:
            unk.append('sync_errors'); space['sync_errors'] = [False, True]
        if '-h' in opts and (faulty or cond == 'damaged'):
            unk.append('prehash_fail'); space['prehash_fail'] = [False, True]
    if cmd == 'touch':
        tl = []
        if st:
            for di, dn in enumerate(a.disks):
                for f in (st['disks'].get(dn) or {'files': []})['files']:
                    rel = f['sub'].decode('latin1')
                    # touch.c: recorded nanoseconds 0, the file opens, and (since c4adc84) its on-disk nanoseconds are 0
                    if f['nsec'] == 0 and os.path.isfile(a.path(dn, rel)) and not os.path.islink(a.path(dn, rel)) \
                            and os.stat(a.path(dn, rel)).st_mtime_ns % 10**9 == 0:
                        tl.append((di, paths.pid(di, rel)))
        d['touch'] = tl
    if cmd == 'pool':
        unk.append('pool_changes'); space['pool_changes'] = [[], [1]]
    if cmd == 'fix':
        items = []
        bs = d['_bs']
        rec = recorded_objects(st, a)
        anyd = False
        for (di, rel), (kind, ent) in sorted(rec.items()):
            dn = a.disks[di]
            p = a.path(dn, rel)
            missing = not os.path.lexists(p)
            sel = selected_full(opts, dn, rel, missing, kind, ent, st)
            finished = True
            # a block range limits the files that are examined (empty files, links and directories are always examined);
            # a file whose last block is outside the range does not reach FILE_IS_FINISHED
            if sel and kind == 'file' and ent['blocks'] and ('-S' in opts or '-B' in opts):
                s0 = int(opts[opts.index('-S') + 1]) if '-S' in opts else 0
                cnt = int(opts[opts.index('-B') + 1]) if '-B' in opts else 0
                hi = s0 + cnt if cnt else 10 ** 9
                sel = any(s0 <= pos < hi for _, pos, _ in ent['blocks'])
                finished = s0 <= ent['blocks'][-1][1] < hi
            syncedonly = '-e' in opts or '-b' in opts
            state = 'good'
            k = 'file'
            larger = False
            unsynced = False
            if kind == 'file':
                k = 'empty' if ent['size'] == 0 else 'file'
                if missing or os.path.islink(p) or not os.path.isfile(p):
                    state = 'rec'
                else:
                    s = os.stat(p)
                    data = open(p, 'rb').read()
                    v = a.find_version(dn, ent)
                    larger = s.st_size > ent['size']
                    unsynced = s.st_size != ent['size'] or s.st_mtime_ns // 10**9 != ent['sec'] or s.st_mtime_ns % 10**9 != ent['nsec']
                    if k == 'empty':
                        state = 'good' if s.st_size == 0 else 'rec'
                    elif v is None or data[:ent['size']] != v or s.st_size < ent['size']:
                        state = 'rec'
            elif kind == 'link':
                k = 'hardlink' if ent['hard'] else 'symlink'
                if ent['hard']:
                    tp = a.path(dn, ent['to'].decode('latin1'))
                    state = 'good' if (os.path.isfile(p) and not os.path.islink(p) and os.path.isfile(tp) and os.stat(p).st_ino == os.stat(tp).st_ino) else 'rec'
                else:
                    state = 'good' if (os.path.islink(p) and os.readlink(p) == ent['to'].decode('latin1')) else 'rec'
            else:
                k = 'dir'
                state = 'good' if os.path.isdir(p) else 'rec'
            anc = []
            if missing:
                parts = rel.split('/')[:-1]
                for i in range(1, len(parts) + 1):
                    ap = '/'.join(parts[:i])
                    if not os.path.isdir(a.path(dn, ap)):
                        anc.append(paths.pid(di, ap))
            it = {'disk': di, 'path': paths.pid(di, rel), 'kind': k, 'selected': sel, 'missing': missing, 'larger': larger,
                  'unrec': os.path.lexists(p + '.unrecoverable'), 'state': state, 'anc': anc, 'unsynced': unsynced, 'finished': finished}
            if sel and (state != 'good' or larger):
                anyd = True
            items.append(it)
        d['fix_items'] = items
        cur_blockmax = st['blockmax'] if st else 0
        psz = [sum(os.path.getsize(f) for f in fs if os.path.exists(f)) for fs in a.parity_files]
        d['fix_resize'] = [s != cur_blockmax * bs for s in psz]
        d['blockmax'] = cur_blockmax
        d['_unknown'] = [u for u in unk if u != 'blockmax']
        unk = d['_unknown']
        # which parity blocks fix will find wrong is not summarised: enumerate the non-excluded levels
        lv = [l for l in range(a.np) if not parity_excluded_py(opts, l)]
        subsets = []
        for r in range(len(lv) + 1):
            for c in itertools.combinations(lv, r):
                subsets.append([(l, 0) for l in c])
        unk.append('fix_parity'); space['fix_parity'] = subsets
        if anyd:
            unk.append('_fix_unrec'); space['_fix_unrec'] = [False, True]
        if any(kind_ == 'file' and os.path.islink(a.path(a.disks[di_], rel_)) for (di_, rel_), (kind_, e_) in rec.items()):
            # handle_create refuses to follow a link (O_NOFOLLOW): fix stops there with an error; what was examined before stays
            unk.append('_fix_bail'); space['_fix_bail'] = [False, True]
    return d


def completions(d):
    unk = list(dict.fromkeys(d.get('_unknown', [])))
    space = d.get('_space', {})
    np_ = d['level']
    spaces = []
    for u in unk:
        if u in space:
            spaces.append([(u, v) for v in space[u]])
        elif u == 'sync_work':
            spaces.append([(u, False), (u, True)])
        elif u in ('parity_resize', 'parity_modified'):
            spaces.append([(u, list(c)) for c in itertools.product([False, True], repeat=np_)])
        elif u == 'blockmax':
            spaces.append([(u, d.get('_blockmax_guess', 10 ** 6))])
        else:
            raise KeyError(u)
    for combo in itertools.product(*spaces):
        dd = dict(d)
        for k, v in combo:
            dd[k] = v
        if dd.get('_fix_bail'):
            dd['fix_items'] = [dict(it, selected=False) for it in dd['fix_items']]
            dd['check_errors'] = True
            dd['fix_parity'] = []
        if dd.get('_fix_unrec'):
            items = [dict(it) for it in dd['fix_items']]
            for it in items:
                if it['selected'] and it['state'] == 'rec' and it['kind'] == 'file':
                    it['state'] = 'unrec'
                    break
            else:
                for it in items:
                    if it['selected'] and it['state'] == 'rec':
                        it['state'] = 'unrec'
                        break
            dd['fix_items'] = items
        yield dd


def tie(ctx, a, paths, o, d, cond, replay, faulty, ignore=()):
    cmd, opts = o.cmd, o.opts
    reqs = []
    for dd in completions(d):
        reqs.append(' '.join(['run', L.CMD_TOKEN[cmd]] + L.opts_tokens(a, opts) + L.pre_tokens(dd, a)))
        if len(reqs) >= 4096:
            break
    outs = run_lines(ctx.model, reqs, shards=1)
    preds = [L.parse_model_line(x) for x in outs]
    rep = dict(replay)
    rep.update({'command': [cmd] + opts, 'condition': cond, 'rc': o.rc, 'stderr': o.r.err[-400:], 'model_request': reqs[0][:2500],
                'model_answer': outs[0][:800], 'shim_log': o.shim_text[-1500:]})
    if any(p is None for p in preds):
        bad = [x for x, p in zip(outs, preds) if p is None][0]
        ctx.viol('model_error', 'the command model failed on a request (%s %s): %s' % (cmd, ' '.join(opts), bad[:200]), rep, no_input=True)
        return
    ctx.model_cmp += 1
    obs = L.observed_coarse(o) - {('WLog',)}
    if ignore:
        # data paths changed by the harness itself during the run (--test-run disturbance) are not effects of the command
        ign_cl = set(paths.classify(x) for x in ignore)
        other = any(cl[0] == 'data' and cl not in ign_cl for cl, what, b4, af in o.diff) or \
            any(cl[0] == 'data' and r['path'] not in ignore for cl, k, r in o.eff)
        if not other:
            obs = obs - {('WData',)}
    failing = o.rc != 0
    why = []
    for ex, effs, reps in preds:
        mc = L.model_classes(effs) - {('WLog',)}
        okx = {'Refused': failing, 'Ok': o.rc == 0, 'NeedSync': o.rc == 2, 'Errors': failing}[ex]
        if cmd == 'devices':
            okx = True
        if okx and mc == obs:
            return
        s = 'model %s %s' % (ex, sorted(mc))
        if s not in why:
            why.append(s)
    rep['model_alternatives'] = why[:10]
    rep['observed_classes'] = sorted(map(str, obs))
    ctx.viol('drift', 'MODEL-DRIFT: `%s %s` on a %s array ended with exit %d and effect classes %s; the command model predicts %s'
             % (cmd, ' '.join(opts), cond, o.rc, sorted(obs), '; or '.join(why[:3])), rep, no_input=True)


# ------------------------------------------------------------------------------------------------ scenarios

def needs_force(cond, cmd):
    return ['--force-empty'] if (cmd == 'sync' and cond == 'disk_emptied') else []


def one_run(ctx, a, paths, cmd, opts, cond, replay, fail=None, ignore=(), disturbed=False):
    st, ok, idx = L.load_state(a)
    d = L.presummary(a, paths, cmd, opts)
    d = extend_summary(ctx, a, paths, cmd, opts, d, cond, None, fail is not None or disturbed)
    o = L.observe(a, paths, cmd, opts, fail=fail)
    with ctx.lock:
        ctx.runs += 1
        ctx.by_cmd[cmd] = ctx.by_cmd.get(cmd, 0) + 1
        ctx.by_cond[cond] = ctx.by_cond.get(cond, 0) + 1
        if fail:
            ctx.fault_runs += 1
        if len(ctx.samples) < 12 and (ctx.runs % 9 == 1):
            ctx.samples.append({'condition': cond, 'observed': L.obs_summary(o)})
    if o.rc in (-11, 139, -999) or (o.rc == -6 and 'Assertion' in o.r.err):
        ctx.viol('crash', '`%s %s` on a %s array crashed or hung (rc %d)%s: %s' % (cmd, ' '.join(opts), cond, o.rc, ' under fault ' + fail if fail else '', o.r.err[-200:]),
                 dict(replay, command=[cmd] + list(opts), condition=cond, fail=fail))
    judge(ctx, a, paths, o, cond, st, dict(replay, fail=fail), ignore=ignore)
    if fail is None:
        tie(ctx, a, paths, o, d, cond, replay, False, ignore=ignore)
    return o


def scenario_readonly(ctx, seed, cond, shape, cmds):
    rng = random.Random(seed)
    a = build(ctx, rng, cond, shape)
    paths = L.Paths(a)
    replay = {'seed': seed, 'condition': cond, 'shape': shape}
    try:
        for cmd, opts in cmds:
            one_run(ctx, a, paths, cmd, list(opts), cond, replay)
    finally:
        shutil.rmtree(a.root, ignore_errors=True)


def scenario_mutating(ctx, seed, cond, shape, cmd, opts, fail=None, then=None):
    rng = random.Random(seed)
    a = build(ctx, rng, cond, shape)
    paths = L.Paths(a)
    replay = {'seed': seed, 'condition': cond, 'shape': shape}
    try:
        one_run(ctx, a, paths, cmd, list(opts) + needs_force(cond, cmd), cond, replay, fail=fail)
        for c2, o2 in (then or []):
            one_run(ctx, a, paths, c2, list(o2) + needs_force(cond, c2), cond + '+after ' + cmd, replay)
    finally:
        shutil.rmtree(a.root, ignore_errors=True)


def silent_corrupt(a, d, n, off=10):
    p = a.path(d, n)
    st = os.stat(p)
    with open(p, 'r+b') as f:
        f.seek(off)
        f.write(b'XXXX')
    os.utime(p, ns=(st.st_atime_ns, st.st_mtime_ns))


FIX_CORNERS = ['range_midfile', 'range_midfile_S', 'range_nothing', 'e_user_edit_after_missing', 'b_user_edit_after_missing',
               'e_unrecoverable_user_edit', 'e_deleted_after_scrub', 'b_deleted_after_scrub', 'e_unrecoverable_deleted',
               'unrecoverable_plain', 'unrecoverable_filtered', 'bail_after_create', 'e_plain_bad_synced', 'm_range']


def scenario_fix_corner(ctx, seed, variant, np_=1):
    """fix with block ranges ending inside a file, fix -e / -b after a scrub that marked blocks bad, with a missing file EARLIER on
    the same disk than an intact or user-edited file, files edited or deleted after the scrub, stripes with more damage than
    parity, an early bail: whatever happens, every name that appears, disappears or changes must be reported and selected"""
    rng = random.Random(seed)
    a = Array(ctx.binary, nd=2, np_=np_, ncontent=2, shim=ctx.shim)
    paths = L.Paths(a)
    replay = {'seed': seed, 'scenario': 'fix_corner', 'variant': variant, 'np': np_}
    k = [0]

    def put(d, n, size):
        k[0] += 1
        a.write(d, n, rng.randbytes(size), mtime_ns=(T0 + 10 * k[0]) * 10**9 + 1234 + k[0])
    try:
        # alphabetical scan order = parity positions in this order on each disk
        put('d1', 'a_first', 1024); put('d1', 'b_keep', 3072); put('d1', 'c_more', 2048); put('d1', 'sub/d_deep', 1500)
        put('d2', 'x', 4096); put('d2', 'y_user', 1024); put('d2', 'z', 2048)
        if a.run('sync').rc != 0:
            raise RuntimeError('initial sync failed')
        fail = None
        scrub = False
        if variant == 'range_midfile':          # a_first lost; the range ends inside b_keep
            os.unlink(a.path('d1', 'a_first')); opts = ['-S', '0', '-B', '2']
        elif variant == 'range_midfile_S':
            os.unlink(a.path('d1', 'a_first')); silent_corrupt(a, 'd1', 'c_more'); opts = ['-S', '0', '-B', '5']
        elif variant == 'range_nothing':
            os.unlink(a.path('d1', 'a_first')); opts = ['-S', '2', '-B', '2']
        elif variant == 'm_range':
            os.unlink(a.path('d1', 'a_first')); os.unlink(a.path('d1', 'c_more')); opts = ['-m', '-B', '3']
        elif variant in ('e_user_edit_after_missing', 'b_user_edit_after_missing'):
            silent_corrupt(a, 'd1', 'a_first'); silent_corrupt(a, 'd1', 'b_keep'); scrub = True
        elif variant == 'e_unrecoverable_user_edit':
            silent_corrupt(a, 'd1', 'a_first'); silent_corrupt(a, 'd2', 'x'); scrub = True
        elif variant in ('e_deleted_after_scrub', 'b_deleted_after_scrub'):
            silent_corrupt(a, 'd1', 'b_keep', off=1030); silent_corrupt(a, 'd2', 'z'); scrub = True
        elif variant == 'e_unrecoverable_deleted':
            silent_corrupt(a, 'd1', 'a_first'); silent_corrupt(a, 'd2', 'x'); scrub = True
        elif variant == 'e_plain_bad_synced':
            silent_corrupt(a, 'd1', 'c_more'); silent_corrupt(a, 'd2', 'y_user'); scrub = True
        elif variant == 'unrecoverable_plain':   # more damage than parity in the first stripes
            os.unlink(a.path('d1', 'a_first')); os.unlink(a.path('d2', 'x')); silent_corrupt(a, 'd1', 'c_more'); opts = []
        elif variant == 'unrecoverable_filtered':
            os.unlink(a.path('d1', 'a_first')); os.unlink(a.path('d2', 'x')); opts = ['-d', 'd1']
        elif variant == 'bail_after_create':     # a write error on a later file after an earlier one was re-created
            os.unlink(a.path('d1', 'a_first')); silent_corrupt(a, 'd1', 'c_more'); opts = []; fail = 'pwrite:/d1/c_more:1:5'
        else:
            raise KeyError(variant)
        if scrub:
            r = a.run('scrub', '-p', 'full')
            st = a.content()
            if not any(i and i['bad'] for i in st['info']):
                raise RuntimeError('scrub marked nothing bad (%s)' % variant)
            opts = ['-b'] if variant.startswith('b_') else ['-e']
            time.sleep(0.01)
            if variant in ('e_user_edit_after_missing', 'b_user_edit_after_missing'):
                os.unlink(a.path('d1', 'a_first'))                               # the missing file comes FIRST on the disk
                a.write('d1', 'b_keep', b'rewritten by the user after the last sync\n')   # then a user-edited file with a bad block
            elif variant == 'e_unrecoverable_user_edit':
                a.write('d2', 'x', rng.randbytes(4096))                          # same stripes as a_first: two failures, one parity
            elif variant in ('e_deleted_after_scrub', 'b_deleted_after_scrub'):
                os.unlink(a.path('d1', 'b_keep'))                                # deleted after the scrub that marked its block bad
            elif variant == 'e_unrecoverable_deleted':
                os.unlink(a.path('d2', 'x'))
        one_run(ctx, a, paths, 'fix', opts, 'fix_corner:' + variant, replay, fail=fail)
    finally:
        shutil.rmtree(a.root, ignore_errors=True)


SYNC_DISTURB = ['prehash_file_removed', 'prehash_file_changed', 'prehash_data_eio', 'file_removed_after_scan', 'file_changed_after_scan', 'file_grown_after_scan', 'data_eio', 'parity_pwrite_eio', 'parity_pwrite_eio_late',
                'silent_in_synced_stripe', 'prehash_unsynced', 'prehash_changed_copy', 'autosave_unsynced', 'new_file_unreadable']


def scenario_sync_disturbed(ctx, seed, variant, shape=(3, 2, 2)):
    """sync while things go wrong: files vanish or change between the scan and the sync (--test-run), read and write errors
    (shim), silent damage in a stripe that is recomputed, pre-hash, autosave: whatever the exit status, no path inside a data
    disk is written and nothing outside content / parity / lock / log changes"""
    rng = random.Random(seed)
    a = build(ctx, rng, 'unsynced', shape)
    paths = L.Paths(a)
    replay = {'seed': seed, 'scenario': 'sync_disturbed', 'variant': variant, 'shape': shape}
    try:
        opts, fail, ignore = [], None, ()
        victim = a.path(a.disks[0], 'new0')
        if variant == 'file_removed_after_scan':
            opts = ['--test-run', 'env -u LD_PRELOAD rm -f %s' % victim]; ignore = (victim,)
        elif variant == 'file_changed_after_scan':
            opts = ['--test-run', "env -u LD_PRELOAD sh -c 'sleep 0.01; echo changed > %s'" % victim]; ignore = (victim,)
        elif variant == 'file_grown_after_scan':
            opts = ['--test-run', "env -u LD_PRELOAD sh -c 'echo more >> %s'" % victim]; ignore = (victim,)
        elif variant == 'prehash_file_removed':
            opts = ['-h', '--test-run', 'env -u LD_PRELOAD rm -f %s' % victim]; ignore = (victim,)
        elif variant == 'prehash_file_changed':
            opts = ['-h', '--test-run', "env -u LD_PRELOAD sh -c 'sleep 0.01; echo changed > %s'" % victim]; ignore = (victim,)
        elif variant == 'prehash_data_eio':
            opts = ['-h']; fail = 'pread:/d1/new0:1:5'
        elif variant == 'data_eio':
            fail = 'pread:/d1/new0:1:5'
        elif variant == 'parity_pwrite_eio':
            fail = 'pwrite:.parity:1:5'
        elif variant == 'parity_pwrite_eio_late':
            fail = 'pwrite:par1_0.parity:3:28'
        elif variant == 'silent_in_synced_stripe':
            p = a.path(a.disks[1], 'a1'); st0 = os.stat(p)
            with open(p, 'r+b') as f:
                f.seek(3); f.write(b'ZZ')
            os.utime(p, ns=(st0.st_atime_ns, st0.st_mtime_ns))
            opts = ['-F']
        elif variant == 'prehash_unsynced':
            opts = ['-h']
        elif variant == 'prehash_changed_copy':
            # a new file that scan takes as a COPY of a synced one (same name, size, time) but whose bytes differ: pre-hash finds it
            src = a.path(a.disks[1], 'dupA'); st0 = os.stat(src)
            a.write(a.disks[0], 'dupA', rng.randbytes(st0.st_size), mtime_ns=st0.st_mtime_ns)
            opts = ['-h']
        elif variant == 'autosave_unsynced':
            opts = ['--test-force-autosave-at', '1']
        elif variant == 'new_file_unreadable':
            os.chmod(victim, 0)
            if os.geteuid() == 0:
                fail = 'open:/d1/new0:1:13'
        if ignore:
            ignore = tuple(ignore) + (os.path.dirname(victim),)
        one_run(ctx, a, paths, 'sync', opts, 'sync_disturbed:' + variant, replay, fail=fail, ignore=ignore, disturbed=True)
        # the array must still be usable by the next sync (and that one writes no data file either)
        if os.path.exists(victim):
            os.chmod(victim, 0o644)
        one_run(ctx, a, paths, 'sync', [], 'sync_disturbed:' + variant + '+next sync', replay, disturbed=True)
    finally:
        shutil.rmtree(a.root, ignore_errors=True)


def scenario_import(ctx, seed, cmd, cond):
    """check / fix with -i <dir>: files of the import directory are read to recover lost data, never changed"""
    rng = random.Random(seed)
    a = build(ctx, rng, 'healthy')
    paths = L.Paths(a)
    replay = {'seed': seed, 'scenario': 'import', 'command': cmd, 'cond': cond}
    try:
        imp = os.path.join(a.root, 'imp', 'sub')
        os.makedirs(imp)
        # copies (with their time-stamps) of files that are then lost together with more data than parity can rebuild
        lost = [(a.disks[0], 'a0'), (a.disks[1], 'a1'), (a.disks[2], 'a2'), (a.disks[0], 'f0')]
        for d, n in lost[:3]:
            src = a.path(d, n); st0 = os.stat(src)
            dst = os.path.join(imp, 'saved_' + n)
            shutil.copyfile(src, dst); os.utime(dst, ns=(st0.st_mtime_ns, st0.st_mtime_ns))
        open(os.path.join(imp, 'unrelated'), 'wb').write(rng.randbytes(3000))
        for d, n in lost:
            os.unlink(a.path(d, n))
        if os.path.lexists(a.path(a.disks[0], 'hl0')):
            os.unlink(a.path(a.disks[0], 'hl0'))
        one_run(ctx, a, paths, cmd, ['-i', os.path.join(a.root, 'imp')], 'import:' + cond, replay)
    finally:
        shutil.rmtree(a.root, ignore_errors=True)


def scenario_pool_history(ctx, seed, order):
    """pool run again and again along a history in which names change kind between the runs (file -> directory holding files on
    two disks, directory -> file, symlink -> directory, nested paths -> file and back): whatever the previous pool tree looks
    like (stale links in the way of new directories), nothing outside the pool directory is created, changed or removed"""
    rng = random.Random(seed)
    a = Array(ctx.binary, nd=2, np_=1, ncontent=1, shim=ctx.shim, pool=True)
    paths = L.Paths(a)
    replay = {'seed': seed, 'scenario': 'pool_history', 'order': order}
    k = [0]

    def put(d, n, size=600):
        k[0] += 1
        p = a.path(d, n)
        parts = n.split('/')
        for j in range(1, len(parts)):               # an ancestor that is a file or a link now becomes a directory
            ap = a.path(d, '/'.join(parts[:j]))
            if os.path.lexists(ap) and (os.path.islink(ap) or not os.path.isdir(ap)):
                os.unlink(ap)
        if os.path.isdir(p) and not os.path.islink(p):
            shutil.rmtree(p)
        elif os.path.lexists(p):
            os.unlink(p)
        a.write(d, n, rng.randbytes(size + k[0]), mtime_ns=(T0 + 50 * k[0]) * 10**9 + 77 + k[0])

    def rm(d, n):
        p = a.path(d, n)
        if os.path.isdir(p) and not os.path.islink(p):
            shutil.rmtree(p)
        elif os.path.lexists(p):
            os.unlink(p)

    def step(i):
        if i == 0:
            put('d1', 'a'); put('d1', 'k'); put('d2', 'c'); put('d1', 'b/x'); put('d1', 'n/m/f'); put('d2', 'n2'); put('d2', 'deep/er/file')
            os.symlink('c', a.path('d2', 'ln'))
        elif i == 1:      # file -> directory on both disks; symlink -> directory; nested -> file; file -> nested
            rm('d1', 'a'); put('d1', 'a/x'); put('d2', 'a/y')
            rm('d2', 'ln'); put('d2', 'ln/w'); put('d1', 'ln/v')
            rm('d1', 'n'); rm('d2', 'n'); put('d1', 'n')
            rm('d2', 'n2'); put('d2', 'n2/q/r'); put('d1', 'n2/s')
        elif i == 2:      # directory -> file; directory -> symlink; deeper nesting under a former file
            rm('d1', 'b'); rm('d2', 'b'); put('d1', 'b')
            rm('d1', 'a'); rm('d2', 'a'); put('d2', 'a')
            rm('d2', 'deep'); put('d2', 'deep/er/file/now/dir'); put('d1', 'deep/er/other')
            rm('d1', 'n2'); rm('d2', 'n2'); os.symlink('k', a.path('d1', 'n2'))
        elif i == 3:      # back again, other disk
            rm('d2', 'a'); put('d1', 'a/y/z'); put('d2', 'a/y/w')
            rm('d1', 'n'); put('d2', 'n/m/f'); rm('d1', 'ln'); rm('d2', 'ln'); os.symlink('a', a.path('d1', 'ln'))
            rm('d2', 'b'); rm('d1', 'b'); put('d1', 'b/x')
    def resolve_conflicts():
        # a name may be a directory on both disks; any other clash (file / link on one disk, something on the other) cannot be
        # pooled and is not what this family is about: drop the second disk's object
        b1, b2 = a.path('d1', ''), a.path('d2', '')
        for root, dirs, files in os.walk(b2):
            for n in list(dirs) + files:
                p2 = os.path.join(root, n)
                p1 = os.path.join(b1, os.path.relpath(p2, b2))
                if os.path.lexists(p1):
                    d1dir = os.path.isdir(p1) and not os.path.islink(p1)
                    d2dir = os.path.isdir(p2) and not os.path.islink(p2)
                    if not (d1dir and d2dir):
                        if d2dir:
                            shutil.rmtree(p2); dirs.remove(n)
                        else:
                            os.unlink(p2)
    try:
        for i in order:
            step(i)
            resolve_conflicts()
            r = a.run('sync', '--force-empty', '--force-zero')
            if r.rc != 0:
                raise RuntimeError('sync of step %d failed: %r' % (i, r))
            one_run(ctx, a, paths, 'pool', [], 'pool_history step %d of %s' % (i, order), replay)
            if i % 2:
                one_run(ctx, a, paths, 'pool', [], 'pool_history step %d again' % i, replay)
    finally:
        shutil.rmtree(a.root, ignore_errors=True)


def scenario_corpus(ctx, path):
    """regression cases of corpus/C12/*.json (run on every check, first)"""
    c = json.load(open(path))
    rng = random.Random(7)
    a = Array(ctx.binary, nd=c['disks'], np_=c['parity'], ncontent=c['content'], shim=ctx.shim)
    paths = L.Paths(a)
    replay = {'corpus': os.path.basename(path)}

    def put(spec):
        d, n, fill, size, sec, nsec = spec
        data = rng.randbytes(size) if fill == 'random' else fill.encode() * size
        a.write(d, n, data, mtime_ns=sec * 10**9 + nsec)
    try:
        for spec in c['files']:
            put(spec)
        if c.get('sync') and a.run('sync').rc != 0:
            raise RuntimeError('corpus case %s: initial sync failed' % c['name'])
        for spec in c.get('rewrite', []):
            put(spec)
        before = {(d, n): os.stat(a.path(d, n)).st_mtime_ns for d, n in c['expect'].get('untouched', []) + c['expect'].get('touched', [])}
        o = one_run(ctx, a, paths, c['command'][0], c['command'][1:], 'corpus:' + c['name'], replay)
        for d, n in c['expect'].get('untouched', []):
            now = os.stat(a.path(d, n)).st_mtime_ns
            if now != before[(d, n)]:
                ctx.viol('corpus_' + c['name'], 'REGRESSION (%s): `%s` changed the time-stamp of %s:%s from %d to %d ns although its sub-second part was not zero on disk (%s)'
                         % (c['name'], ' '.join(c['command']), d, n, before[(d, n)], now, c['origin']), dict(replay, case=c))
        for d, n in c['expect'].get('touched', []):
            now = os.stat(a.path(d, n)).st_mtime_ns
            if now == before[(d, n)] or now // 10**9 != before[(d, n)] // 10**9:
                ctx.viol('corpus_' + c['name'] + '_t', 'REGRESSION (%s): `%s` did not give %s:%s (on-disk and recorded nanoseconds 0) a sub-second time-stamp within the same second (%d -> %d)'
                         % (c['name'], ' '.join(c['command']), d, n, before[(d, n)], now), dict(replay, case=c))
        if 'diff_after_rc' in c['expect']:
            r1 = a.run('diff')
            if r1.rc != c['expect']['diff_after_rc']:
                ctx.viol('corpus_' + c['name'] + '_d', 'REGRESSION (%s): after `%s` diff exits %d instead of %d: the modification made after the last sync is hidden (%s)'
                         % (c['name'], ' '.join(c['command']), r1.rc, c['expect']['diff_after_rc'], c['origin']), dict(replay, case=c))
    finally:
        shutil.rmtree(a.root, ignore_errors=True)


def main(tier, replay=None):
    chk = Check('C12', tier, 'proof')
    snap = snapshot_repo()
    regen(snap)
    try:
        binary = build_tool(snap)
        shim = build_shim(snap)
    except BuildError as e:
        chk.violation('build', 'working tree does not build: ' + str(e)[:500], {'error': str(e)}, no_input=True)
        return chk.finish()
    ob = check_obligations('C12')
    proof_coverage(chk, ob, 'make -f Makefile.coq -k Props/Properties_C12.vo (coqc 8.16.1) + Print Assumptions',
                   ['Coq 8.16.1 kernel', 'hand model coq/Cmd/CmdModel.v of cmdline/snapraid.c main (command dispatch, need_write discipline) and of the effect sites of sync.c / scrub.c / check.c / touch.c / pool.c',
                    'extraction + ocaml/C12/driver.ml', 'harness/py/c12_lib.py (snapshot, shim log classification, independent precondition summary)',
                    'harness/py/content.py (independent content decoder)', 'harness/c/shim.c (write-set log; calls made through FILE* are covered by the snapshot only)'])
    try:
        model = build_model('Extract/Extract_C12.vo', 'ocaml/C12', 'c12_ext', 'driver.ml', 'model')
    except BuildError as e:
        chk.violation('model_build', 'command model does not build: ' + str(e)[:300], {'error': str(e)}, no_input=True)
        return chk.finish()
    ctx = Ctx(chk, binary, shim, model, tier)
    rng = chk.rng
    thorough = tier == 'thorough'
    shapes = [(3, 2, 2), (2, 1, 1), (3, 3, 2), (4, 2, 3)]
    jobs = []
    import glob as _glob
    for cp in sorted(_glob.glob(os.path.join(VERIF, 'corpus', 'C12', '*.json'))):
        jobs.append((scenario_corpus, (cp,)))
    ncorpus = len(jobs)
    k = 0
    for cond in CONDS_QUICK:
        sh = shapes[0] if not thorough else None
        for shp in ([shapes[0]] if not thorough else shapes):
            jobs.append((scenario_readonly, (rng.getrandbits(30), cond, shp, RO_CMDS)))
            muts = SCRUB_CMDS + SYNC_CMDS + FIX_CMDS + OTHER_CMDS
            if not thorough:
                # quick: every mutating command on every condition, option variants rotated over the conditions
                pick = [SCRUB_CMDS[k % len(SCRUB_CMDS)], SCRUB_CMDS[1], SCRUB_CMDS[(k + 5) % len(SCRUB_CMDS)],
                        SYNC_CMDS[0], SYNC_CMDS[1 + k % (len(SYNC_CMDS) - 1)], SYNC_CMDS[1 + (k + 5) % (len(SYNC_CMDS) - 1)],
                        FIX_CMDS[0], FIX_CMDS[1], FIX_CMDS[2 + k % (len(FIX_CMDS) - 2)], FIX_CMDS[2 + (k + 3) % (len(FIX_CMDS) - 2)],
                        FIX_CMDS[2 + (k + 7) % (len(FIX_CMDS) - 2)]] + OTHER_CMDS
                if cond in ('hardlinks_damaged', 'links_damaged', 'sizes_changed'):
                    pick += [('fix', ['-f', '/hl0', '-f', '/e00']), ('fix', ['-v'])]
                if cond in ('parity_damaged', 'parity_deleted', 'parity_split_missing'):
                    # levels excluded by the filters must stay untouched however wrong (or missing) they are
                    pick += [('fix', ['-d', 'd1']), ('fix', ['-f', '/a0']), ('fix', ['-d', 'd2', '-d', '2-parity']), ('fix', ['-m']), ('fix', ['-e']),
                             ('fix', ['-d', 'parity']), ('check', ['-d', 'd1'])]
                if cond == 'dirs_lost':
                    pick += [('scrub', ['-p', 'full']), ('sync', ['-h']), ('sync', ['-F']), ('fix', ['-d', 'd2']), ('fix', ['-f', '/dir/b0'])]
                if cond == 'file_symlinked':
                    pick += [('fix', ['-e']), ('fix', ['-f', '/a0']), ('fix', ['-f', '/f1']), ('fix', ['-d', 'd1']), ('fix', ['-m']), ('check', []), ('sync', ['-h'])]
                muts = list(dict.fromkeys((c, tuple(o)) for c, o in pick))
            for cmd, opts in muts:
                then = None
                if cmd == 'fix' and (thorough or k % 2 == 0):
                    then = [('check', []), ('status', [])]
                if cmd == 'pool':
                    then = [('pool', [])]
                if cmd == 'scrub':
                    then = [('fix', ['-e'])] if cond in ('damaged', 'parity_damaged') else None
                jobs.append((scenario_mutating, (rng.getrandbits(30), cond, shp, cmd, list(opts), None, then)))
            k += 1
    for i, v in enumerate(FIX_CORNERS):
        for np_ in ([1] if not thorough else [1, 2]):
            jobs.append((scenario_fix_corner, (rng.getrandbits(30), v, np_)))
    for v in SYNC_DISTURB:
        for shp in ([shapes[0]] if not thorough else [shapes[0], shapes[1], shapes[3]]):
            jobs.append((scenario_sync_disturbed, (rng.getrandbits(30), v, shp)))
    for c_, o_, f_ in ((('scrub', ['-p', 'full'], 'pread:/d1/:2:5')), ('scrub', ['-p', 'full'], 'pread:.parity:2:5'), ('scrub', ['-p', 'full', '--test-force-autosave-at', '1'], None),
                       ('scrub', ['-p', 'full'], 'open:/d2/f1:1:5')):
        jobs.append((scenario_mutating, (rng.getrandbits(30), 'healthy', shapes[0], c_, o_, f_, None)))
    for order in ([[0, 1, 2, 3], [0, 2, 1], [0, 3, 1, 2]] if not thorough else [[0, 1, 2, 3], [0, 2, 1, 3], [0, 3, 1, 2], [0, 1, 3, 2, 1], [0, 2, 3, 1, 2, 3]]):
        jobs.append((scenario_pool_history, (rng.getrandbits(30), order)))
    for c in ('fix', 'check'):
        jobs.append((scenario_import, (rng.getrandbits(30), c, 'three files lost, copies in the import directory')))
    # injected read errors: the documented sets hold on runs that end in errors too
    faults = []
    fcmds = [('check', []), ('scrub', ['-p', 'full']), ('sync', []), ('fix', []), ('fix', ['-m']), ('sync', ['-h']), ('check', ['-a'])]
    targets = ['/d1/', '/d2/', '.parity', 'snapraid.content']
    nf = 10 if not thorough else 120
    for i in range(nf):
        cmd, opts = fcmds[i % len(fcmds)]
        cond = ['unsynced', 'damaged', 'disk_emptied', 'healthy', 'parity_damaged', 'links_damaged'][i % 6]
        tgt = targets[(i // 2) % len(targets)]
        kth = 1 + rng.randrange(6)
        faults.append((scenario_mutating, (rng.getrandbits(30), cond, shapes[i % 2], cmd, opts, 'pread:%s:%d:5' % (tgt, kth), None)))
    jobs += faults

    def one(j):
        fn, args = j
        try:
            fn(ctx, *args)
        except Exception as e:
            import traceback
            ctx.viol('harness', 'scenario %s%r crashed: %s' % (fn.__name__, args, traceback.format_exc()[-700:]), {'scenario': fn.__name__, 'args': list(map(str, args))}, no_input=True)
    with cf.ThreadPoolExecutor(max_workers=min(14, NCPU)) as ex:
        list(ex.map(one, jobs))
    chk.cov.update({'evaluations': ctx.runs, 'distinct_nontrivial': ctx.runs,
                    'rule': 'one observed real command per evaluation: commands x array conditions (see by_command / by_condition), each on a freshly built tiny array (mutating commands) or in sequence on one array (read-only commands); every state-changing system call (shim) and every snapshot difference is judged against the documented set of the command by a Python rule table, fix/touch writes path by path against the content record, the filters and the log reports; the extracted model is run on the independent precondition summary of the same run and must give the same exit class and effect class set (undetermined summary fields are enumerated); non-trivial = all runs (each has a non-empty before-state and at least the lock effect)',
                    'scenarios': len(jobs), 'corpus_cases': ncorpus, 'by_command': ctx.by_cmd, 'by_condition': ctx.by_cond, 'runs_with_injected_read_errors': ctx.fault_runs,
                    'state_changing_calls_judged': ctx.effects_seen, 'model_vs_real_comparisons': ctx.model_cmp,
                    'traces_validated_against_impl': ctx.model_cmp})
    chk.cov['samples'] = ctx.samples
    chk.notes += sorted(ctx.notes)
    chk.notes.append('`devices` runs in the sandbox only as far as "Device listing is unsupported in this platform" (no real block devices): its write set is checked (log only, no lock), its listing is not')
    if ob['failed'] and not chk.violations:
        chk.violation('obligation', 'proof obligation of C12 no longer checks: %s' % ob['failed'][0],
                      {'theorem_file': 'coq/Props/Properties_C12.v', 'failed': ob['failed'], 'log_tail': ob['log'][-1500:]}, no_input=True)
    chk.assumptions += ['absent parity file == empty parity file: sync and fix create missing parity files (O_CREAT) before anything else; not counted as an effect',
                        'fix may create missing ancestor directories of a selected recorded object (mkancestor); they are allowed without a report of their own',
                        'atime changes are not observed (data files are opened O_NOATIME when permitted)',
                        'the model gives effect classes; which stripes / blocks are written is the subject of C06 C05 C11',
                        'rehash, up, down, smart and the test-* commands are outside the property text and not modelled',
                        'exercised by the oracle only (the model gives effect classes and an exit class that is enumerated): sync under disturbance (files removed / changed / grown between scan and sync, data read EIO, parity write EIO, silent damage in a recomputed stripe, pre-hash with vanished / changed / unreadable files and with a false copy, autosave), scrub plans even / at / autosave and scrub read errors, check/fix on arrays left by a partial sync (-B) or by a sync killed before its final save (CHG / REP / DELETED blocks), data and parity damaged together, import directories (-i), grown / shortened files, hardlink repair, duplicates, stale pool entries, report variants (-v, -G)',
                        'not exercised: object type swaps (a recorded file now a directory and vice versa: fix bails with a fatal error), inode-collision branch of file_post (tmpfs never reuses inodes), -D / skip_access, --test-expect-*, share option of pool, Windows and out-of-memory branches']
    return chk.finish()
