"""C13 -- results do not depend on thread scheduling or I/O cache depth.

(i)   trace inclusion: the real binary (compiled with -DSNAPRAID_VERIF) runs sync / scrub on small arrays for
      --test-io-cache in {3,4,5,8,32,128} under seeded schedule perturbation; every recorded event trace of the io.c
      hook is replayed with the extracted `step` of coq/Ring/RingModel.v: every event must be accepted (with the
      slot and position the model predicts) and the last state must be final.  An independent oracle in Python
      checks ownership and order directly on the raw trace.  Only when the hook is in the tree.
(ii)  differential: the same array, synced from scratch / incrementally with a silent corruption / scrubbed, with
      --test-io-cache 1,3,4,8,128 under a frozen clock: parity files, content file and error tag multisets equal.
(iii) thorough only: the same scenarios under ThreadSanitizer (a test, not a proof)."""
import os, sys, json, time, shutil, subprocess, signal, collections
from common import *
import c13_trace

FAST = ['--test-skip-device', '--test-skip-self', '--no-warnings', '--test-force-order-alpha']
TRACE_CACHES = [3, 4, 5, 8, 32, 128]
DIFF_CACHES = [1, 3, 4, 8, 128]
FROZEN = 1600000000

SHIM_C = r'''
#define _GNU_SOURCE
#define _LARGEFILE64_SOURCE
#include <time.h>
#include <stdlib.h>
#include <unistd.h>
#include <dlfcn.h>
#include <fcntl.h>
#include <stdarg.h>
#include <string.h>
#include <sys/types.h>
/* frozen clock, and a constant instead of /dev/urandom (the hash seed of a new content file) */
static long shim_ticks;
time_t time(time_t* t) { time_t v = %dL; if (getenv("C13_TICK")) v += ++shim_ticks; if (t) *t = v; return v; }
#include <stdlib.h>
#include <unistd.h>
/* optional slow disk: reads of files whose path contains $C13_SLOW_DIR are delayed by $C13_SLOW_US microseconds,
   so that the reader of that disk finishes last (arrival order of io_data_read differs from the disk order).
   optional faults: $C13_ENOENT_PATH (open fails with ENOENT), $C13_EIO_PATH [+ $C13_EIO_OFF] (pread fails with EIO),
   $C13_WEIO_PATH + $C13_WEIO_OFF (pwrite at that offset fails with EIO) */
#include <errno.h>
static unsigned char shim_fd[4096];
static int shim_has(const char* var, const char* path)
{
	const char* v = getenv(var);
	return v != 0 && *v != 0 && strstr(path, v) != 0;
}
static int shim_open(const char* name, const char* path, int flags, mode_t mode)
{
	int (*real)(const char*, int, ...) = (int (*)(const char*, int, ...))dlsym(RTLD_NEXT, name);
	int fd;
	if (strcmp(path, "/dev/urandom") == 0)
		path = "/dev/zero";
	if (shim_has("C13_ENOENT_PATH", path)) {
		errno = ENOENT;
		return -1;
	}
	fd = real(path, flags, mode);
	if (fd >= 0 && fd < 4096)
		shim_fd[fd] = (shim_has("C13_SLOW_DIR", path) ? 1 : 0) | (shim_has("C13_EIO_PATH", path) ? 2 : 0) | (shim_has("C13_WEIO_PATH", path) ? 4 : 0);
	return fd;
}
static int shim_read_fault(int fd, long long offset)
{
	if (fd >= 0 && fd < 4096 && (shim_fd[fd] & 1)) {
		const char* us = getenv("C13_SLOW_US");
		usleep(us ? atoi(us) : 300);
	}
	if (fd >= 0 && fd < 4096 && (shim_fd[fd] & 2)) {
		const char* off = getenv("C13_EIO_OFF");
		if (!off || !*off || atoll(off) == offset) {
			errno = EIO;
			return 1;
		}
	}
	return 0;
}
static int shim_write_fault(int fd, long long offset)
{
	if (fd >= 0 && fd < 4096 && (shim_fd[fd] & 4)) {
		const char* off = getenv("C13_WEIO_OFF");
		if (off && *off && atoll(off) == offset) {
			errno = EIO;
			return 1;
		}
	}
	return 0;
}
ssize_t pread(int fd, void* buf, size_t count, off_t offset)
{
	ssize_t (*real)(int, void*, size_t, off_t) = (ssize_t (*)(int, void*, size_t, off_t))dlsym(RTLD_NEXT, "pread");
	if (shim_read_fault(fd, offset)) return -1;
	return real(fd, buf, count, offset);
}
ssize_t pread64(int fd, void* buf, size_t count, off64_t offset)
{
	ssize_t (*real)(int, void*, size_t, off64_t) = (ssize_t (*)(int, void*, size_t, off64_t))dlsym(RTLD_NEXT, "pread64");
	if (shim_read_fault(fd, offset)) return -1;
	return real(fd, buf, count, offset);
}
ssize_t pwrite(int fd, const void* buf, size_t count, off_t offset)
{
	ssize_t (*real)(int, const void*, size_t, off_t) = (ssize_t (*)(int, const void*, size_t, off_t))dlsym(RTLD_NEXT, "pwrite");
	if (shim_write_fault(fd, offset)) return -1;
	return real(fd, buf, count, offset);
}
ssize_t pwrite64(int fd, const void* buf, size_t count, off64_t offset)
{
	ssize_t (*real)(int, const void*, size_t, off64_t) = (ssize_t (*)(int, const void*, size_t, off64_t))dlsym(RTLD_NEXT, "pwrite64");
	if (shim_write_fault(fd, offset)) return -1;
	return real(fd, buf, count, offset);
}
int open(const char* path, int flags, ...)
{
	va_list ap; mode_t mode = 0;
	if (flags & O_CREAT) { va_start(ap, flags); mode = va_arg(ap, mode_t); va_end(ap); }
	return shim_open("open", path, flags, mode);
}
#include <sys/vfs.h>
/* constant file-system size and free space (recorded in the content file) */
int statfs(const char* path, struct statfs* st)
{
	int (*real)(const char*, struct statfs*) = (int (*)(const char*, struct statfs*))dlsym(RTLD_NEXT, "statfs");
	int r = real(path, st);
	if (r == 0) { st->f_blocks = 1 << 20; st->f_bfree = 1 << 19; st->f_bavail = 1 << 19; }
	return r;
}
int statfs64(const char* path, struct statfs64* st)
{
	int (*real)(const char*, struct statfs64*) = (int (*)(const char*, struct statfs64*))dlsym(RTLD_NEXT, "statfs64");
	int r = real(path, st);
	if (r == 0) { st->f_blocks = 1 << 20; st->f_bfree = 1 << 19; st->f_bavail = 1 << 19; }
	return r;
}
int open64(const char* path, int flags, ...)
{
	va_list ap; mode_t mode = 0;
	if (flags & O_CREAT) { va_start(ap, flags); mode = va_arg(ap, mode_t); va_end(ap); }
	return shim_open("open64", path, flags, mode);
}
''' % FROZEN


# ------------------------------------------------------------------------------------------------
# arrays

class Array:
    """a template array on disk: nd data disks, np parity levels, 1 KiB blocks"""

    def __init__(self, base, nd, np_, seed, oneblock=0):
        self.base, self.nd, self.np, self.seed = base, nd, np_, seed
        self.tmpl = os.path.join(base, 'tmpl')
        self.work = os.path.join(base, 'work')
        rng = random.Random(seed)
        os.makedirs(os.path.join(self.tmpl, 'p'))
        self.files = []
        for d in range(nd):
            dd = os.path.join(self.tmpl, 'd%d' % d)
            os.makedirs(dd)
            blocks = 0
            target = rng.randrange(18, 38)
            k = 0
            while (k < oneblock) if oneblock else (blocks < target):
                sz = 1024 if oneblock else rng.choice([0, 1, 500, 1024, 1025, 2048, 3000, 4096, 5000, 7000])
                p = os.path.join(dd, 'f%02d' % k)
                with open(p, 'wb') as f:
                    f.write(bytes(rng.getrandbits(8) for _ in range(sz)))
                os.utime(p, (1500000000 + k, 1500000000 + k))
                self.files.append(('d%d/f%02d' % (d, k), sz))
                blocks += (sz + 1023) // 1024
                k += 1
            self.nblocks = max(getattr(self, 'nblocks', 0), blocks)
        names = ['parity', '2-parity', '3-parity', '4-parity', '5-parity', '6-parity']
        conf = 'blocksize 1\n'
        for l in range(np_):
            conf += '%s %s/p/par%d\n' % (names[l], self.work, l)
        conf += 'content %s/p/content\n' % self.work
        for d in range(nd):
            conf += 'data d%d %s/d%d\n' % (d, self.work, d)
        with open(os.path.join(self.tmpl, 'conf'), 'w') as f:
            f.write(conf)

    def fresh(self):
        shutil.rmtree(self.work, ignore_errors=True)
        shutil.copytree(self.tmpl, self.work, copy_function=shutil.copy2)
        for d in range(self.nd):           # directory mtimes too
            os.utime(os.path.join(self.work, 'd%d' % d), (1500000000, 1500000000))

    def mutate(self):
        """deterministic second generation: rewrite / delete / add files, plus one silent corruption"""
        rng = random.Random(self.seed * 7 + 1)
        info = {'rewritten': [], 'corrupted': None}
        byd = collections.defaultdict(list)
        for name, sz in self.files:
            byd[name.split('/')[0]].append((name, sz))
        for d in sorted(byd):
            cand = [x for x in byd[d] if x[1] >= 1024]
            for name, sz in rng.sample(cand, min(2, len(cand))):
                p = os.path.join(self.work, name)
                with open(p, 'wb') as f:
                    f.write(bytes(rng.getrandbits(8) for _ in range(sz)))
                os.utime(p, (1500001000, 1500001000))
                info['rewritten'].append(name)
        # silent corruption of an untouched file of the first disk (same size, same mtime)
        cand = [x for x in byd['d0'] if x[1] >= 2048 and x[0] not in info['rewritten']]
        if cand:
            name, sz = cand[0]
            p = os.path.join(self.work, name)
            st = os.stat(p)
            with open(p, 'r+b') as f:
                f.seek(1500)
                b = f.read(1)
                f.seek(1500)
                f.write(bytes([b[0] ^ 0x40]))
            os.utime(p, ns=(st.st_atime_ns, st.st_mtime_ns))
            info['corrupted'] = name
        # one file deleted on the second disk (its blocks are deallocated by the sync while the readers run)
        cand = [x for x in byd['d1'] if x[1] >= 1024 and x[0] not in info['rewritten']]
        if cand:
            os.remove(os.path.join(self.work, cand[-1][0]))
            info['deleted'] = cand[-1][0]
        # one new file on the last disk
        p = os.path.join(self.work, 'd%d' % (self.nd - 1), 'new')
        with open(p, 'wb') as f:
            f.write(bytes(rng.getrandbits(8) for _ in range(2500)))
        os.utime(p, (1500002000, 1500002000))
        for d in range(self.nd):
            os.utime(os.path.join(self.work, 'd%d' % d), (1500000000, 1500000000))
        return info

    def conf(self):
        return os.path.join(self.work, 'conf')

    def snapshot(self):
        out = {}
        for l in range(self.np):
            p = os.path.join(self.work, 'p', 'par%d' % l)
            out['par%d' % l] = hashlib.sha256(open(p, 'rb').read()).hexdigest() if os.path.exists(p) else None
        p = os.path.join(self.work, 'p', 'content')
        out['content'] = hashlib.sha256(open(p, 'rb').read()).hexdigest() if os.path.exists(p) else None
        return out


def run_tool(tool, arr, cache, cmd, env_extra=None, timeout=60, sigint_after=None, log=True, opts=()):
    """returns (rc or 'timeout', stdout, sorted relevant log lines)"""
    env = dict(os.environ)
    env.pop('SNAPRAID_VERIF_TRACE', None)
    env.pop('SNAPRAID_VERIF_YIELD', None)
    if env_extra:
        env.update(env_extra)
    logp = os.path.join(arr.base, 'log')
    if os.path.exists(logp):
        os.remove(logp)
    argv = [tool] + FAST + list(opts) + (['--test-io-cache', str(cache)] if cache is not None else []) + ['-c', arr.conf()] + (['-l', logp] if log else []) + cmd
    p = subprocess.Popen(argv, stdout=subprocess.PIPE, stderr=subprocess.STDOUT, text=True, errors='replace', env=env)
    try:
        if sigint_after is not None:
            time.sleep(sigint_after)
            p.send_signal(signal.SIGINT)
        out, _ = p.communicate(timeout=timeout)
        rc = p.returncode
    except subprocess.TimeoutExpired:
        p.kill()
        out, _ = p.communicate()
        rc = 'timeout'
    tags = []
    if log and os.path.exists(logp):
        for l in open(logp, errors='replace'):
            if l.startswith(('error:', 'summary:', 'outofparity', 'hash_error', 'parity_error', 'unrecoverable', 'recovered', 'fixed', 'status:')):
                tags.append(l.rstrip('\n'))
    return rc, out, sorted(tags)


# ------------------------------------------------------------------------------------------------
# independent oracle on the raw trace (does not use the Coq model)

def oracle(sess):
    """ownership and order checked directly on the events of one session; returns list of problems"""
    probs = []
    n, bmax, R, W, poss = sess['n'], sess['bmax'], sess['R'], sess['W'], sess['poss']
    openr = {}          # reader -> slot it is inside worker->func on
    openw = {}
    handed = []
    wnext = []
    wbegin = collections.defaultdict(list)
    cur_slot = None     # slot of the stripe the caller works on
    collected = set()
    for actor, kind, slot, pos in sess['events']:
        if actor == 'C':
            if kind == 'read_next':
                # io_reader_sched rewrote the previous reader_index slot = (slot - 1) mod n
                prev = (slot - 1) % n
                for w, s in openr.items():
                    if s == prev:
                        probs.append('io_reader_sched rewrote slot %d while reader %d was working on it' % (prev, w))
                if pos < bmax:
                    handed.append(pos)
                cur_slot = slot
                collected = set()
            elif kind in ('write_next', 'write_skip'):
                for w, s in openw.items():
                    if s == slot:
                        probs.append('io_writer_sched rewrote slot %d while writer %d was working on it' % (slot, w))
                if kind == 'write_next':
                    wnext.append(pos)
                cur_slot = None
        else:
            side, w = actor[0], int(actor[1:])
            if kind == 'begin':
                if side == 'R':
                    if pos < bmax:
                        openr[w] = slot
                        if slot == cur_slot and w in collected:
                            probs.append('reader %d starts reading into slot %d after the caller collected it' % (w, slot))
                else:
                    openw[w] = slot
                    wbegin[w].append(pos)
                    if slot == cur_slot:
                        probs.append('writer %d writes from slot %d while the caller works on it' % (w, slot))
            elif kind == 'end':
                (openr if side == 'R' else openw).pop(w, None)
            elif kind == 'collected':
                if side == 'R':
                    collected.add(w)
                    if openr.get(w) == slot:
                        probs.append('caller collected reader %d at slot %d while the reader was still reading into it' % (w, slot))
                    if pos != (handed[-1] if handed else None):
                        probs.append('caller collected reader %d with position %d instead of %s' % (w, pos, handed[-1:] or None))
    complete = any(a == 'C' and k == 'read_next' and p >= bmax for a, k, s, p in sess['events'])
    if handed != poss[:len(handed)] or (complete and handed != poss):
        probs.append('positions handed to the caller %s are not the enabled positions %s in order' % (handed[:12], poss[:12]))
    joined = any(a == 'C' and k == 'join' for a, k, s, p in sess['events'])
    for w in range(W):
        if wbegin[w] != wnext[:len(wbegin[w])] or (joined and wbegin[w] != wnext):
            probs.append('writer %d wrote positions %s, io_write_next scheduled %s' % (w, wbegin[w][:12], wnext[:12]))
    return probs


# ------------------------------------------------------------------------------------------------

def cross_session(sessions, complete_expected):
    """one process, several ring sessions back to back (autosave: io_stop, save, io_start at the next block): every
    enabled position of the first session is handed to the caller and passed to io_write_next exactly once and in
    order ACROSS the sessions; each later session starts right after the last position processed"""
    probs = []
    if not sessions:
        return probs
    full, bmax, W = sessions[0]['poss'], sessions[0]['bmax'], sessions[0]['W']
    handed, wn = [], []
    complete = False
    for i, s in enumerate(sessions):
        if i > 0:
            exp = [p for p in full if not handed or p > handed[-1]]
            if s['poss'] != exp:
                probs.append('session %d is started on positions %s..., expected the positions after %s: %s...' % (i + 1, s['poss'][:6], handed[-1:] or None, exp[:6]))
        complete = False
        for actor, kind, slot, pos in s['events']:
            if actor == 'C' and kind == 'read_next':
                if pos < bmax:
                    handed.append(pos)
                else:
                    complete = True
            elif actor == 'C' and kind in ('write_next', 'write_skip'):
                wn.append(pos)
    for nm, got in (('handed to the caller', handed),) + ((('passed to io_write_next', wn),) if W > 0 else ()):
        if got != full[:len(got)]:
            k = next(i for i in range(len(got)) if i >= len(full) or got[i] != full[i])
            probs.append('over %d sessions the positions %s are %s..., not the enabled positions %s... in order (a stripe lost or repeated at a restart)' % (len(sessions), nm, got[max(0, k - 2):k + 3], full[max(0, k - 2):k + 3]))
        elif complete and complete_expected and got != full:
            probs.append('over %d sessions only %d of the %d enabled positions were %s' % (len(sessions), len(got), len(full), nm))
    if complete_expected and not complete:
        probs.append('the last session does not reach the end of the range')
    return probs


def hook_present(snap):
    try:
        return 'verif_io_event' in open(os.path.join(snap, 'cmdline', 'io.c'), errors='replace').read()
    except OSError:
        return False


def trace_runs(chk, tool, model, arrays, caches, seeds, with_sigint):
    """run the scenarios with the hook active; returns stats"""
    stats = {'runs': 0, 'sessions': 0, 'events': 0, 'spurious': 0, 'bailed_sessions': 0, 'rejected': 0, 'by_cache': collections.Counter(),
             'distinct': set()}
    items = []      # (descr, session)
    tracep = None
    for arr in arrays:
        tracep = os.path.join(arr.base, 'trace')
        for cache in caches:
            for seed in seeds:
                arr.fresh()
                steps = [('sync', ['sync']), ('mutate', None), ('sync2', ['sync']), ('scrub_full', ['scrub', '-p', 'full']),
                         ('scrub_part', ['scrub', '-p', '40', '-o', '0']), ('scrub_bad', ['scrub', '-p', 'bad']), ('dry', ['test-dry'])]
                ks = [1, max(1, arr.nblocks // 2), max(1, arr.nblocks - 1)]
                ksel = ks[(seed + cache) % 3]
                steps.insert(0, ('sync_autosave', ['sync']))
                if with_sigint and seed == seeds[0]:
                    steps.insert(0, ('sync_sigint', ['sync']))
                for name, cmd in steps:
                    if cmd is None:
                        arr.mutate()
                        continue
                    opts = ['--test-force-autosave-at', str(ksel)] if name == 'sync_autosave' else []
                    if os.path.exists(tracep):
                        os.remove(tracep)
                    env = {'SNAPRAID_VERIF_TRACE': tracep, 'SNAPRAID_VERIF_YIELD': str(seed * 131 + cache)}
                    sig = None
                    if name == 'sync_sigint':
                        sig = 0.004 + 0.003 * chk.rng.random()
                    rc, out, tags = run_tool(tool, arr, cache, cmd, env, timeout=30, sigint_after=sig, log=False, opts=opts)
                    descr = {'array': {'nd': arr.nd, 'np': arr.np, 'seed': arr.seed}, 'step': name, 'cmd': opts + cmd, 'io_cache': cache,
                             'yield_seed': seed * 131 + cache}
                    stats['runs'] += 1
                    if rc == 'timeout':
                        chk.violation('hang_%s_n%d_s%d' % (name, cache, seed),
                                      'snapraid %s with --test-io-cache %d does not terminate under schedule seed %d (30 s): deadlock or lost wake-up' % (' '.join(cmd), cache, seed),
                                      dict(descr, output=out[-2000:], trace=open(tracep).read()[-20000:] if os.path.exists(tracep) else None))
                        stats['hang'] = True
                        return stats        # a hang is decisive, and every further run would cost another timeout
                    if name == 'sync_sigint':
                        arr.fresh()         # whatever happened, restart from the template
                    elif name == 'sync_autosave':
                        arr.fresh()
                        if rc != 0:
                            chk.violation('rc_%s_n%d_s%d' % (name, cache, seed), 'snapraid %s with --test-io-cache %d exits with %s' % (' '.join(opts + cmd), cache, rc), dict(descr, output=out[-3000:]))
                    elif rc not in (0,) and not (name in ('sync2', 'scrub_full', 'scrub_part', 'scrub_bad') and rc == 1):
                        chk.violation('rc_%s_n%d_s%d' % (name, cache, seed),
                                      'snapraid %s with --test-io-cache %d exits with %s under schedule seed %d: %s' % (' '.join(cmd), cache, rc, seed, out.strip().split('\n')[-1][:200]),
                                      dict(descr, output=out[-3000:]))
                    if not os.path.exists(tracep):
                        if name != 'sync_sigint':
                            chk.violation('notrace_%s_n%d' % (name, cache), 'the hook wrote no trace for %s --test-io-cache %d' % (name, cache), descr, no_input=True)
                        continue
                    try:
                        sessions = c13_trace.parse_sessions(open(tracep).read())
                    except c13_trace.TraceError as e:
                        chk.violation('trace_%s_n%d' % (name, cache), 'MODEL-DRIFT: unreadable hook trace: %s' % e, descr, no_input=True)
                        continue
                    if len(sessions) > 1:
                        stats['multi_session_traces'] = stats.get('multi_session_traces', 0) + 1
                    if name == 'sync_autosave' and len(sessions) < 2:
                        chk.violation('autosave_%s_n%d' % (name, cache), 'MODEL-DRIFT: sync --test-force-autosave-at %d ran %d ring session(s); the check expects a stop/start at the autosave' % (ksel, len(sessions)), descr, no_input=True)
                    for pr in cross_session(sessions, name != 'sync_sigint')[:1]:
                        chk.violation('order_%s_n%d_s%d' % (name, cache, seed), 'io.c/sync.c: %s (snapraid %s, --test-io-cache %d, schedule seed %d)' % (pr, ' '.join(opts + cmd), cache, seed * 131 + cache),
                                      dict(descr, sessions=[{'poss': x['poss'], 'events': len(x['events'])} for x in sessions]))
                    for s in sessions:
                        items.append((descr, s))
    # replay with the extracted model
    lines = []
    for descr, s in items:
        try:
            lines.append(c13_trace.replay_line(s))
        except c13_trace.TraceError as e:
            lines.append('bad ' + str(e))
    outs = run_lines(model, lines) if lines else []
    for (descr, s), line, out in zip(items, lines, outs):
        stats['sessions'] += 1
        stats['events'] += len(s['events'])
        stats['by_cache'][s['n']] += 1
        stats['distinct'].add((s['n'], s['R'], s['W'], len(s['poss']), descr['step'], descr['yield_seed']))
        probs = oracle(s)
        tag = '%s_n%d_y%d_a%d' % (descr['step'], s['n'], descr['yield_seed'], descr['array']['seed'])
        rep = dict(descr, session={'n': s['n'], 'R': s['R'], 'W': s['W'], 'bmax': s['bmax'], 'poss': s['poss']},
                   trace=['%s %s %d %d' % e for e in s['events']][:6000], model_line=line[:200000], model_out=out)
        if probs:
            chk.violation('own_' + tag, 'io.c ring: %s (snapraid %s, --test-io-cache %d, schedule seed %d)' % (probs[0], ' '.join(descr['cmd']), s['n'], descr['yield_seed']),
                          dict(rep, problems=probs))
            continue
        f = out.split()
        kv = dict(x.split('=', 1) for x in f[1:] if '=' in x)
        if f and f[0] == 'ok' and kv.get('final') == '1':
            stats['spurious'] += int(kv.get('spurious', 0))
            if any(w.startswith('CB:') for w in line.split(';')[-1].split()):
                stats['bailed_sessions'] += 1
            continue
        stats['rejected'] += 1
        if f and f[0] == 'ok':
            what = 'the trace ends in a non-final state of the model (threads not joined)'
        elif f and f[0] == 'rej':
            k = int(kv.get('accepted', 0))
            what = 'event #%d (%s) is not a step of the model' % (k, kv.get('event'))
        else:
            what = 'replay failed: %s' % out[:200]
        chk.violation('trace_' + tag,
                      'MODEL-DRIFT or protocol change: io.c trace of snapraid %s (--test-io-cache %d, schedule seed %d) is rejected by the ring model: %s; '
                      'the independent oracle sees no ownership/order violation in this trace' % (' '.join(descr['cmd']), s['n'], descr['yield_seed'], what),
                      rep, no_input=True)
    return stats


class Hang(Exception):
    pass


def differential(chk, tool, shim, arrays, caches, tier):
    """same array, different cache depths, frozen clock: everything observable must be equal"""
    env = {'LD_PRELOAD': shim} if shim else {}
    stats = {'comparisons': 0, 'arrays': len(arrays), 'error_tags_seen': 0}
    for arr in arrays:
        # the data files are the same inodes for every cache depth (the content file records inodes); only the
        # parity/content directory is reset between the variants of one step
        arr.fresh()
        pdir = os.path.join(arr.work, 'p')
        results = {c: [] for c in caches}

        def reset(saved):
            shutil.rmtree(pdir)
            if saved:
                shutil.copytree(saved, pdir, copy_function=shutil.copy2)
            else:
                os.makedirs(pdir)

        def step(name, cmd, saved, save_as):
            for cache in caches:
                reset(saved)
                rc, out, tags = run_tool(tool, arr, cache, cmd, env, timeout=30)
                if rc == 'timeout':
                    chk.violation('hang_diff_%s_%d_a%d' % (name, cache, arr.seed),
                                  'snapraid %s with --test-io-cache %d does not terminate (30 s): deadlock or lost wake-up' % (' '.join(cmd), cache),
                                  {'array': {'nd': arr.nd, 'np': arr.np, 'seed': arr.seed}, 'step': name, 'io_cache': cache, 'output': out[-2000:]})
                    raise Hang()
                results[cache].append((name, rc, tags, arr.snapshot()))
                if cache == caches[0]:
                    shutil.rmtree(save_as, ignore_errors=True)
                    shutil.copytree(pdir, save_as, copy_function=shutil.copy2)
        sa, sb, sc = (os.path.join(arr.base, x) for x in ('saveA', 'saveB', 'saveC'))
        try:
            step('sync', ['sync'], None, sa)
            reset(sa)
            arr.mutate()
            step('sync_after_change_and_silent_corruption', ['sync'], sa, sb)
            step('scrub_full', ['scrub', '-p', 'full'], sb, sc)
        except Hang:
            stats['hang'] = True
            return stats
        ref = results[caches[0]]
        stats['error_tags_seen'] += sum(1 for st in ref for t in st[2] if t.startswith('error:'))
        for cache in caches[1:]:
            for a, b in zip(ref, results[cache]):
                stats['comparisons'] += 1
                descr = {'array': {'nd': arr.nd, 'np': arr.np, 'seed': arr.seed}, 'step': a[0], 'io_cache_a': caches[0], 'io_cache_b': cache,
                         'frozen_time': FROZEN}
                if a[1] != b[1]:
                    chk.violation('diff_rc_%s_%d_a%d' % (a[0], cache, arr.seed), '%s: exit status %s with --test-io-cache %d but %s with %d' % (a[0], a[1], caches[0], b[1], cache), dict(descr, a=a, b=b))
                elif a[2] != b[2]:
                    da = [t for t in a[2] if t not in b[2]][:3]
                    db = [t for t in b[2] if t not in a[2]][:3]
                    chk.violation('diff_tags_%s_%d_a%d' % (a[0], cache, arr.seed),
                                  '%s: the multiset of error/summary tags differs between --test-io-cache %d and %d: only in first %s, only in second %s' % (a[0], caches[0], cache, da, db),
                                  dict(descr, a=a, b=b))
                elif a[3] != b[3]:
                    diff = [k for k in a[3] if a[3][k] != b[3][k]]
                    chk.violation('diff_state_%s_%d_a%d' % (a[0], cache, arr.seed),
                                  '%s: %s differ between --test-io-cache %d and %d (same input, frozen clock)' % (a[0], ', '.join(diff), caches[0], cache), dict(descr, a=a, b=b))
    return stats


def _rewrite(path, data, mtime):
    with open(path, 'wb') as f:
        f.write(data)
    os.utime(path, (mtime, mtime))


def _flip(path, off=300):
    st = os.stat(path)
    with open(path, 'r+b') as f:
        f.seek(off)
        b = f.read(1)
        f.seek(off)
        f.write(bytes([b[0] ^ 0x55]))
    os.utime(path, ns=(st.st_atime_ns, st.st_mtime_ns))


def diff_rehash(chk, tool, shim, base, rng, caches=(1, 3, 8, 128)):
    """pending rehash + changed files, synced under different cache depths and reader arrival orders:
    the content file (block hashes, rehash flags) must be the same and a following check must be clean"""
    stats = {'variants': 0, 'check_runs': 0}
    env0 = {'LD_PRELOAD': shim} if shim else {}
    d = os.path.join(base, 'arr_rehash')
    os.makedirs(d)
    arr = Array(d, 3, 2, rng.randrange(1, 10 ** 6))
    arr.fresh()
    pdir = os.path.join(arr.work, 'p')
    descr0 = {'array': {'nd': arr.nd, 'np': arr.np, 'seed': arr.seed}, 'scenario': 'sync --test-force-murmur3; rehash --test-force-spooky2; rewrite files of d1, add a file to d2; sync'}
    rc, out, tags = run_tool(tool, arr, 1, ['sync'], env0, opts=['--test-force-murmur3'])
    rc2, out2, tags2 = run_tool(tool, arr, 1, ['rehash'], env0, opts=['--test-force-spooky2'])
    if rc != 0 or rc2 != 0:
        chk.notes.append('rehash scenario could not be prepared (sync rc %s, rehash rc %s: %s)' % (rc, rc2, out2.strip().split('\n')[-1][:200]))
        return stats
    modes = [('plain', {})] + [('yield%d' % y, {'SNAPRAID_VERIF_YIELD': str(y)}) for y in (1, 2, 3)] + \
            [('slow_d%d' % k, {'C13_SLOW_DIR': '/work/d%d/' % k, 'C13_SLOW_US': '400'}) for k in range(arr.nd)]

    def loop(cmd, save, label, check=True):
        ref = None
        for cache in caches:
            for mname, menv in modes:
                if cache == 1 and mname != 'plain':
                    continue
                shutil.rmtree(pdir)
                shutil.copytree(save, pdir, copy_function=shutil.copy2)
                env = dict(env0)
                env.update(menv)
                rc, out, tags = run_tool(tool, arr, cache, cmd, env, timeout=30)
                snap_ = arr.snapshot()
                crc, cout, ctags = run_tool(tool, arr, 1, ['check'], env0, timeout=30)
                stats['variants'] += 1
                stats['check_runs'] += 1
                descr = dict(descr0, io_cache=cache, mode=mname, env=menv)
                cerr = [t for t in ctags if t.startswith(('error:', 'parity_error', 'unrecoverable'))]
                if rc == 'timeout' or crc == 'timeout':
                    chk.violation('hang_diff_rehash_%d_%s' % (cache, mname), label + '/check with a pending rehash does not terminate (--test-io-cache %d, %s)' % (cache, mname), descr)
                    raise Hang()
                if check and rc == 0 and (crc != 0 or cerr):
                    chk.violation('diff_rehash_check_%d_%s' % (cache, mname),
                                  label + ' with a pending rehash (--test-io-cache %d, reader order %s) reports success but the following check fails: rc %s, %s'
                                  % (cache, mname, crc, (cerr or [cout.strip().split('\n')[-1]])[:2]), dict(descr, check_tags=ctags[:20], sync_tags=tags[:20]))
                cur_ = (rc, tags, snap_)
                if ref is None:
                    ref = (cur_, cache, mname)
                elif cur_ != ref[0]:
                    what = 'exit status' if rc != ref[0][0] else ('error tags' if tags != ref[0][1] else ', '.join(k for k in snap_ if snap_[k] != ref[0][2][k]))
                    chk.violation('diff_rehash_state_%d_%s' % (cache, mname),
                                  label + ' with a pending rehash: %s differ between (--test-io-cache %d, %s) and (--test-io-cache %d, %s): block hashes / rehash flags depend on the reader arrival order'
                                  % (what, ref[1], ref[2], cache, mname), dict(descr, a=ref[0], b=cur_))

    try:
        save0 = os.path.join(arr.base, 'save_rehash0')
        shutil.copytree(pdir, save0, copy_function=shutil.copy2)
        loop(['scrub', '-p', 'full'], save0, 'scrub')
        shutil.rmtree(pdir)
        shutil.copytree(save0, pdir, copy_function=shutil.copy2)
        r2 = random.Random(arr.seed + 5)
        mine = [n for n, sz in arr.files if n.startswith('d1/') and sz >= 1024]
        for name in mine[:3]:
            sz = dict(arr.files)[name]
            _rewrite(os.path.join(arr.work, name), bytes(r2.getrandbits(8) for _ in range(sz)), 1500003000)
        _rewrite(os.path.join(arr.work, 'd2', 'new'), bytes(r2.getrandbits(8) for _ in range(9000)), 1500003000)
        for k in range(arr.nd):
            os.utime(os.path.join(arr.work, 'd%d' % k), (1500000000, 1500000000))
        save = os.path.join(arr.base, 'save_rehash')
        shutil.copytree(pdir, save, copy_function=shutil.copy2)
        loop(['sync'], save, 'sync')
        loop(['sync', '-h'], save, 'sync -h')
        # silent errors of unchanged d0 files recovered by the sync while the rehash is pending (no clean check expected)
        for name in [n for n, sz in arr.files if n.startswith('d0/') and sz >= 1024][:6]:
            _flip(os.path.join(arr.work, name), 100)
        loop(['sync'], save, 'sync over silent errors', check=False)
    except Hang:
        stats['hang'] = True
    return stats


def diff_scrub_touch(chk, tool, shim, base, rng, caches=(1, 3, 4, 5, 8, 128)):
    """scrub of an array with files touched / modified since the sync plus silent errors at every distance 1..10
    from the touched file on the same disk: summary counters, error tags and bad marks must not depend on the depth"""
    stats = {'variants': 0}
    env0 = {'LD_PRELOAD': shim} if shim else {}
    nfiles = 14
    for nd in (1, 2):
        d = os.path.join(base, 'arr_touch%d' % nd)
        os.makedirs(d)
        arr = Array(d, nd, 1, rng.randrange(1, 10 ** 6), oneblock=nfiles)
        arr.fresh()
        pdir = os.path.join(arr.work, 'p')
        rc, out, tags = run_tool(tool, arr, 1, ['sync'], env0)
        if rc != 0:
            chk.notes.append('touch scenario could not be prepared (sync rc %s)' % rc)
            continue
        corrupted = list(range(1, 11))
        for k in range(nd):
            p0 = os.path.join(arr.work, 'd%d' % k, 'f00')
            os.utime(p0, (1500009000, 1500009000))                  # touched: same content, new mtime
        for i in corrupted:
            _flip(os.path.join(arr.work, 'd0', 'f%02d' % i))          # silent errors at distance 1..10 from the touched file
        r2 = random.Random(arr.seed)
        _rewrite(os.path.join(arr.work, 'd0', 'f%02d' % (nfiles - 1)), bytes(r2.getrandbits(8) for _ in range(1024)), 1500009500)   # really modified
        for k in range(nd):
            os.utime(os.path.join(arr.work, 'd%d' % k), (1500000000, 1500000000))
        save = os.path.join(arr.base, 'save_touch')
        shutil.copytree(pdir, save, copy_function=shutil.copy2)
        descr0 = {'array': {'nd': nd, 'np': 1, 'seed': arr.seed, 'one_block_files_per_disk': nfiles},
                  'scenario': 'sync; touch f00 on every disk; flip one byte (same size and mtime) in d0/f01..f10; rewrite d0/f13; scrub -p full'}
        ref = None
        for cache in caches:
            shutil.rmtree(pdir)
            shutil.copytree(save, pdir, copy_function=shutil.copy2)
            rc, out, tags = run_tool(tool, arr, cache, ['scrub', '-p', 'full'], env0, timeout=30)
            stats['variants'] += 1
            descr = dict(descr0, io_cache=cache)
            if rc == 'timeout':
                chk.violation('hang_diff_touch_%d' % cache, 'scrub does not terminate (--test-io-cache %d)' % cache, descr)
                return stats
            summ = dict(t.split(':')[1:3] for t in tags if t.startswith('summary:error_'))
            # independent expectation: every silently corrupted block of an untouched file is a data (silent) error,
            # the rewritten file is a file error, the touched-but-identical file is no error
            if summ.get('error_data') != str(len(corrupted)) or summ.get('error_file') != '1':
                chk.violation('diff_touch_count_%d_nd%d' % (cache, nd),
                              'scrub --test-io-cache %d: %d silently corrupted blocks of unmodified files and 1 modified file are reported as error_data=%s error_file=%s '
                              '(a silent error is classified by the time-stamp state of ANOTHER file that used the same ring slot)'
                              % (cache, len(corrupted), summ.get('error_data'), summ.get('error_file')), dict(descr, tags=tags[:40]))
            cur_ = (rc, tags, arr.snapshot())
            if ref is None:
                ref = (cur_, cache)
            elif cur_ != ref[0]:
                what = 'exit status' if rc != ref[0][0] else ('error/summary tags' if tags != ref[0][1] else 'content file (bad marks)')
                chk.violation('diff_touch_state_%d_nd%d' % (cache, nd),
                              'scrub with touched files and silent errors: %s differ between --test-io-cache %d and %d' % (what, ref[1], cache), dict(descr, a=ref[0], b=cur_))
    return stats


def bad_marks(tool, arr, env):
    """positions marked bad in the saved info, read back through `status -G -l`"""
    logp = os.path.join(arr.base, 'log_status')
    if os.path.exists(logp):
        os.remove(logp)
    e = dict(os.environ)
    e.update(env)
    subprocess.run([tool] + FAST + ['-G', '-c', arr.conf(), '-l', logp, 'status'], stdout=subprocess.DEVNULL, stderr=subprocess.DEVNULL, env=e, timeout=60)
    bad = []
    if os.path.exists(logp):
        for l in open(logp, errors='replace'):
            f = l.rstrip('\n').split(':')
            if f[0] == 'block' and len(f) >= 6 and f[5] == 'bad':
                bad.append(int(f[1]))
    return sorted(bad)


def diff_scrub_cross(chk, tool, shim, base, rng, caches=(1, 3, 8, 128)):
    """scrub of stripes shared by an unsynced-by-timestamp (touched) file of one disk and a silently corrupted synced
    block of ANOTHER disk, both disk orders: the classification of a block may depend only on its own disk.  Compared
    across cache depths and reader arrival orders, and against the expected classification."""
    stats = {'variants': 0}
    env0 = {'LD_PRELOAD': shim} if shim else {}
    nfiles = 12
    for np_ in (1, 2):
        d = os.path.join(base, 'arr_cross%d' % np_)
        os.makedirs(d)
        arr = Array(d, 3, np_, rng.randrange(1, 10 ** 6), oneblock=nfiles)
        arr.fresh()
        pdir = os.path.join(arr.work, 'p')
        rc, out, tags = run_tool(tool, arr, 1, ['sync'], env0)
        if rc != 0:
            chk.notes.append('cross scenario could not be prepared (sync rc %s)' % rc)
            continue
        # (stripe, touched disks, corrupted disk)
        plan = [(2, [0], 1), (5, [2], 1), (8, [0], 2), (9, [1, 2], 0), (10, [], 1)]
        for stripe, touched, cor in plan:
            for k in touched:
                os.utime(os.path.join(arr.work, 'd%d' % k, 'f%02d' % stripe), (1500009000 + stripe, 1500009000 + stripe))
            _flip(os.path.join(arr.work, 'd%d' % cor, 'f%02d' % stripe))
        for k in range(arr.nd):
            os.utime(os.path.join(arr.work, 'd%d' % k), (1500000000, 1500000000))
        # silent corruption of the PARITY: stripe 11 (nobody touched: silent error, bad mark) and stripe 6 (d0/f06
        # touched: the stripe is unsynced by time-stamp, a parity mismatch is an expected error, no bad mark)
        os.utime(os.path.join(arr.work, 'd0', 'f06'), (1500009006, 1500009006))
        with open(os.path.join(pdir, 'par0'), 'r+b') as f:
            for st_ in (6, 11):
                f.seek(st_ * 1024 + 33)
                b = f.read(1)
                f.seek(st_ * 1024 + 33)
                f.write(bytes([b[0] ^ 0x21]))
        for k in range(arr.nd):
            os.utime(os.path.join(arr.work, 'd%d' % k), (1500000000, 1500000000))
        exp_bad = sorted([st_ for st_, _, _ in plan] + [11])
        exp_err = sorted('%d:d%d:f%02d' % (st_, cor, st_) for st_, _, cor in plan)
        exp_perr = ['11:parity', '6:parity']
        n_silent, n_file = len(plan) + 1, 1
        save = os.path.join(arr.base, 'save_cross')
        shutil.copytree(pdir, save, copy_function=shutil.copy2)
        descr0 = {'array': {'nd': 3, 'np': np_, 'seed': arr.seed, 'one_block_files_per_disk': nfiles},
                  'scenario': 'sync; per stripe (stripe, touched disks, silently corrupted disk) = %s; scrub -p full' % plan}
        modes = [('plain', {})] + [('yield%d' % y, {'SNAPRAID_VERIF_YIELD': str(y)}) for y in (1, 2, 3)] + \
                [('slow_d%d' % k, {'C13_SLOW_DIR': '/work/d%d/' % k, 'C13_SLOW_US': '400'}) for k in range(arr.nd)]
        ref = None
        for cache in caches:
            for mname, menv in modes:
                if cache == 1 and mname != 'plain':
                    continue
                shutil.rmtree(pdir)
                shutil.copytree(save, pdir, copy_function=shutil.copy2)
                env = dict(env0)
                env.update(menv)
                rc, out, tags = run_tool(tool, arr, cache, ['scrub', '-p', 'full'], env, timeout=30)
                stats['variants'] += 1
                descr = dict(descr0, io_cache=cache, mode=mname, env=menv)
                if rc == 'timeout':
                    chk.violation('hang_diff_cross_%d' % cache, 'scrub does not terminate (--test-io-cache %d, %s)' % (cache, mname), descr)
                    return stats
                bad = bad_marks(tool, arr, env0)
                summ = dict(t.split(':')[1:3] for t in tags if t.startswith('summary:error_'))
                errs = sorted(':'.join(t.split(':')[1:4]) for t in tags if t.startswith('error:'))
                perrs = sorted(':'.join(t.split(':')[1:3]) for t in tags if t.startswith('parity_error:'))
                if summ.get('error_data') != str(n_silent) or summ.get('error_file') != str(n_file) or bad != exp_bad or errs != exp_err or perrs != exp_perr or rc != 1:
                    chk.violation('diff_cross_expected_%d_%s_np%d' % (cache, mname, np_),
                                  'scrub --test-io-cache %d (reader order %s): silent errors of synced blocks sharing a stripe with a touched file of ANOTHER disk must be '
                                  'error_data=%d error_file=%d (incl. the parity mismatches of stripes 11 and 6) with bad marks %s; got error_data=%s error_file=%s bad marks %s exit %s: the classification of a block depends on the other disks of its stripe / their arrival order'
                                  % (cache, mname, n_silent, n_file, exp_bad, summ.get('error_data'), summ.get('error_file'), bad, rc),
                                  dict(descr, tags=tags[:40], bad=bad, expected_bad=exp_bad))
                cur_ = (rc, tags, bad, arr.snapshot())
                if ref is None:
                    ref = (cur_, cache, mname)
                elif cur_ != ref[0]:
                    what = 'exit status' if rc != ref[0][0] else ('error/summary tags' if tags != ref[0][1] else ('bad marks' if bad != ref[0][2] else 'content file'))
                    chk.violation('diff_cross_state_%d_%s_np%d' % (cache, mname, np_),
                                  'scrub of stripes shared by a touched file and a silent error on another disk: %s differ between (--test-io-cache %d, %s) and (--test-io-cache %d, %s)'
                                  % (what, ref[1], ref[2], cache, mname), dict(descr, a=ref[0], b=cur_))
    return stats


def diff_autosave(chk, tool, shim, arr, caches=(1, 3, 8, 128)):
    """sync with a forced autosave (io_stop, save, io_start at the next block) at the first / a middle / the last
    stripe: parity, content and tags identical to the mono run with the same autosave and to the run without autosave"""
    stats = {'variants': 0}
    env0 = {'LD_PRELOAD': shim} if shim else {}
    arr.fresh()
    pdir = os.path.join(arr.work, 'p')
    rc, out, tags = run_tool(tool, arr, 1, ['sync'], env0)
    base_ = (rc, [t for t in tags if t.startswith(('error:', 'summary:'))], arr.snapshot())
    ks = sorted(set([1, max(1, arr.nblocks // 2), max(1, arr.nblocks - 1)]))
    for k in ks:
        ref = None
        for cache in caches:
            for mname, menv in [('plain', {})] + ([('yield%d' % y, {'SNAPRAID_VERIF_YIELD': str(y)}) for y in (1, 2)] if cache > 1 else []):
                shutil.rmtree(pdir)
                os.makedirs(pdir)
                env = dict(env0)
                env.update(menv)
                rc, out, tags = run_tool(tool, arr, cache, ['sync'], env, timeout=30, opts=['--test-force-autosave-at', str(k)])
                stats['variants'] += 1
                descr = {'array': {'nd': arr.nd, 'np': arr.np, 'seed': arr.seed}, 'step': 'sync --test-force-autosave-at %d' % k, 'io_cache': cache, 'mode': mname}
                if rc == 'timeout':
                    chk.violation('hang_diff_autosave_%d_%d' % (k, cache), 'sync --test-force-autosave-at %d --test-io-cache %d does not terminate' % (k, cache), descr)
                    return stats
                cur_ = (rc, [t for t in tags if t.startswith(('error:', 'summary:'))], arr.snapshot())
                if ref is None:
                    ref = (cur_, cache, mname)
                    if cur_ != base_:
                        what = 'exit status' if cur_[0] != base_[0] else ('tags' if cur_[1] != base_[1] else ', '.join(x for x in cur_[2] if cur_[2][x] != base_[2][x]))
                        chk.violation('diff_autosave_base_%d' % k, 'mono sync with an autosave at block %d and mono sync without autosave differ in %s' % (k, what), dict(descr, a=base_, b=cur_))
                elif cur_ != ref[0]:
                    what = 'exit status' if cur_[0] != ref[0][0] else ('tags' if cur_[1] != ref[0][1] else ', '.join(x for x in cur_[2] if cur_[2][x] != ref[0][2][x]))
                    chk.violation('diff_autosave_state_%d_%d_%s' % (k, cache, mname),
                                  'sync --test-force-autosave-at %d: %s differ between (--test-io-cache %d, %s) and (--test-io-cache %d, %s)' % (k, what, ref[1], ref[2], cache, mname),
                                  dict(descr, a=ref[0], b=cur_))
    return stats


def diff_families(chk, tool, shim, base, rng, tier):
    """scenario families aimed at the regions of io.c / sync.c / scrub.c that the plain scenarios never reach (coverage
    round): injected open/read/write faults with continuation, scrub plans, pre-hash, sync over bad marks, the
    reader-only ring of test-dry, default cache depth, io statistics.  Every family: identical saved state, one run
    per cache depth, everything observable compared with the depth-1 run."""
    stats = {}
    if not shim:
        chk.notes.append('fault families skipped: no shim')
        return stats
    env0 = {'LD_PRELOAD': shim}
    d = os.path.join(base, 'arr_fam')
    os.makedirs(d)
    arr = Array(d, 3, 2, rng.randrange(1, 10 ** 6))
    arr.fresh()
    pdir = os.path.join(arr.work, 'p')
    caches = [1, 3, 8, 128, None]
    big = {k: [n for n, sz in arr.files if n.startswith('d%d/' % k) and sz >= 2048] for k in range(arr.nd)}
    mid = max(1, arr.nblocks // 2)

    def save_as(name):
        t = os.path.join(arr.base, 'fam_' + name)
        shutil.rmtree(t, ignore_errors=True)
        shutil.copytree(pdir, t, copy_function=shutil.copy2)
        return t

    def reset(saved):
        shutil.rmtree(pdir)
        if saved:
            shutil.copytree(saved, pdir, copy_function=shutil.copy2)
        else:
            os.makedirs(pdir)

    def family(name, cmd, saved, fault=None, opts=(), content=True, expect_errors=False, caches_=None):
        ref = None
        for cache in (caches_ or caches):
            reset(saved)
            env = dict(env0)
            env.update(fault or {})
            rc, out, tags = run_tool(tool, arr, cache, cmd, env, timeout=30, opts=opts)
            descr = {'array': {'nd': arr.nd, 'np': arr.np, 'seed': arr.seed}, 'family': name, 'cmd': list(opts) + cmd, 'fault_env': fault, 'io_cache': cache}
            if rc == 'timeout':
                chk.violation('hang_diff_fam_%s' % name, 'snapraid %s does not terminate (--test-io-cache %s, %s)' % (' '.join(cmd), cache, fault), descr)
                raise Hang()
            bad = bad_marks(tool, arr, env0) if os.path.exists(os.path.join(pdir, 'content')) else None
            snap_ = arr.snapshot()
            if not content:
                snap_.pop('content', None)
            cur_ = (rc, tags, bad, snap_)
            if ref is None:
                ref = (cur_, cache)
                nerr = sum(1 for t in tags if t.startswith(('error:', 'parity_error')))
                stats[name] = {'rc': rc, 'error_tags': nerr, 'bad_marks': len(bad or [])}
                if expect_errors and nerr == 0:
                    chk.notes.append('family %s: the injected fault / corruption produced no error tag (scenario vacuous)' % name)
            elif cur_ != ref[0]:
                what = 'exit status' if rc != ref[0][0] else ('error/summary tags' if tags != ref[0][1] else ('bad marks' if bad != ref[0][2] else ', '.join(x for x in snap_ if snap_[x] != ref[0][3].get(x))))
                only_a = [t for t in ref[0][1] if t not in tags][:3]
                only_b = [t for t in tags if t not in ref[0][1]][:3]
                chk.violation('diff_fam_%s_%s' % (name, cache),
                              '%s (%s%s): %s differ between --test-io-cache %s and %s%s' % (name, ' '.join(list(opts) + cmd), ', fault %s' % fault if fault else '', what, ref[1], cache if cache is not None else 'default',
                                                                                     ': only in first %s, only in second %s' % (only_a, only_b) if what.startswith('error') else ''),
                              dict(descr, a=ref[0], b=cur_))
        return ref[0] if ref else None

    try:
        # ---- sync with faults (from an empty parity/content directory)
        if big[0]:
            family('sync_missing_file', ['sync'], None, {'C13_ENOENT_PATH': '/work/' + big[0][0]}, expect_errors=True)
        if big[1]:
            family('sync_read_eio', ['sync'], None, {'C13_EIO_PATH': '/work/' + big[1][0]}, expect_errors=True)
        family('sync_parity_write_eio', ['sync'], None, {'C13_WEIO_PATH': '/p/par0', 'C13_WEIO_OFF': str(mid * 1024)}, expect_errors=True)
        family('sync_parity_write_eio_autosave', ['sync'], None, {'C13_WEIO_PATH': '/p/par1', 'C13_WEIO_OFF': str(max(0, mid - 1) * 1024)},
               opts=['--test-force-autosave-at', str(mid)], expect_errors=True)
        family('sync_parity_write_eio_last', ['sync'], None, {'C13_WEIO_PATH': '/p/par0', 'C13_WEIO_OFF': str((arr.nblocks - 1) * 1024)}, expect_errors=True)
        family('sync_io_stats_ticking_clock', ['sync'], None, {'C13_TICK': '1'}, opts=['--test-io-stats'], content=False)
        # ---- a clean synced state
        reset(None)
        rc, out, tags = run_tool(tool, arr, 1, ['sync'], env0)
        s0 = save_as('s0')
        family('dry', ['test-dry'], s0)
        family('scrub_new', ['scrub', '-p', 'new'], s0)
        family('scrub_auto', ['scrub'], s0)
        family('scrub_even', ['scrub'], s0, opts=['--test-force-scrub-even'])
        family('scrub_force_at', ['scrub'], s0, opts=['--test-force-scrub-at', '7'])
        family('scrub_io_stats_ticking_clock', ['scrub', '-p', 'full'], s0, {'C13_TICK': '1'}, opts=['--test-io-stats'], content=False)
        family('scrub_autosave', ['scrub', '-p', 'full'], s0, opts=['--test-force-autosave-at', str(mid)])
        if big[0]:
            family('scrub_missing_file', ['scrub', '-p', 'full'], s0, {'C13_ENOENT_PATH': '/work/' + big[0][0]}, expect_errors=True)
        if big[2]:
            family('scrub_read_eio', ['scrub', '-p', 'full'], s0, {'C13_EIO_PATH': '/work/' + big[2][0], 'C13_EIO_OFF': '1024'}, expect_errors=True)
        family('scrub_parity_read_eio', ['scrub', '-p', 'full'], s0, {'C13_EIO_PATH': '/p/par1', 'C13_EIO_OFF': str(mid * 1024)}, expect_errors=True)
        family('dry_read_eio', ['test-dry'], s0, {'C13_EIO_PATH': '/p/par0', 'C13_EIO_OFF': str(mid * 1024)}, expect_errors=True)
        # ---- silent corruption of data and of parity, bad marks, plans over bad marks, sync over bad marks
        if big[0]:
            _flip(os.path.join(arr.work, big[0][-1]), 1100)
        with open(os.path.join(s0, 'par0'), 'r+b') as f:
            f.seek(1024 + 17)
            b = f.read(1)
            f.seek(1024 + 17)
            f.write(bytes([b[0] ^ 0x11]))
        r1 = family('scrub_full_data_and_parity_corruption', ['scrub', '-p', 'full'], s0, expect_errors=True)
        reset(s0)
        run_tool(tool, arr, 1, ['scrub', '-p', 'full'], env0)
        s1 = save_as('s1')
        family('scrub_bad', ['scrub', '-p', 'bad'], s1, expect_errors=True)
        family('scrub_percent_old', ['scrub', '-p', '50', '-o', '0'], s1)
        # second generation of files on top of the bad marks: pre-hash, forced full sync
        reset(s1)
        arr.mutate()
        family('sync_over_bad_marks', ['sync'], s1)
        family('sync_prehash', ['sync', '-h'], s1)
        family('sync_force_full', ['sync', '-F'], s1)
    except Hang:
        stats['hang'] = True
    return stats


def diff_skip_after_write_fault(chk, tool, shim, base, rng, caches=(1, 3, 8, 128), model=None, hooked=False):
    """a parity write fails with EIO and the FOLLOWING stripes need no parity update (EMPTY writer tasks): only one
    block of a multi-block file is rewritten in place, other files get new time-stamps with identical data.  The error
    must be reported exactly once and exactly the failed stripe marked bad, at every depth and schedule."""
    stats = {'variants': 0}
    if not shim:
        return stats
    env0 = {'LD_PRELOAD': shim}
    for np_ in (1, 2):
        d = os.path.join(base, 'arr_skip%d' % np_)
        os.makedirs(d)
        arr = Array(d, 2, np_, rng.randrange(1, 10 ** 6))
        arr.fresh()
        pdir = os.path.join(arr.work, 'p')
        rc, out, tags = run_tool(tool, arr, 1, ['sync'], env0)
        if rc != 0:
            chk.notes.append('skip scenario could not be prepared (sync rc %s)' % rc)
            continue
        # position of every d0 file (files are allocated in name order from position 0)
        pos, at = {}, 0
        for name, sz in arr.files:
            if name.startswith('d0/'):
                pos[name] = at
                at += (sz + 1023) // 1024
        multi = [(n, sz) for n, sz in arr.files if n.startswith('d0/') and sz >= 3 * 1024]
        if not multi:
            chk.notes.append('skip scenario: no file of 3 blocks on d0 (array seed %d)' % arr.seed)
            continue
        vict, vsz = multi[len(multi) // 2]
        vpath = os.path.join(arr.work, vict)
        data = bytearray(open(vpath, 'rb').read())
        data[10] ^= 0x5a                                  # only block 0 of the file changes
        _rewrite(vpath, bytes(data), 1500005000)
        for name, sz in arr.files:                        # same data, new time-stamp: re-hashed, parity not updated
            if name != vict and sz >= 1024 and name.startswith(('d0/', 'd1/')) and rng.random() < 0.5:
                os.utime(os.path.join(arr.work, name), (1500005000, 1500005000))
        for k in range(arr.nd):
            os.utime(os.path.join(arr.work, 'd%d' % k), (1500000000, 1500000000))
        fail_pos = pos[vict]
        save = os.path.join(arr.base, 'save_skip')
        shutil.copytree(pdir, save, copy_function=shutil.copy2)
        fault = {'C13_WEIO_PATH': '/p/par0', 'C13_WEIO_OFF': str(fail_pos * 1024)}
        descr0 = {'array': {'nd': 2, 'np': np_, 'seed': arr.seed},
                  'scenario': 'sync; flip one byte of block 0 of %s (position %d, %d blocks) with a new mtime, touch other files; sync with pwrite EIO on par0 at offset %d'
                              % (vict, fail_pos, (vsz + 1023) // 1024, fail_pos * 1024)}
        modes = [('plain', {})] + [('yield%d' % y, {'SNAPRAID_VERIF_YIELD': str(y)}) for y in (1, 2, 3)]
        ref = None
        for cache in caches:
            for mname, menv in modes:
                if cache == 1 and mname != 'plain':
                    continue
                shutil.rmtree(pdir)
                shutil.copytree(save, pdir, copy_function=shutil.copy2)
                env = dict(env0)
                env.update(fault)
                env.update(menv)
                tracep = os.path.join(arr.base, 'trace_skip')
                if os.path.exists(tracep):
                    os.remove(tracep)
                if model and hooked and cache > 1:
                    env['SNAPRAID_VERIF_TRACE'] = tracep
                rc, out, tags = run_tool(tool, arr, cache, ['sync'], env, timeout=30)
                stats['variants'] += 1
                descr = dict(descr0, io_cache=cache, mode=mname, env=dict(fault, **menv))
                if rc == 'timeout':
                    chk.violation('hang_diff_skip_%d' % cache, 'sync with a failing parity write does not terminate (--test-io-cache %d, %s)' % (cache, mname), descr)
                    return stats
                bad = bad_marks(tool, arr, env0)
                summ = dict(t.split(':')[1:3] for t in tags if t.startswith('summary:error_'))
                perr = [t for t in tags if t.startswith('parity_error:')]
                if summ.get('error_io') != '1' or bad != [fail_pos] or rc != 1 or len(perr) != 1:
                    chk.violation('diff_skip_expected_%d_%s_np%d' % (cache, mname, np_),
                                  'sync --test-io-cache %d (%s): ONE parity write fails (EIO at position %d) and the following stripes need no parity update; expected error_io=1, bad marks [%d], '
                                  'one parity_error tag, exit 1; got error_io=%s bad marks %s, %d parity_error tags, exit %s: a writer error is reported more than once / against skipped stripes'
                                  % (cache, mname, fail_pos, fail_pos, summ.get('error_io'), bad, len(perr), rc), dict(descr, tags=tags[:40], bad=bad))
                # tie of the error bookkeeping model (coq/Ring/RingErr.v): the recorded trace replayed through the extracted
                # `estep` with the injected failure predicts what the caller collects; compare with what the tool reports
                if model and hooked and cache > 1 and os.path.exists(tracep):
                    try:
                        sess = c13_trace.parse_sessions(open(tracep).read())
                        pc, pb = [], []
                        ok_ = True
                        for s_ in sess:
                            line = 'ereplay %d %d %d %d ; %s ; 0:%d:0 ; %s' % (s_['n'], s_['R'], s_['W'], s_['bmax'], ' '.join(map(str, s_['poss'])), fail_pos, ' '.join(c13_trace.to_labels(s_)))
                            o = run_lines(model, [line], shards=1)[0]
                            if not o.startswith('eok'):
                                ok_ = False
                                break
                            kv = dict(x.split('=', 1) for x in o.split()[1:])
                            pc += [x for x in kv['cnt'].split(',') if x]
                            pb += [int(x) for x in kv['bad'].split(',') if x]
                        if ok_:
                            stats['err_model_replays'] = stats.get('err_model_replays', 0) + 1
                            if str(len(pc)) != summ.get('error_io') or sorted(set(pb)) != bad:
                                chk.violation('errmodel_skip_%d_%s_np%d' % (cache, mname, np_),
                                              'MODEL-DRIFT or defect: the writer error bookkeeping model (RingErr.estep) replaying the recorded trace with the injected failure predicts %d counted errors and positions %s; '
                                              'the tool reports error_io=%s and bad marks %s (--test-io-cache %d, %s)' % (len(pc), sorted(pb), summ.get('error_io'), bad, cache, mname),
                                              dict(descr, predicted_cnt=pc, predicted_bad=pb, tool_bad=bad, tool_summary=summ), no_input=(summ.get('error_io') == '1' and bad == [fail_pos]))
                        else:
                            stats['err_model_skipped'] = stats.get('err_model_skipped', 0) + 1
                    except c13_trace.TraceError:
                        stats['err_model_skipped'] = stats.get('err_model_skipped', 0) + 1
                cur_ = (rc, tags, bad, arr.snapshot())
                if ref is None:
                    ref = (cur_, cache, mname)
                elif cur_ != ref[0]:
                    what = 'exit status' if rc != ref[0][0] else ('error/summary tags' if tags != ref[0][1] else ('bad marks' if bad != ref[0][2] else 'parity/content files'))
                    chk.violation('diff_skip_state_%d_%s_np%d' % (cache, mname, np_),
                                  'sync with a failing parity write followed by skipped stripes: %s differ between (--test-io-cache %d, %s) and (--test-io-cache %d, %s)'
                                  % (what, ref[1], ref[2], cache, mname), dict(descr, a=ref[0], b=cur_))
    return stats


# ------------------------------------------------------------------------------------------------
# scan threads (scan.c): one thread per disk, sharing the stamp sets used for copy detection

SCAN_KEY = 'F-C13-scan-copy-detection-depends-on-thread-timing'
STAMP_S = 1500000000 * 10 ** 9 + 123456789


class ScanArr:
    """two data disks, one parity; built for the copy-detection scenarios"""

    def __init__(self, base, name):
        self.base = os.path.join(base, name)
        self.work = os.path.join(self.base, 'work')
        self.nd, self.np = 2, 1
        os.makedirs(os.path.join(self.work, 'p'))
        for k in range(2):
            os.makedirs(os.path.join(self.work, 'd%d' % k))
        with open(os.path.join(self.work, 'conf'), 'w') as f:
            f.write('blocksize 1\nparity %s/p/par0\ncontent %s/p/content\ndata d0 %s/d0\ndata d1 %s/d1\n' % ((self.work,) * 4))

    def conf(self):
        return os.path.join(self.work, 'conf')

    def put(self, rel, data, ns):
        pth = os.path.join(self.work, rel)
        os.makedirs(os.path.dirname(pth), exist_ok=True)
        with open(pth, 'wb') as f:
            f.write(data)
        os.utime(pth, ns=(ns, ns))

    def fix_dirs(self):
        for root, dirs, files in os.walk(self.work):
            if '/p' not in root[len(self.work):]:
                os.utime(root, ns=(STAMP_S - 10 ** 12, STAMP_S - 10 ** 12))


def _s(x):
    return x.decode('utf-8', 'surrogateescape') if isinstance(x, (bytes, bytearray)) else x


def decoded_state(arr):
    """the array state recorded in the content file, decoded by the independent decoder (inodes dropped)"""
    import content
    pth = os.path.join(arr.work, 'p', 'content')
    if not os.path.exists(pth):
        return None
    try:
        st = content.parse(open(pth, 'rb').read())
    except content.Bad as e:
        return 'undecodable: %s' % e
    out = {}
    for d, v in sorted(st['disks'].items()):
        out[_s(d)] = sorted((_s(f['sub']), f['size'], f['sec'], f['nsec'], repr(f['blocks'])) for f in v['files'])
    return (out, repr(st['info']))


def copy_shape(arr, saved_content):
    """independent diagnosis: a NEW file whose size and time-stamp equal those of a file RECORDED on ANOTHER disk that
    was itself changed (or removed) since the record was written"""
    import content
    st = content.parse(open(saved_content, 'rb').read())
    hits = []
    rec = {_s(d): {_s(f['sub']): f for f in v['files']} for d, v in st['disks'].items()}
    for d in rec:
        root = os.path.join(arr.work, d)
        for dp, dn, fn in os.walk(root):
            for name in fn:
                full = os.path.join(dp, name)
                sub = os.path.relpath(full, root)
                if sub in rec[d]:
                    continue
                stn = os.stat(full)
                for e in rec:
                    if e == d:
                        continue
                    for r in rec[e].values():
                        if r['size'] != stn.st_size or r['size'] == 0 or r['nsec'] < 0:
                            continue
                        if r['sec'] * 10 ** 9 + r['nsec'] != stn.st_mtime_ns:
                            continue
                        cur = os.path.join(arr.work, e, _s(r['sub']))
                        changed = (not os.path.exists(cur)) or os.stat(cur).st_size != r['size'] or os.stat(cur).st_mtime_ns != stn.st_mtime_ns
                        if changed:
                            hits.append({'new': '%s:%s' % (d, sub), 'stale_record': '%s:%s' % (e, _s(r['sub']))})
    return hits


def diff_scan_threads(chk, tool, shim, base, rng, tier):
    """scan.c runs one thread per disk; copy detection looks a new file up in the stamp sets of the OTHER disks while their
    threads are dropping entries.  Each scenario is scanned sequentially (--test-skip-multi-scan) and N times threaded:
    diff counters, sync exit status and the decoded content after sync must be equal."""
    stats = {'scenarios': 0, 'runs': 0, 'known_finding_witnessed': 0}
    env0 = {'LD_PRELOAD': shim} if shim else {}
    reps = 3 if tier == 'quick' else 12
    r2 = random.Random(rng.randrange(1, 10 ** 6))

    def rb(k):
        return bytes(r2.getrandbits(8) for _ in range(k))
    # (name, disk of the stale record, disk of the new file, disk of the fillers, number of fillers, same name, control)
    plan = [('stale_d1_fill2000_d0', 1, 0, 0, 2000, True, False),
            ('stale_d0_fill2000_d0', 0, 1, 0, 2000, True, False),
            ('stale_d1_nofill_othername', 1, 0, 0, 0, False, False),
            ('control_real_copy_fill300_d0', 1, 0, 0, 300, True, True)]
    if tier != 'quick':
        plan += [('stale_d1_fill300_d0', 1, 0, 0, 300, True, False), ('stale_d1_fill300_d1', 1, 0, 1, 300, True, False),
                 ('stale_d0_fill300_d1', 0, 1, 1, 300, False, False), ('stale_d0_nofill', 0, 1, 0, 0, True, False)]
    for name, sd, nd_, fd, nfill, same, control in plan:
        arr = ScanArr(base, 'scan_' + name)
        stats['scenarios'] += 1
        old = rb(2048)
        arr.put('d%d/yy.q' % sd, old, STAMP_S)
        arr.put('d%d/keep.q' % (1 - sd), rb(3000), STAMP_S + 5 * 10 ** 9 + 7)
        for i in range(nfill):
            arr.put('d%d/a%04d' % (fd, i), b'', STAMP_S - 10 ** 11 + i)
        arr.fix_dirs()
        rc, out, tags = run_tool(tool, arr, 1, ['sync'], env0, opts=['--test-skip-multi-scan'])
        if rc != 0:
            chk.notes.append('scan scenario %s could not be prepared (sync rc %s)' % (name, rc))
            continue
        pdir = os.path.join(arr.work, 'p')
        save = os.path.join(arr.base, 'save')
        shutil.copytree(pdir, save, copy_function=shutil.copy2)
        newname = 'zz/yy.q' if same else 'zz/other.q'
        if control:
            arr.put('d%d/%s' % (nd_, newname), old, STAMP_S)                 # a real copy of an unchanged file
        else:
            arr.put('d%d/yy.q' % sd, rb(2048), STAMP_S + 77 * 10 ** 9 + 1)       # the recorded file changes ...
            arr.put('d%d/%s' % (nd_, newname), rb(2048), STAMP_S)              # ... and an unrelated file has its old size and time-stamp
        arr.fix_dirs()
        shape = copy_shape(arr, os.path.join(save, 'content'))
        descr = {'scenario': name, 'stale_record_on': 'd%d' % sd, 'new_file': 'd%d/%s' % (nd_, newname), 'fillers': '%d empty files on d%d' % (nfill, fd),
                 'control': control, 'independent_diagnosis': shape,
                 'recipe': 'sync; rewrite d%d/yy.q (new time-stamp); create d%d/%s with other bytes, same size and the OLD time-stamp of yy.q; diff / sync threaded vs --test-skip-multi-scan' % (sd, nd_, newname)}
        results = []
        for mode in ['sequential'] + ['threaded'] * reps:
            opts = ['--test-skip-multi-scan'] if mode == 'sequential' else []
            shutil.rmtree(pdir)
            shutil.copytree(save, pdir, copy_function=shutil.copy2)
            drc, dout, dtags = run_tool(tool, arr, 3, ['diff'], env0, timeout=60, opts=opts)
            counters = sorted(t for t in dtags if t.startswith('summary:'))
            src, sout, stags = run_tool(tool, arr, 3, ['sync'], env0, timeout=60, opts=opts)
            stats['runs'] += 2
            if drc == 'timeout' or src == 'timeout':
                chk.violation('hang_scan_%s' % name, 'diff/sync does not terminate in scenario %s (%s scan)' % (name, mode), descr)
                return stats
            results.append((mode, (drc, counters, src, decoded_state(arr))))
        ref = results[0][1]
        differing = [(m, r) for m, r in results[1:] if r != ref]
        among = len(set(repr(r) for m, r in results[1:])) > 1
        if differing or among:
            m, r = differing[0] if differing else results[1]
            what = []
            if r[1] != ref[1]:
                what.append('diff counters %s vs %s' % ([t.split(':', 1)[1] for t in r[1] if t not in ref[1]], [t.split(':', 1)[1] for t in ref[1] if t not in r[1]]))
            if r[0] != ref[0]:
                what.append('diff exit status %s vs %s' % (r[0], ref[0]))
            if r[2] != ref[2]:
                what.append('sync exit status %s vs %s' % (r[2], ref[2]))
            if r[3] != ref[3]:
                what.append('content after sync differs')
            msg = ('scan threads: the result depends on the interleaving of the per-disk scan threads in scenario %s: threaded vs sequential (--test-skip-multi-scan): %s%s'
                   % (name, '; '.join(what) or 'threaded runs differ among themselves', '; threaded runs also differ among themselves' if among and differing else ''))
            rep = dict(descr, results=[(m, r[0], r[1], r[2]) for m, r in results])
            if shape and not control:
                stats['known_finding_witnessed'] += 1
                stats.setdefault('witnessed_in', []).append(name + ': ' + '; '.join(what)[:160])
                chk.violation('scan_' + name, msg + ' -- a new file matches the stale stamp of a changed file of another disk: %s' % shape[0], rep, finding_key=SCAN_KEY)
            else:
                chk.violation('scan_' + name, msg, rep)
    return stats


def build_tsan(snap):
    cflags = ['-O1', '-g', '-D' + GUARD, '-fsanitize=thread', '-fno-omit-frame-pointer']
    objs = _compile_many_tsan(snap, cflags)
    out = os.path.join(snap, 'snapraid_tsan')
    r = run(['clang', '-pthread', '-rdynamic', '-fsanitize=thread'] + objs + ['-o', out, '-lblkid', '-lm'], cwd=snap)
    if r.returncode != 0:
        raise BuildError(r.stdout)
    return out


def _compile_many_tsan(snap, cflags):
    import common
    return common._compile_many(snap, TOOL_SRCS, os.path.join(snap, '.obj_tsan'), cflags, 'clang')


def tsan_runs(chk, snap, arrays):
    try:
        tool = build_tsan(snap)
    except (BuildError, FileNotFoundError) as e:
        chk.notes.append('ThreadSanitizer build not available: %s' % str(e)[:200])
        return {'tsan': 'unavailable'}
    reports = 0
    runs = 0
    for arr in arrays[:2]:
        for cache in (3, 8, 128):
            arr.fresh()
            for cmd in (['sync'], None, ['sync'], ['scrub', '-p', 'full']):
                if cmd is None:
                    arr.mutate()
                    continue
                env = {'TSAN_OPTIONS': 'halt_on_error=0 exitcode=0', 'SNAPRAID_VERIF_YIELD': str(cache)}
                rc, out, tags = run_tool(tool, arr, cache, cmd, env, timeout=300, log=False)
                runs += 1
                if 'WARNING: ThreadSanitizer' in out:
                    reports += 1
                    i = out.index('WARNING: ThreadSanitizer')
                    chk.notes.append('ThreadSanitizer report (test evidence, not a verdict) in %s cache %d: %s' % (' '.join(cmd), cache, out[i:i + 600].replace('\n', ' | ')))
    return {'tsan_runs': runs, 'tsan_reports': reports}


def cap_violations(chk, per_category=3):
    """report at most `per_category` violations per category (first word of the tag); count the rest"""
    orig = chk.violation
    seen = collections.Counter()
    chk.suppressed = collections.Counter()

    def capped(tag, what, replay_obj, no_input=False, finding_key=None):
        cat = '_'.join(tag.split('_')[:3]) if tag.startswith('diff_') else tag.split('_')[0]
        seen[cat] += 1
        if seen[cat] > per_category:
            chk.suppressed[cat] += 1
            return
        return orig(tag, what, replay_obj, no_input=no_input, finding_key=finding_key)
    chk.violation = capped


def main(tier, replay=None):
    chk = Check('C13', tier, 'proof')
    cap_violations(chk)
    snap = snapshot_repo()
    regen_msgs = regen(snap)
    try:
        tool = build_tool(snap)
    except BuildError as e:
        chk.violation('build', 'working tree does not build: ' + str(e)[:500], {'error': str(e)}, no_input=True)
        return chk.finish()
    hooked = hook_present(snap)
    phase = {'build_s': round(time.time() - chk.t0, 1)}
    t1 = time.time()

    ob = check_obligations('C13')
    proof_coverage(chk, ob, 'make -f Makefile.coq -k Props/Properties_C13.vo (coqc 8.16.1, full .vo) + Print Assumptions',
                   ['Coq 8.16.1 kernel incl. vm_compute',
                    'coq/Ring/RingModel.v: hand transcription of cmdline/io.c:276-861 (atomic sections = mutex regions), tied by trace replay',
                    'the io.c hook (harness/hooks/c13_io_hook.diff) reports every atomic section, in mutex order',
                    'extraction (ExtrOcamlBasic only) + ocaml/C13/driver.ml', 'harness/py/c13_trace.py (event -> label conversion)',
                    'pthread mutex / condition variable semantics (POSIX), sequentially consistent view of data handed over under the mutex',
                    'LD_PRELOAD shim written by this check: time() frozen, /dev/urandom replaced by /dev/zero (hash seed) for the differential part'])
    if regen_msgs:
        chk.notes.append('translator: ' + '; '.join(regen_msgs))
    try:
        model = build_model('Extract/Extract_C13.vo', 'ocaml/C13', 'c13_ext', 'driver.ml', 'model')
    except BuildError as e:
        model = None
        ob['failed'].append({'where': 'extraction', 'error': str(e)[-600:]})

    phase['coq_and_extraction_s'] = round(time.time() - t1, 1)
    t1 = time.time()
    base = mkscratch('c13.')
    shim = os.path.join(base, 'timeshim.so')
    open(os.path.join(base, 'timeshim.c'), 'w').write(SHIM_C)
    r = run(['gcc', '-shared', '-fPIC', '-O1', '-o', shim, os.path.join(base, 'timeshim.c'), '-ldl'])
    if r.returncode != 0:
        chk.notes.append('time shim did not build, clock not frozen: ' + r.stdout[:200])
        shim = None

    rng = chk.rng
    broken = bool(ob['failed'])
    if tier == 'quick':
        shapes = [(2, 1), (3, 2), (4, 3)]
        seeds = list(range(1, 6)) if not broken else list(range(1, 31))
    else:
        shapes = [(2, 1), (2, 2), (3, 1), (3, 2), (3, 3), (4, 2), (4, 3), (5, 4), (6, 6)]
        seeds = list(range(1, 9))
    arrays = []
    for i, (nd, np_) in enumerate(shapes):
        d = os.path.join(base, 'arr%d' % i)
        os.makedirs(d)
        arrays.append(Array(d, nd, np_, rng.randrange(1, 10 ** 6)))

    # ---- replay of a stored case
    if replay:
        rp = json.load(open(replay))['replay']
        chk.notes.append('replay of %s: scenario parameters %s are re-run as part of the normal scenarios (arrays are generated from the seed)' % (replay, {k: rp.get(k) for k in ('array', 'step', 'io_cache', 'yield_seed')}))
        if 'array' in rp:
            d = os.path.join(base, 'arr_replay')
            os.makedirs(d)
            arrays.insert(0, Array(d, rp['array']['nd'], rp['array']['np'], rp['array']['seed']))

    # ---- corpus: recorded traces replayed first
    cdir = os.path.join(VERIF, 'corpus', 'C13')
    corpus_lines = []
    if os.path.isdir(cdir) and model:
        for fn in sorted(os.listdir(cdir)):
            if fn.endswith('.trace'):
                for s in c13_trace.parse_sessions(open(os.path.join(cdir, fn)).read()):
                    corpus_lines.append((fn, s, c13_trace.replay_line(s)))
        outs = run_lines(model, [l for _, _, l in corpus_lines]) if corpus_lines else []
        for (fn, s, l), o in zip(corpus_lines, outs):
            exp_ok = not fn.startswith('bad_')
            got_ok = o.startswith('ok') and 'final=1' in o
            if exp_ok != got_ok:
                chk.violation('corpus_' + fn, 'MODEL-DRIFT: corpus trace %s is %s by the ring model (%s)' % (fn, 'rejected' if exp_ok else 'accepted', o), {'file': fn, 'model_out': o}, no_input=True)

    # ---- (i) trace inclusion
    tstats = None
    if hooked and model:
        tstats = trace_runs(chk, tool, model, arrays, TRACE_CACHES, seeds, with_sigint=True)
        if tstats['sessions'] == 0 and not tstats.get('hang'):
            chk.violation('notrace', 'the hook is in the tree but no trace session was recorded', {}, no_input=True)
    elif not hooked:
        chk.notes.append('hook absent: cmdline/io.c of the working tree has no verif_io_event (harness/hooks/c13_io_hook.diff not applied); '
                         'trace validation skipped, only the differential part ran')

    phase['trace_inclusion_s'] = round(time.time() - t1, 1)
    t1 = time.time()
    # ---- (ii) differential
    dstats = differential(chk, tool, shim, arrays, DIFF_CACHES, tier)
    if not dstats.get('hang'):
        dstats['rehash'] = diff_rehash(chk, tool, shim, base, rng)
        dstats['scrub_touch'] = diff_scrub_touch(chk, tool, shim, base, rng)
        dstats['scrub_cross'] = diff_scrub_cross(chk, tool, shim, base, rng)
        dstats['autosave'] = diff_autosave(chk, tool, shim, arrays[1 if len(arrays) > 1 else 0])
        dstats['families'] = diff_families(chk, tool, shim, base, rng, tier)
        dstats['skip_after_write_fault'] = diff_skip_after_write_fault(chk, tool, shim, base, rng, model=model, hooked=hooked)
        dstats['scan_threads'] = diff_scan_threads(chk, tool, shim, base, rng, tier)
        if tier == 'thorough':
            for _ in range(4):
                sub = os.path.join(base, 'more%d' % _)
                os.makedirs(sub)
                diff_rehash(chk, tool, shim, sub, rng)

    phase['differential_s'] = round(time.time() - t1, 1)
    # ---- (iii) ThreadSanitizer, thorough only
    xstats = {}
    if tier == 'thorough':
        xstats = tsan_runs(chk, snap, arrays)

    chk.cov.update({'hook_present': hooked,
                    'evaluations': (tstats['sessions'] if tstats else 0) + dstats['comparisons'],
                    'distinct_nontrivial': (len(tstats['distinct']) if tstats else 0) + dstats['comparisons'],
                    'rule': 'trace inclusion: arrays %s (data disks, parity levels) x {sync, sync after change+silent corruption, scrub full, scrub 40%%, sync interrupted by SIGINT} '
                            'x --test-io-cache %s x schedule seeds %s, non-trivial = distinct (n, R, W, stripes, step, seed); differential: caches %s vs %d on 3 steps per array'
                            % (shapes, TRACE_CACHES, seeds, DIFF_CACHES[1:], DIFF_CACHES[0]),
                    'traces_validated_against_impl': tstats['sessions'] if tstats else 0,
                    'trace_events_replayed': tstats['events'] if tstats else 0,
                    'trace_sessions_rejected': tstats['rejected'] if tstats else 0,
                    'trace_sessions_with_early_stop': tstats['bailed_sessions'] if tstats else 0,
                    'traces_with_several_ring_sessions': tstats.get('multi_session_traces', 0) if tstats else 0,
                    'spurious_wakeups_needed': tstats['spurious'] if tstats else 0,
                    'sessions_by_io_max': dict(tstats['by_cache']) if tstats else {},
                    'corpus_traces': len(corpus_lines),
                    'differential': dstats})
    chk.cov.update(xstats)
    chk.cov['phase_wall'] = phase
    if chk.suppressed:
        chk.notes.append('further violations of the same kind not listed: %s' % dict(chk.suppressed))
    chk.cov['samples'] = [{'nd': a.nd, 'np': a.np, 'seed': a.seed, 'files': len(a.files)} for a in arrays]

    if ob['failed'] and not chk.violations:
        chk.violation('obligation', 'proof obligation of C13 no longer checks: %s' % ob['failed'][0],
                      {'theorem_file': 'coq/Props/Properties_C13.v', 'failed': ob['failed'], 'log_tail': ob['log'][-1500:]}, no_input=True)
    chk.assumptions += [
        'proved for ALL n >= 3, R >= 1, W >= 0, all enabled-position lists: inductive invariant, ownership, order, writers drain, no deadlock / no lost wake-up, termination measure (strictly decreasing on every non-wait step); n = 2 deadlock witness',
        'not proved here: the fairness step from measure + no_deadlock to termination is stated in prose only; scan threads (scan.c) and the stripe computation itself (arrival-order independence of sync.c/scrub.c, DESIGN stripe_arrival_irrelevant) are only covered by the differential runs',
        'the model treats signal/broadcast as part of the atomic section although support.c may signal after the unlock; a later signal can only delay a wake-up',
        'ASSUMED by the ring theorems, only tested: the result a worker leaves in a task (state, read_size, is_timestamp_different, block, file, buffer content) depends only on (disk, position) and the files, not on what the ring slot held before (io_reader_sched / io_writer_sched reset every field per scheduling) -- tested by the scrub scenario with touched/modified files and silent errors at distances 1..10 on the same disk, across depths 1,3,4,5,8,128',
        'ASSUMED, only tested: the per-stripe computation of sync.c/scrub.c is independent of the order in which io_data_read returns the disks (rehandle[], failed[] are indexed by disk, the failed list is sorted) -- tested by the pending-rehash scenario under yield seeds and a slowed disk (LD_PRELOAD pread delay), content files compared and a following check required clean',
        'ASSUMED, only tested (no Coq model of scrub.c state_scrub_process here; the ring model stops at handing tasks to the caller): the classification of the block of disk j in a stripe (file error vs silent data error, bad mark) depends only on disk j own file/block state, not on the other disks of the stripe nor on their arrival order -- tested by the cross-disk scrub scenario (touched file and silent error on different disks of one stripe, both disk orders), compared across depths 1/3/8/128, yield seeds, one slowed disk at a time, and against the expected classification and bad marks',
        'exercised by oracle only (cache-depth differential incl. default depth, no Coq model): continuation after open/read faults of a data disk (ENOENT, EIO) in sync, scrub and test-dry, parity read EIO in scrub/test-dry, parity WRITE EIO in sync at a middle stripe, before an autosave and at the last stripe (io_writer_bad / io_write_bad bad marks), scrub plans new/auto/even/force-at/bad/percent, scrub and sync and sync -h with a pending rehash, silent errors recovered by sync under a pending rehash, silent parity corruption in synced and in time-stamp-unsynced stripes, sync over bad marks, sync -h (pre-hash), sync -F, deallocation of deleted blocks, io statistics (io_refresh) under a ticking clock',
        'writer error bookkeeping (latest_state, writer_error[], writer_bad_map) is modelled in coq/Ring/RingErr.v on top of the ring model and proved for all schedules and outcome assignments (exactly once, nothing for EMPTY/successful tasks, nothing lost at stop, at most io_max-1 pending positions per writer); TIE: the hook does not log the counters, so the model is tied by (1) the write-fault differential (error_io and bad marks equal the injected failures at every depth) and (2) replaying the recorded traces of the skip_after_write_fault runs through the extracted estep with the injected outcome and comparing the predicted collected counters/positions with the error_io / bad marks the tool reports; approximation: the drain of the positions is merged with the io_write_next atomic section',
        'the ring model does not cover the per-disk SCAN threads of scan.c (they share only the stamp sets under the stamp mutex): tested by the scan_threads family (sequential --test-skip-multi-scan vs repeated threaded diff and sync: counters, exit status, decoded content); on the pinned tree this witnesses the open finding %s (copy detection against a stale stamp of another disk depends on thread timing), reported as KNOWN-FINDING' % SCAN_KEY,
        'not reached on purpose: fatal / LCOV_EXCL branches (TASK_STATE_IOERROR/ERROR bail-outs, io error limit, close errors), O_DIRECT buffers (io.c:1159), the IO_MIN clamp of the default depth (io.c:1138, needs blocks above 5 MiB), the conf-file autosave of scrub (granularity is GB), EACCES, attribute/data change racing with the command',
        'io_refresh_thread (progress display only) and the mono-thread variants (io_max = 1, trivially sequential) are not in the model; io_max = 1 is covered by the differential runs']
    return chk.finish()
