"""C14 -- safety interlocks refuse destructive syncs and change nothing.

Every trigger (all files of a disk missing/rewritten, a file truncated to zero, a short parity file, block/hash size
mismatch, a recorded disk missing from the configuration, the lock held by another command) is produced on a real
tiny array, alone and together with ordinary pending changes, on each disk / level, with and without its override.
For every run the independent precondition summary (c12_lib.presummary) is given to the extracted Coq model
(coq/Cmd/CmdModel.v): the model's exit class (Refused vs proceeds) and effect class set must agree with what the
shim write-set log and the byte/mtime/inode snapshot observed; independently of the model, a refused command must
have a failing status, a diagnostic on stderr, and leave content and parity byte-identical; with the override the
same command must proceed and a following `check` must pass."""
import os, sys, json, time, shutil, subprocess, fcntl, random, threading
import concurrent.futures as cf
from common import *
from arraylib import *
import c12_lib as L

OVERRIDE = {'empty': ['--force-empty'], 'zero': ['--force-zero'], 'parity': ['-F'], 'parityR': ['-R']}


class Ctx:
    def __init__(self, chk, binary, shim, model, tier):
        self.chk, self.binary, self.shim, self.model, self.tier = chk, binary, shim, model, tier
        self.lock = threading.Lock()
        self.runs = 0
        self.refusals = 0
        self.proceeds = 0
        self.model_cmp = 0
        self.samples = []
        self.trig_seen = {}
        self.notes = set()

    def viol(self, tag, what, replay, **kw):
        with self.lock:
            if len(self.chk.violations) < 12:
                self.chk.violation(tag, what, replay, **kw)


class UArray(Array):
    """an array whose first two data disks have a valid, stable UUID (--test-fake-uuid on every command): the inodes recorded
    in the content file are trusted by the scan (moved / restored files are recognised), as on real disks"""
    fake_uuid = True

    def run(self, cmd, *opts, **kw):
        if '--test-fake-uuid' not in opts:
            opts = tuple(opts) + ('--test-fake-uuid',)
        return Array.run(self, cmd, *opts, **kw)


def new_array(ctx, rng, nd=3, np_=2, ncontent=2, hashsize=None, pending=False, populate=True, splits=1, uuid=False, content_on=None, parity_limit=None):
    """content_on = index of a data disk that also holds a content copy (the usual real layout) and an `exclude *.bak` rule"""
    root = mkscratch('arr.')
    extra = []
    if content_on is not None:
        extra = ['content %s' % os.path.join(root, 'd%d' % (content_on + 1), 'snapraid.content'), 'exclude *.bak']
    a = (UArray if uuid else Array)(ctx.binary, nd=nd, np_=np_, ncontent=ncontent, shim=ctx.shim, hashsize=hashsize, splits=splits, root=root, extra_conf=extra)
    if content_on is not None:
        a.content_files.append(os.path.join(root, 'd%d' % (content_on + 1), 'snapraid.content'))
    if populate:
        L.populate(a, rng)
        for di, d in enumerate(a.disks):
            # a whole-second time-stamp (copy detection then compares the path, not the name) and a file excluded by rule
            a.write(d, 'wholesec', rng.randbytes(1800 + 100 * di), mtime_ns=(1700003000 + di) * 10**9)
            if content_on is not None:
                open(a.path(d, 'junk%d.bak' % di), 'wb').write(rng.randbytes(500))
    # --test-parity-limit: the first split of every level cannot grow beyond the limit, the rest of the parity goes to the next
    r = a.run('sync', *(['--test-parity-limit', str(parity_limit)] if parity_limit else []))
    if r.rc != 0:
        raise RuntimeError('initial sync failed: %r' % r)
    return a


def add_pending(a, rng):
    """ordinary pending changes on every disk that keep at least one old file equal: one add, one delete, one update"""
    for di, d in enumerate(a.disks):
        a.write(d, 'new%d' % di, rng.randbytes(2500))
        p = a.path(d, 'c%d' % di)
        if os.path.exists(p):
            os.unlink(p)
        p = a.path(d, 'f%d' % di)
        if os.path.exists(p):
            a.write(d, 'f%d' % di, rng.randbytes(4000))


def protected_bytes(a):
    """content and parity bytes, exactly: an absent file is None (a refused sync that leaves a new empty parity file HAS changed
    something: reported under its own finding key, see run_case)"""
    return ({c: (open(c, 'rb').read() if os.path.exists(c) else None) for c in a.content_files},
            {f: (open(f, 'rb').read() if os.path.exists(f) else None) for fs in a.parity_files for f in fs})


def protected_diff(before, after):
    """-> (other changes, [parity files that did not exist and now exist with 0 bytes])"""
    other, created_empty = [], []
    for c in before[0]:
        if before[0][c] != after[0][c]:
            other.append('content file %s' % os.path.basename(os.path.dirname(c)))
    for f in before[1]:
        if before[1][f] != after[1][f]:
            if before[1][f] is None and after[1][f] == b'':
                created_empty.append(f)
            else:
                other.append('parity file %s' % os.path.basename(f))
    return other, created_empty


def run_case(ctx, a, paths, cmd, opts, expect, desc, replay, model_cmd=None, after_check=True, pre_hook=None, finding_key=None):
    """expect: 'refuse' | 'proceed' | None (no independent expectation: model and tool must simply agree).
    Returns the observation."""
    d = L.presummary(a, paths, cmd, opts)
    if pre_hook:
        pre_hook(d)
    reqs = L.model_requests(a, cmd, [x for x in opts], d)
    outs = run_lines(ctx.model, reqs, shards=1)
    preds = [L.parse_model_line(x) for x in outs]
    before = protected_bytes(a)
    o = L.observe(a, paths, cmd, opts)
    after = protected_bytes(a)
    with ctx.lock:
        ctx.runs += 1
        if len(ctx.samples) < 12:
            ctx.samples.append({'scenario': desc, 'observed': L.obs_summary(o), 'model': outs[0][:200]})
    rep = dict(replay)
    rep.update({'scenario': desc, 'command': [cmd] + list(opts), 'rc': o.rc, 'stderr': o.r.err[-800:], 'model_request': reqs[0][:1500],
                'model_answer': outs[0][:600], 'shim_log': o.shim_text[-1500:], 'history': [list(map(str, h)) for h in a.history[-40:]]})
    if any(p is None for p in preds):
        ctx.viol('model_error', 'the command model failed on a request: %s' % outs[0][:200], rep, no_input=True)
        return o
    failing = o.rc != 0
    obs = L.observed_coarse(o)
    for r in L.lock_path_removed(o)[:1]:
        ctx.viol('lock_removed', 'LOCK FILE REMOVED OR REPLACED by `%s %s` (%s %s): the lock is a flock on the inode behind <first content>.lock; once the path is removed while another command holds or is taking the lock, a third command locks a new inode and runs concurrently (%s)'
                 % (cmd, ' '.join(opts), r['call'], r['extra'], desc), rep)
    writes = obs - {('WLock',), ('WLog',)}
    changed_other, created_empty = protected_diff(before, after)
    changed_protected = bool(changed_other)
    # the bare creation of a missing parity file is reported under its own finding key below, not as an unexplained write
    writes = writes - set(('RszParity', paths.parity[f]) for f in created_empty if not any(os.path.basename(f) in x for x in changed_other))
    # ---- the property itself, independent of the model
    if expect == 'refuse':
        ctx.refusals += 1
        bad = []
        if not failing:
            bad.append('exit status %d is not a failure' % o.rc)
        if not o.r.err.strip():
            bad.append('no diagnostic on stderr')
        if changed_protected:
            bad.append('content or parity bytes changed (%s)' % ', '.join(changed_other))
        if created_empty:
            # exactly this shape: the refusal itself is right, but parity_create (O_CREAT) ran before the size test
            ctx.viol('refusal_creates_parity', 'REFUSED SYNC CREATES A PARITY FILE (%s): `%s %s` exits %d and changes no byte, but leaves the new empty file(s) %s where no parity file existed (parity_create opens with O_CREAT before the size test of state_sync)'
                     % (desc, cmd, ' '.join(opts), o.rc, ', '.join(os.path.basename(x) for x in created_empty)), rep, finding_key='F-C14-refused-sync-creates-empty-parity-file')
        if writes:
            bad.append('state-changing calls beyond lock/log: %s' % sorted(writes))
        if bad:
            ctx.viol('refusal', 'INTERLOCK NOT HONOURED (%s): `%s %s` %s' % (desc, cmd, ' '.join(opts), '; '.join(bad)), rep, finding_key=finding_key)
    elif expect == 'proceed':
        ctx.proceeds += 1
        if failing:
            ctx.viol('override', 'with the override / without the trigger the command still fails (%s): `%s %s` rc=%d: %s'
                     % (desc, cmd, ' '.join(opts), o.rc, o.r.err[-200:].replace('\n', ' | ')), rep, finding_key=finding_key)
        elif after_check and cmd == 'sync':
            r2 = a.run('check')
            if r2.rc != 0:
                ctx.viol('override_check', '`check` fails after the overridden sync (%s): %s' % (desc, r2.err[-200:].replace('\n', ' | ')), rep)
            perr, n = ([], 0)
            try:
                perr, n = a.check_parity()
            except Exception as e:
                perr = ['independent parity check could not run: %s' % e]
            if perr:
                ctx.viol('override_parity', 'independent parity check fails after the overridden sync (%s): %s' % (desc, perr[0]), rep)
    # ---- the tie with the model: exit class and effect class set, for some completion of the undetermined fields
    ctx.model_cmp += 1
    matched = False
    why = []
    for (ex, effs, reps), line in zip(preds, outs):
        mc = L.model_classes(effs) - {('WLog',)}
        oc = obs - {('WLog',)}
        if ex == 'Refused':
            okx = failing
        elif ex == 'Ok':
            okx = (o.rc == 0)
        elif ex == 'NeedSync':
            okx = (o.rc == 2)
        else:
            okx = failing
        if okx and mc == oc:
            matched = True
            break
        why.append('model %s %s' % (ex, sorted(mc)))
    if not matched:
        # which side satisfies the property?  a refusal expectation that the tool honoured means the model drifted
        rep['model_alternatives'] = why[:8]
        rep['observed_classes'] = sorted(map(str, obs))
        ctx.viol('drift', 'MODEL-DRIFT (%s): `%s %s` exit %d with effect classes %s; the command model predicts %s'
                 % (desc, cmd, ' '.join(opts), o.rc, sorted(obs - {('WLog',)}), '; or '.join(why[:3])), rep, no_input=True)
    # triggers seen (coverage): from the model's own trigger bits of the first completion
    tbits = outs[0].split(' T ')[-1].strip() if ' T ' in outs[0] else ''
    with ctx.lock:
        ctx.trig_seen[desc.split(':')[0]] = ctx.trig_seen.get(desc.split(':')[0], 0) + 1
    o.pre = d
    return o


def cross_check_scan(ctx, o, desc):
    """the harness's own scan classification against the tool's scan: tags (only when the scan completed)"""
    if not hasattr(o, 'pre'):
        return
    tags = o.r.tags
    if not any(t.startswith('scan:') for t in tags) or 'unexpected zero size' in o.r.err:
        return
    for c in o.pre['_scan']:
        n = c['name']

        def cnt(kind):
            return len([t for t in tags if t.startswith('scan:%s:%s:' % (kind, n))])
        cp = len([t for t in tags if t.startswith('scan:copy:') and len(t.split(':')) >= 6 and t.split(':')[4] == n])
        tool = (cnt('remove'), cnt('update'), cnt('add'), cp, cnt('move'), cnt('restore'))
        mine = (c['remove'], c['change'], c['insert'], c['copy'], c['move'], c['restore'])
        if tool != mine:
            ctx.viol('summary', 'HARNESS-DRIFT (%s): scan counters of disk %s computed by the harness (remove, update, add, copy, move, restore) = %s differ from the tool %s'
                     % (desc, n, mine, tool), {'scenario': desc, 'tags': [t for t in tags if t.startswith('scan:')][:40]}, no_input=True)


# ------------------------------------------------------------------------------------------------ scenarios

def files_of(a, d):
    """the files and links of a data disk that the array knows (not the content copy kept there, not the excluded *.bak)"""
    base = a.path(d, '')
    out = []
    for root, dirs, fs in os.walk(base):
        for n in fs:
            p = os.path.join(root, n)
            if n.endswith('.bak') or n.startswith('snapraid.content'):
                continue
            out.append(os.path.relpath(p, base))
    return sorted(out)


def trig_empty(a, rng, di, variant):
    """make disk di look unmounted / restored.  Returns True when the trigger is expected to fire."""
    d = a.disks[di]
    fl = files_of(a, d)
    if variant == 'all_removed':                 # files and links gone, the empty directory stays
        for f in fl:
            os.unlink(a.path(d, f))
        return True
    if variant == 'all_rewritten':               # same names, new content and time: the symlink must go too, it counts as equal
        for f in fl:
            p = a.path(d, f)
            if os.path.islink(p):
                os.unlink(p)
            else:
                a.write(d, f, rng.randbytes(os.path.getsize(p) + 1))
        return True
    if variant == 'mixed':
        for k, f in enumerate(fl):
            p = a.path(d, f)
            if os.path.islink(p) or k % 2:
                os.unlink(p)
            else:
                a.write(d, f, rng.randbytes(777))
        return True
    if variant == 'removed_plus_new':            # new files do not count as evidence that the disk is mounted
        for f in fl:
            os.unlink(a.path(d, f))
        a.write(d, 'brandnew', rng.randbytes(1500))
        return True
    if variant == 'renamed' and getattr(a, 'fake_uuid', False) and di < 2:
        # with trusted inodes the renamed files are recognised as moved: evidence that the disk is mounted
        for f in fl:
            p = a.path(d, f)
            if os.path.islink(p):
                os.unlink(p)
            else:
                os.rename(p, p + '.moved')
                a.note_version(d, f + '.moved')
        return False
    if variant == 'renamed':                     # without usable inodes a rename is remove + add
        for f in fl:
            p = a.path(d, f)
            if os.path.islink(p):
                os.unlink(p)
            else:
                os.rename(p, p + '.moved')
                a.note_version(d, f + '.moved')
        return True
    if variant == 'symlink_stays':               # every regular file gone, an unchanged symlink stays (scan.c counts it in `equal`)
        for f in fl:
            p = a.path(d, f)
            if not os.path.islink(p):
                os.unlink(p)
        return False
    if variant == 'one_file_stays':
        for f in fl[1:]:
            os.unlink(a.path(d, f))
        return not (len(fl) >= 1)
    other = a.disks[(di + 1) % a.nd]
    if variant == 'all_rewritten_pure':          # nothing removed: every file rewritten, the symlink retargeted (a change too)
        for f in fl:
            p = a.path(d, f)
            if os.path.islink(p):
                os.unlink(p); os.symlink('retargeted', p)
            else:
                a.write(d, f, rng.randbytes(os.path.getsize(p) + 3))
        return True
    if variant == 'two_disks_removed':
        for dd in (d, other):
            for f in files_of(a, dd):
                os.unlink(a.path(dd, f))
        return True
    if variant in ('removed_plus_copies', 'removed_plus_moved_in'):
        # every recorded file gone; new files that the scan recognises as COPIES of files of another disk (same name, size, time)
        for f in fl:
            os.unlink(a.path(d, f))
        srcs = [f for f in files_of(a, other) if not os.path.islink(a.path(other, f)) and os.path.getsize(a.path(other, f)) > 0][:2] + ['wholesec']
        for f in srcs:
            src, dst = a.path(other, f), a.path(d, f)
            os.makedirs(os.path.dirname(dst), exist_ok=True)
            st = os.stat(src)
            shutil.copyfile(src, dst)
            os.utime(dst, ns=(st.st_mtime_ns, st.st_mtime_ns))
            a.note_version(d, f)
            if variant == 'removed_plus_moved_in':
                os.unlink(src)
        return True
    if variant == 'restored':                    # same names, sizes, times, new inodes (a restore that keeps time-stamps): not a trigger
        for f in fl:
            p = a.path(d, f)
            if os.path.islink(p):
                continue
            st = os.stat(p)
            data = open(p, 'rb').read()
            with open(p + '.tmp~', 'wb') as g:
                g.write(data)
            os.utime(p + '.tmp~', ns=(st.st_mtime_ns, st.st_mtime_ns))
            os.rename(p + '.tmp~', p)
        return False
    raise KeyError(variant)


def trig_zero(a, rng, di, variant):
    d = a.disks[di]
    cands = [f for f in files_of(a, d) if not os.path.islink(a.path(d, f)) and os.path.getsize(a.path(d, f)) > 0
             and not os.path.basename(f).startswith(('new', 'f', 'c'))]          # recorded files untouched by add_pending
    f = cands[rng.randrange(len(cands))]
    p = a.path(d, f)
    st = os.stat(p)
    if variant == 'truncate':
        open(p, 'wb').close()
        a.note_version(d, f)
        return True
    if variant == 'truncate_keep_mtime':
        open(p, 'wb').close()
        os.utime(p, ns=(st.st_mtime_ns, st.st_mtime_ns))
        a.note_version(d, f)
        return True
    if variant == 'truncate_renamed':            # a zero-size file under another name is a new file: no trigger
        open(p, 'wb').close()
        os.rename(p, p + '.z')
        a.note_version(d, f + '.z')
        return False
    if variant == 'empty_stays_empty':           # a recorded empty file rewritten empty: no trigger
        e = [x for x in files_of(a, d) if not os.path.islink(a.path(d, x)) and os.path.getsize(a.path(d, x)) == 0][0]
        a.write(d, e, b'')
        return False
    if variant == 'to_one_byte':
        a.write(d, f, b'x')
        return False
    if variant in ('replaced_empty_new_inode', 'replaced_empty_new_inode_keep_mtime'):
        # an interrupted "write to a temporary file + rename": the name now holds an EMPTY file with ANOTHER inode
        with open(p + '.tmp~', 'wb'):
            pass
        if variant.endswith('keep_mtime'):
            os.utime(p + '.tmp~', ns=(st.st_mtime_ns, st.st_mtime_ns))
        os.rename(p + '.tmp~', p)
        if os.stat(p).st_ino == st.st_ino:
            raise RuntimeError('inode reused')
        a.note_version(d, f)
        return True
    raise KeyError(variant)


def trig_parity(a, rng, lvl, variant, used):
    f = a.parity_files[lvl][0]
    bs = a.bs
    if variant == 'delete':
        os.unlink(f)
        return used > 0
    if variant == 'truncate_zero':
        os.truncate(f, 0)
        return used > 0
    if variant == 'one_block_short':
        os.truncate(f, (used - 1) * bs)
        return True
    if variant == 'one_byte_short':              # floor(size / block size) < used
        os.truncate(f, used * bs - 1)
        return True
    if variant == 'exact':                       # exactly the used size: no trigger (size of the file may exceed it)
        os.truncate(f, used * bs)
        return False
    if variant.startswith('cut'):
        # byte-granular: the file loses k bytes INSIDE its last used block (cut1, cut100, cutbsm1) -- with recorded sizes the
        # unaligned size is accepted by parity_create, so only the block count (rounded DOWN) can notice
        k = {'cut1': 1, 'cut100': 100, 'cutbsm1': bs - 1}[variant]
        fs = a.parity_files[lvl]
        tot = sum(os.path.getsize(x) for x in fs)
        if len(fs) == 1 or os.path.getsize(fs[1]) == 0:
            os.truncate(f, used * bs - k)
            return True
        # the parity is spread over two files: cut the last one so that the total is used * bs - k
        sz0 = os.path.getsize(fs[0])
        os.truncate(fs[1], used * bs - k - sz0)
        return True
    if variant.startswith('midcut'):
        # inside a NON-last used block of a NON-last split: the first file loses its last block and 100 more bytes
        fs = a.parity_files[lvl]
        sizes = [os.path.getsize(x) for x in fs]
        if min(sizes) < 2 * bs:
            raise RuntimeError('split parity not spread over both files: %s' % sizes)
        os.truncate(fs[0], sizes[0] - bs - 100)
        return (sizes[0] - bs - 100) // bs < used
    if variant == 'split0_short_tail':
        # the tail of the array is free (files deleted, see the scenario): used < blocks recorded for the level.  The FIRST file loses
        # everything from block used-1 on; the later file is intact: its size must not make up for the hole
        fs = a.parity_files[lvl]
        sizes = [os.path.getsize(x) for x in fs]
        if min(sizes) < bs or used < 2 or (used - 1) * bs >= sizes[0]:
            raise RuntimeError('cannot build split0_short_tail: sizes %s used %d' % (sizes, used))
        os.truncate(fs[0], (used - 1) * bs)
        return True
    if variant.startswith('split'):
        # a level made of two files, both holding parity: one of them truncated by a block, or lost and recreated empty
        k = int(variant[5])
        fs = a.parity_files[lvl]
        sizes = [os.path.getsize(x) for x in fs]
        if min(sizes) < 2 * bs:
            raise RuntimeError('split parity not spread over both files: %s' % sizes)
        if variant.endswith('_short'):
            os.truncate(fs[k], sizes[k] - bs)
        elif variant.endswith('_lost'):
            os.unlink(fs[k])
            open(fs[k], 'wb').close()
        else:
            raise KeyError(variant)
        now = [os.path.getsize(x) for x in fs]
        valid = now[0] if now[0] < sizes[0] else sizes[0] + min(now[1], sizes[1])
        return valid // bs < used
    raise KeyError(variant)


def scenario_sync_trigger(ctx, seed, kind, where, variant, pending, shape, fmt=None, uuid=False, extra=(), content_del=None, content_on=None):
    """fmt: None (version-2 content, no recorded parity sizes) | 'hashsize8' | 'split2' | 'split2lim' (version-3 content: 'Q'
    records with the split sizes; split2lim: the parity of every level really spread over two files)"""
    rng = random.Random(seed)
    nd, np_, nc = shape
    a = new_array(ctx, rng, nd=nd, np_=np_, ncontent=nc, hashsize=8 if fmt == 'hashsize8' else None, splits=2 if fmt in ('split2', 'split2lim') else 1, uuid=uuid, content_on=content_on,
                  parity_limit=8192 if fmt == 'split2lim' else None)
    paths = L.Paths(a)
    desc = '%s:%s@%d%s nd=%d np=%d nc=%d%s%s' % (kind, variant, where, '+pending' if pending else '', nd, np_, nc, ' ' + fmt if fmt else '', ' uuid' if uuid else '')
    replay = {'seed': seed, 'kind': kind, 'where': where, 'variant': variant, 'pending': pending, 'shape': shape, 'content_format': fmt, 'fake_uuid': uuid}
    if uuid:
        st0 = a.content()
        if not all(m['uuid'] for m in st0['maps'][:2]):
            raise RuntimeError('--test-fake-uuid did not record UUIDs')
    extra = list(extra)
    if extra or content_del is not None:
        desc += ' opts=%s%s' % (' '.join(extra), ' content copy %d deleted' % content_del if content_del is not None else '')
        replay.update({'extra_opts': extra, 'content_deleted': content_del})
    try:
        if pending:
            add_pending(a, rng)
        if content_on is not None:
            desc += ' content copy and excluded *.bak on d%d' % (content_on + 1)
            replay['content_on'] = content_on
        if content_del is not None and nc > 1:
            if content_del >= 0:
                os.unlink(a.content_files[content_del % nc])
            else:
                # a copy other than the first with another size (broken): the first one is loaded, all are rewritten by a sync that proceeds
                cf = a.content_files[1 + (-content_del) % (nc - 1)]
                os.truncate(cf, os.path.getsize(cf) - 7)
        if kind == 'empty':
            fires = trig_empty(a, rng, where, variant)
            ov = [['--force-empty']]
        elif kind == 'zero':
            fires = trig_zero(a, rng, where, variant)
            ov = [['--force-zero']]
        else:
            if variant == 'split0_short_tail':
                # pending deletions at the tail of the array: every file with a block in the last quarter of the first split or beyond
                st0 = a.content()
                cut = (os.path.getsize(a.parity_files[where][0]) // a.bs) * 3 // 4
                for dn, dd in st0['disks'].items():
                    for f in dd['files']:
                        if any(pos >= cut for _, pos, _ in f['blocks']):
                            pth = a.path(dn, f['sub'].decode('latin1'))
                            if os.path.lexists(pth):
                                os.unlink(pth)
            d0 = L.presummary(a, paths, 'sync', [])
            fires = trig_parity(a, rng, where, variant, d0['used'])
            ov = [['-F'], ['-R']]
        # a wrong override must not help
        wrong = {'empty': ['--force-zero'], 'zero': ['--force-empty'], 'parity': ['--force-empty', '--force-zero']}[kind]
        links_only = kind == 'empty' and variant == 'symlink_stays'
        if links_only:
            # property text: "all files previously known on a data disk are missing or rewritten" -> refuse.  scan.c counts the
            # unchanged symbolic link in `equal`, so the rule does not fire and the sync proceeds: an open finding of exactly this
            # shape (every regular file of the disk missing, at least one unchanged link recorded on it)
            o = run_case(ctx, a, paths, 'sync', extra, 'refuse', desc + ' [every regular file of the disk missing, an unchanged link stays]', replay,
                         finding_key='F-C14-links-disarm-empty-disk-interlock')
            cross_check_scan(ctx, o, desc)
            if o.rc != 0:
                run_case(ctx, a, paths, 'sync', ['--force-empty'] + extra, 'proceed', desc + ' override', replay)
            return
        if fires:
            if kind == 'parity' and fmt:
                # with recorded split sizes (version-3 content) the test must look at the files, not at the recorded sizes
                desc += ' [REGRESSION of F-C14-short-parity-undetected-with-recorded-sizes (repaired by 03a455c) if not refused]'
            o = run_case(ctx, a, paths, 'sync', extra, 'refuse', desc, replay)
            cross_check_scan(ctx, o, desc)
            if kind == 'parity' and fmt and o.rc == 0:
                return
            run_case(ctx, a, paths, 'sync', wrong + extra, 'refuse', desc + ' wrong-override', replay)
            if kind != 'parity' and (ctx.tier == 'thorough' or seed % 3 == 0 or uuid or variant.startswith('removed_plus')):
                # diff only warns
                o = run_case(ctx, a, paths, 'diff', [], None, desc + ' diff', replay)
                if o.rc != 2:
                    ctx.viol('diff', 'diff on a triggered array does not end with "sync needed" (rc %d) (%s)' % (o.rc, desc), replay)
            # a parity file whose size is not a multiple of the block size cannot even be opened when the content file
            # records no split size (parity.c:228-236): the forced rebuild does not get through either
            fk = 'F-C14-unaligned-parity-size-blocks-forced-rebuild' if (kind == 'parity' and variant == 'one_byte_short') else None
            o = run_case(ctx, a, paths, 'sync', ov[seed % len(ov)] + [x for x in extra if x not in ('-N', '-h') or ov[seed % len(ov)][0] not in ('-F', '-R')], 'proceed', desc + ' override', replay, finding_key=fk, after_check=not any(x in extra for x in ('-B', '-S')))
            if fk and o.rc != 0:
                # the documented way out: remove the damaged parity file, then force the rebuild
                os.unlink(a.parity_files[where][0])
                run_case(ctx, a, paths, 'sync', ['-F'], 'proceed', desc + ' override after deleting the unaligned parity file', replay)
        else:
            if uuid or seed % 2 == 0:
                run_case(ctx, a, paths, 'diff', ['-v'], None, desc + ' diff -v (no trigger expected)', replay)
            o = run_case(ctx, a, paths, 'sync', extra, 'proceed', desc + ' (no trigger expected)', replay, after_check=not any(x in extra for x in ('-B', '-S')))
            cross_check_scan(ctx, o, desc)
    finally:
        shutil.rmtree(a.root, ignore_errors=True)


def edit_conf(a, fn):
    lines = open(a.conf).read().split('\n')
    lines = fn(lines)
    open(a.conf, 'w').write('\n'.join(lines))


def scenario_uuid(ctx, seed, kind, np_, pending):
    """valid UUIDs (--test-fake-uuid).  `renamed`: a disk renamed in the configuration is recognised by its UUID by the commands
    that access the disks (sync proceeds and renames), not by status/list/dup (they refuse).  `swapped`: both data disks
    show the other's UUID: 2 changes; refused when that exceeds the number of parity levels unless -U"""
    rng = random.Random(seed)
    a = new_array(ctx, rng, nd=2, np_=np_, ncontent=2, uuid=True)
    paths = L.Paths(a)
    desc = 'uuid:%s np=%d%s' % (kind, np_, '+pending' if pending else '')
    replay = {'seed': seed, 'kind': 'uuid_' + kind, 'np': np_, 'pending': pending}
    try:
        if pending:
            add_pending(a, rng)
        if kind == 'renamed':
            edit_conf(a, lambda ls: [l.replace('disk d1 ', 'disk d1x ') if l.startswith('disk d1 ') else l for l in ls])
            a.disks = ['d1x', 'd2']
            for c in ('status', 'list', 'dup'):
                run_case(ctx, a, paths, c, [], 'refuse', desc + ' ' + c + ' (no disk access: no UUID to match)', replay)
            run_case(ctx, a, paths, 'diff', [], None, desc + ' diff', replay)
            o = run_case(ctx, a, paths, 'sync', [], 'proceed', desc + ' sync renames', replay, after_check=False)
            if 'Renaming disk' not in o.r.err:
                ctx.viol('uuid_rename', 'a disk renamed in the configuration and matched by UUID is not reported as renamed: %s' % o.r.err[-200:], replay)
            run_case(ctx, a, paths, 'status', [], 'proceed', desc + ' status after the rename was saved', replay)
        else:
            def swap(ls):
                i1 = [i for i, l in enumerate(ls) if l.startswith('disk d1 ')][0]
                i2 = [i for i, l in enumerate(ls) if l.startswith('disk d2 ')][0]
                ls[i1], ls[i2] = ls[i2], ls[i1]
                return ls
            edit_conf(a, swap)
            if np_ < 2:
                for c in ('sync', 'check', 'diff', 'scrub', 'fix'):
                    o = run_case(ctx, a, paths, c, [], 'refuse', desc + ' ' + c, replay)
                    if 'UUID' not in o.r.err:
                        ctx.viol('uuid_msg', 'refusal for changed UUIDs does not say so (%s): %s' % (c, o.r.err[-200:]), replay)
                run_case(ctx, a, paths, 'status', [], 'proceed', desc + ' status (no disk access)', replay)
                run_case(ctx, a, paths, 'sync', ['-U'], 'proceed', desc + ' override -U', replay)
            else:
                run_case(ctx, a, paths, 'sync', [], 'proceed', desc + ' (2 changes <= 2 levels: no trigger expected)', replay)
    finally:
        shutil.rmtree(a.root, ignore_errors=True)


def scenario_uuid_empty(ctx, seed, np_, where, variant):
    """an emptied data disk whose UUID ALSO differs from the one recorded at the last sync (an unmounted / replaced disk): the
    UUID-change limit comes first (state_map, while loading), then the empty-disk rule of the scan; neither hides the other"""
    rng = random.Random(seed)
    a = new_array(ctx, rng, nd=2, np_=np_, ncontent=2, uuid=True)
    paths = L.Paths(a)
    desc = 'uuid:swapped+empty:%s@%d np=%d' % (variant, where, np_)
    replay = {'seed': seed, 'kind': 'uuid_empty', 'np': np_, 'where': where, 'variant': variant}
    try:
        def swap(ls):
            i1 = [i for i, l in enumerate(ls) if l.startswith('disk d1 ')][0]
            i2 = [i for i, l in enumerate(ls) if l.startswith('disk d2 ')][0]
            ls[i1], ls[i2] = ls[i2], ls[i1]
            return ls
        edit_conf(a, swap)
        if not trig_empty(a, rng, where, variant):
            raise RuntimeError('variant %s is not a trigger' % variant)
        if np_ < 2:
            o = run_case(ctx, a, paths, 'sync', [], 'refuse', desc + ' (UUID limit first)', replay)
            o = run_case(ctx, a, paths, 'sync', ['--force-empty'], 'refuse', desc + ' --force-empty does not lift the UUID limit', replay)
            o = run_case(ctx, a, paths, 'sync', ['-U'], 'refuse', desc + ' -U does not lift the empty-disk rule', replay)
            if 'missing or have been rewritten' not in o.r.err.replace('\n', ' '):
                ctx.viol('uuid_empty_msg', 'refusal without the empty-disk diagnostic (%s): %s' % (desc, o.r.err[-200:]), replay)
            run_case(ctx, a, paths, 'sync', ['-U', '--force-empty'], 'proceed', desc + ' both overrides', replay)
        else:
            o = run_case(ctx, a, paths, 'sync', [], 'refuse', desc + ' (2 UUID changes <= 2 levels: the empty-disk rule decides)', replay)
            cross_check_scan(ctx, o, desc)
            run_case(ctx, a, paths, 'sync', ['-U'], 'refuse', desc + ' -U', replay)
            run_case(ctx, a, paths, 'diff', [], None, desc + ' diff', replay)
            run_case(ctx, a, paths, 'sync', ['--force-empty'], 'proceed', desc + ' override', replay)
    finally:
        shutil.rmtree(a.root, ignore_errors=True)


def scenario_range(ctx, seed, shape, pending):
    """sync -S beyond the end of the array refuses before anything is touched; -S/-B inside proceed"""
    rng = random.Random(seed)
    nd, np_, nc = shape
    a = new_array(ctx, rng, nd=nd, np_=np_, ncontent=nc)
    paths = L.Paths(a)
    replay = {'seed': seed, 'kind': 'range', 'shape': shape}
    try:
        if pending:
            add_pending(a, rng)
        run_case(ctx, a, paths, 'sync', ['-S', '100000'], 'refuse', 'range:start beyond the end', replay)
        run_case(ctx, a, paths, 'sync', ['-S', '1', '-B', '2'], 'proceed', 'range:inside', replay, after_check=False)
        run_case(ctx, a, paths, 'sync', ['-h'], 'proceed', 'range:then pre-hash sync', replay)
    finally:
        shutil.rmtree(a.root, ignore_errors=True)


def scenario_conf(ctx, seed, kind, where, pending, shape):
    """block size / hash size / missing disk: no override exists; every state-loading command refuses"""
    rng = random.Random(seed)
    nd, np_, nc = shape
    hs = 8 if kind == 'hashsize_recorded' else None
    a = new_array(ctx, rng, nd=nd, np_=np_, ncontent=nc, hashsize=hs)
    paths = L.Paths(a)
    desc = 'conf:%s@%d%s nd=%d np=%d nc=%d' % (kind, where, '+pending' if pending else '', nd, np_, nc)
    replay = {'seed': seed, 'kind': kind, 'where': where, 'pending': pending, 'shape': shape}
    try:
        if pending:
            add_pending(a, rng)
        orig = open(a.conf).read()
        hook = None
        if kind == 'blocksize':
            edit_conf(a, lambda ls: [('blocksize %d' % (2 << where)) if l.startswith('blocksize') else l for l in ls])
        elif kind == 'hashsize_recorded':        # content has a 'y' record (8); configuration goes back to the default / 12
            newv = [None, 4, 16][where % 3]
            edit_conf(a, lambda ls: [l for l in ls if not l.startswith('hashsize')] + (['hashsize %d' % newv] if newv else []))
        elif kind == 'hashsize_default':         # content written with the default (no 'y' record); configuration says 8
            edit_conf(a, lambda ls: ls + ['hashsize 8'])
            ctx.notes.add("hash size mismatch with a content file lacking the 'y' record (default 16) is refused only through a decoding failure (abort), not by the explicit test of state.c:2505")
        elif kind == 'disk_removed':
            dn = a.disks[where]
            edit_conf(a, lambda ls: [l for l in ls if not l.startswith('disk %s ' % dn)])
        elif kind == 'disk_renamed':
            dn = a.disks[where]
            edit_conf(a, lambda ls: [l.replace('disk %s ' % dn, 'disk %sx ' % dn) if l.startswith('disk %s ' % dn) else l for l in ls])
        cmds = ['sync', 'status', 'check', 'scrub', 'fix', 'diff', 'list', 'dup', 'touch']
        if ctx.tier == 'quick':
            cmds = ['sync'] + [cmds[1 + (seed + k) % (len(cmds) - 1)] for k in range(2)]
        for c in cmds:
            opts = ['--force-empty', '--force-zero'] if c == 'sync' and seed % 2 else []
            o = run_case(ctx, a, paths, c, opts, 'refuse', desc + ' ' + c, replay)
        # the array-level override: restore the configuration
        open(a.conf, 'w').write(orig)
        run_case(ctx, a, paths, 'sync', [], 'proceed', desc + ' configuration restored', replay)
        if kind == 'disk_renamed' and where == 0:
            # a unique UUID match renames instead of refusing; the sandbox has no UUIDs: --test-match-first-uuid maps to the first disk
            dn = a.disks[0]
            edit_conf(a, lambda ls: [l.replace('disk %s ' % dn, 'disk %sx ' % dn) if l.startswith('disk %s ' % dn) else l for l in ls])

            def hook2(d):
                d['unknown_disk'] = False
                d['read_need_write'] = True
                d['_unknown'] = [u for u in d['_unknown'] if u != 'read_need_write']
            # the scan summary is computed for the renamed disk name: give the harness the recorded name
            o = L.observe(a, paths, 'sync', ['--test-match-first-uuid'])
            if o.rc != 0:
                ctx.viol('uuid_rename', 'a disk renamed in the configuration and matched by UUID is not accepted (rc %d): %s' % (o.rc, o.r.err[-200:]), replay)
            ctx.runs += 1
    finally:
        shutil.rmtree(a.root, ignore_errors=True)


LOCK_CMDS = ['sync', 'scrub', 'fix', 'check', 'status', 'diff', 'list', 'dup', 'pool', 'touch']


def scenario_lock_held(ctx, seed, shape):
    """the lock taken exactly as the tool takes it (util.c lock_lock: open O_CREAT|O_TRUNC|O_WRONLY, flock LOCK_EX|LOCK_NB)"""
    rng = random.Random(seed)
    nd, np_, nc = shape
    a = new_array(ctx, rng, nd=nd, np_=np_, ncontent=nc)
    paths = L.Paths(a)
    replay = {'seed': seed, 'kind': 'lock_held', 'shape': shape}
    holder = None
    try:
        add_pending(a, rng)
        holder = L.hold_lock(a)
        cmds = LOCK_CMDS if ctx.tier == 'thorough' else ['sync'] + [LOCK_CMDS[1 + (seed + k) % (len(LOCK_CMDS) - 1)] for k in range(3)]
        for c in cmds:
            o = run_case(ctx, a, paths, c, [], 'refuse', 'lock:held by another process ' + c, replay)
            if 'already in use' not in o.r.err:
                ctx.viol('lock_msg', 'refusal under a held lock does not name the lock (%s): %s' % (c, o.r.err[-200:]), replay)
        # devices does not take the lock
        o = run_case(ctx, a, paths, 'devices', [], None, 'lock:devices ignores the lock', replay)
        # --test-skip-lock is the (test-only) override
        run_case(ctx, a, paths, 'status', ['--test-skip-lock'], 'proceed', 'lock:--test-skip-lock', replay)
        L.release_lock(holder)
        holder = None
        run_case(ctx, a, paths, 'sync', [], 'proceed', 'lock:released', replay)
    finally:
        if holder is not None:
            holder.kill()
        shutil.rmtree(a.root, ignore_errors=True)


def scenario_lock_live(ctx, seed, shape, first, offsets):
    """a real first command holding the lock (sync paused after its scan by --test-run 'sleep'), second commands started
    at several offsets while it runs: all must refuse and change nothing; once it has ended the same command proceeds"""
    rng = random.Random(seed)
    nd, np_, nc = shape
    a = new_array(ctx, rng, nd=nd, np_=np_, ncontent=nc)
    paths = L.Paths(a)
    replay = {'seed': seed, 'kind': 'lock_live', 'shape': shape, 'first': first}
    try:
        add_pending(a, rng)
        hold = max(offsets) + 1.2
        a.ncmd += 1
        logf = os.path.join(a.root, 'log%d.txt' % a.ncmd)
        args = [a.bin] + BASE_OPTS + ['-c', a.conf, '-l', logf, '--test-run', 'sleep %.1f' % hold, 'sync']
        env = dict(os.environ); env.pop('LD_PRELOAD', None)
        p1 = subprocess.Popen(args, stdout=subprocess.PIPE, stderr=subprocess.PIPE, env=env, cwd=a.root)
        t0 = time.time()
        while time.time() - t0 < 5 and L.lock_is_free(a):
            time.sleep(0.01)
        if L.lock_is_free(a):
            p1.kill()
            ctx.viol('lock_live', 'a running sync does not hold the lock on %s.lock' % a.content_files[0], replay)
            return
        tl = time.time()
        seconds = [first] + [LOCK_CMDS[(seed + k) % len(LOCK_CMDS)] for k in range(len(offsets) - 1)]
        for off, c in zip(offsets, seconds):
            dt = tl + off - time.time()
            if dt > 0:
                time.sleep(dt)
            if p1.poll() is not None:
                break
            before = protected_bytes(a)
            r = a.run(c, shim_env={})
            alive = p1.poll() is None
            after = protected_bytes(a)
            with ctx.lock:
                ctx.runs += 1
            if not alive:
                break                                # the first command ended meanwhile: not a lock test any more
            ctx.refusals += 1
            bad = []
            if r.rc == 0:
                bad.append('exit status 0')
            if 'already in use' not in r.err:
                bad.append('no lock diagnostic')
            # the first command is paused in system(): nothing may change meanwhile
            if before != after:
                bad.append('content or parity bytes changed while the first command was paused')
            if bad:
                ctx.viol('lock_live', 'LOCK NOT HONOURED: `%s` started %.2fs into a running sync: %s' % (c, off, '; '.join(bad)),
                         dict(replay, second=c, offset=off, rc=r.rc, stderr=r.err[-300:]))
        out, err = p1.communicate(timeout=60)
        if p1.returncode != 0:
            ctx.viol('lock_live_first', 'the first sync failed (rc %s): %s' % (p1.returncode, err.decode('latin1')[-200:]), replay)
        r = a.run(first)
        if r.rc != 0 and first not in ('diff',):
            ctx.viol('lock_live_after', 'after the first command ended `%s` still fails (rc %d): %s' % (first, r.rc, r.err[-200:]), replay)
        ctx.proceeds += 1
    finally:
        shutil.rmtree(a.root, ignore_errors=True)


def build_pause_shim(snap):
    out = os.path.join(snap, 'c14_pause.so')
    if not os.path.exists(out):
        r = run(['gcc', '-shared', '-fPIC', '-O1', '-o', out, os.path.join(VERIF, 'harness', 'c', 'c14_pause.c'), '-ldl'])
        if r.returncode != 0:
            raise BuildError(r.stdout)
    return out


def scenario_lock_three(ctx, seed, shape, first):
    """three commands, one interleaving: P1 ends (if it removes its lock file, it is paused between releasing the flock and
    removing the path); P2 starts and holds the lock; P1 is let go; P3 starts while P2 runs: P3 must be refused."""
    rng = random.Random(seed)
    nd, np_, nc = shape
    a = new_array(ctx, rng, nd=nd, np_=np_, ncontent=nc)
    replay = {'seed': seed, 'kind': 'lock_three', 'shape': shape, 'first': first}
    lockp = a.content_files[0] + '.lock'
    p1 = p2 = None
    try:
        add_pending(a, rng)
        env = dict(os.environ); env.pop('LD_PRELOAD', None)
        env1 = dict(env, LD_PRELOAD=ctx.pause_shim, C14_PAUSE_MS='8000')
        base = [a.bin] + BASE_OPTS + ['-c', a.conf]
        p1 = subprocess.Popen(base + [first], stdout=subprocess.PIPE, stderr=subprocess.PIPE, env=env1, cwd=a.root)
        t0 = time.time()
        while time.time() - t0 < 6 and p1.poll() is None and not os.path.exists(lockp + '.paused'):
            time.sleep(0.01)
        paused = os.path.exists(lockp + '.paused') and p1.poll() is None
        p2 = subprocess.Popen(base + ['--test-run', 'sleep 1.5', 'sync'], stdout=subprocess.PIPE, stderr=subprocess.PIPE, env=env, cwd=a.root)
        t0 = time.time()
        while time.time() - t0 < 5 and L.lock_is_free(a) and p2.poll() is None:
            time.sleep(0.01)
        if p2.poll() is not None or L.lock_is_free(a):
            out2, err2 = p2.communicate()
            ctx.viol('lock_three_p2', 'second command could not take the lock after the first one ended (rc %s): %s' % (p2.returncode, err2.decode('latin1')[-200:]), replay)
            return
        if paused:
            open(lockp + '.go', 'w').close()
        p1.communicate(timeout=30)
        before = protected_bytes(a)
        r3 = a.run('sync', shim_env={})
        alive = p2.poll() is None
        after = protected_bytes(a)
        with ctx.lock:
            ctx.runs += 1
            ctx.refusals += 1
        if alive:
            bad = []
            if r3.rc == 0:
                bad.append('exit status 0: it ran concurrently with the command holding the lock')
            if 'already in use' not in r3.err:
                bad.append('no lock diagnostic')
            if before != after:
                bad.append('content or parity bytes changed')
            if bad:
                ctx.viol('lock_three', 'LOCK NOT HONOURED (three commands: `%s` ended%s, `sync` holds the lock, a third `sync` started): %s'
                         % (first, ' and removed the lock file' if paused else '', '; '.join(bad)), dict(replay, rc=r3.rc, stderr=r3.err[-300:], first_removed_lock_file=paused))
        p2.communicate(timeout=60)
        if paused:
            ctx.viol('lock_removed3', 'LOCK FILE REMOVED: `%s` removes %s after releasing the flock' % (first, lockp), replay)
        for x in (lockp + '.paused', lockp + '.go'):
            if os.path.exists(x):
                os.unlink(x)
        r = a.run('sync')
        if r.rc != 0:
            ctx.viol('lock_three_after', 'after all commands ended `sync` fails (rc %d): %s' % (r.rc, r.err[-200:]), replay)
        ctx.proceeds += 1
    finally:
        for p in (p1, p2):
            if p is not None and p.poll() is None:
                p.kill()
        shutil.rmtree(a.root, ignore_errors=True)


def scenario_rewritten_as_copies(ctx, seed, uuid):
    """every file of d1 overwritten by a copy (same name, size, time) of the file of the same name of d2: the scan counts them as
    COPY, not as change, so with nothing removed the rule of scan.c:1837 does not fire (model and tool must agree; noted)"""
    rng = random.Random(seed)
    a = (UArray if uuid else Array)(ctx.binary, nd=2, np_=1, ncontent=1, shim=ctx.shim)
    paths = L.Paths(a)
    try:
        k = 0
        for d in a.disks:
            for n in ('p', 'q', 'dir/r'):
                k += 1
                a.write(d, n, rng.randbytes(1500 + 700 * k), mtime_ns=(1700000000 + 13 * k) * 10**9 + 100 + k)
        if a.run('sync').rc != 0:
            raise RuntimeError('initial sync failed')
        for n in ('p', 'q', 'dir/r'):
            src, dst = a.path('d2', n), a.path('d1', n)
            st = os.stat(src)
            shutil.copyfile(src, dst)
            os.utime(dst, ns=(st.st_mtime_ns, st.st_mtime_ns))
            a.note_version('d1', n)
        o = run_case(ctx, a, paths, 'sync', [], None, 'empty:all files of d1 rewritten as copies of d2 (copy counter, not change)%s' % (' uuid' if uuid else ''),
                     {'seed': seed, 'kind': 'rewritten_as_copies', 'fake_uuid': uuid})
        cross_check_scan(ctx, o, 'rewritten_as_copies')
        if o.rc == 0:
            ctx.notes.add('a disk whose files are ALL rewritten as copies (same name, size, time) of files of another disk is not refused: the scan counts them in `copy`, the all-rewritten rule (scan.c:1837-1841) looks at `change` only')
    finally:
        shutil.rmtree(a.root, ignore_errors=True)


def scenario_zero_states(ctx, seed, kind, shape, uuid):
    """the zero-size interlock for files in every recorded state: `partly` (some blocks synced, some not: a partial sync),
    `never` (recorded, no block synced: a range that did not reach it), `killed` (recorded by the early save of a sync that
    never wrote its final state), `copy` (copy-detected: REP blocks).  Truncated to zero, every one of them must be refused."""
    rng = random.Random(seed)
    nd, np_, nc = shape
    a = new_array(ctx, rng, nd=nd, np_=np_, ncontent=nc, uuid=uuid)
    paths = L.Paths(a)
    desc = 'zero:recorded %s nd=%d np=%d nc=%d%s' % (kind, nd, np_, nc, ' uuid' if uuid else '')
    replay = {'seed': seed, 'kind': 'zero_states', 'state': kind, 'shape': shape, 'fake_uuid': uuid}
    try:
        d = a.disks[seed % nd]
        name = 'victim'
        if kind == 'copy':
            other = a.disks[(seed + 1) % nd]
            name = 'f%d' % ((seed + 1) % nd)
            src = a.path(other, name); st0 = os.stat(src)
            shutil.copyfile(src, a.path(d, name)); os.utime(a.path(d, name), ns=(st0.st_mtime_ns, st0.st_mtime_ns))
            a.note_version(d, name)
        else:
            a.write(d, name, rng.randbytes(4 * 1024 + 100))
        if kind == 'killed':
            r = a.run('sync', '--test-kill-after-sync')
        else:
            r = a.run('sync', '-S', '0', '-B', '1')
        if r.rc != 0:
            raise RuntimeError('intermediate sync failed: %r' % r)
        st = a.content()
        f = [x for x in st['disks'][d]['files'] if x['sub'].decode('latin1') == name][0]
        if kind == 'partly':
            p0 = f['blocks'][0][1]
            r = a.run('sync', '-S', str(p0), '-B', '2')
            if r.rc != 0:
                raise RuntimeError('partial sync failed: %r' % r)
            st = a.content()
            f = [x for x in st['disks'][d]['files'] if x['sub'].decode('latin1') == name][0]
        states = [b_[0] for b_ in f['blocks']]
        want = {'partly': lambda s_: 'BLK' in s_ and any(x != 'BLK' for x in s_), 'never': lambda s_: all(x == 'CHG' for x in s_),
                'killed': lambda s_: all(x == 'CHG' for x in s_), 'copy': lambda s_: all(x == 'REP' for x in s_)}[kind]
        if not want(states):
            raise RuntimeError('could not bring %s:%s into the state `%s`: blocks %s' % (d, name, kind, states))
        replay['block_states'] = states
        p = a.path(d, name)
        open(p, 'wb').close()
        a.note_version(d, name)
        o = run_case(ctx, a, paths, 'sync', [], 'refuse', desc, replay)
        if 'zero size' not in o.r.err and o.rc != 0:
            ctx.viol('zero_msg', 'refusal without the zero-size diagnostic (%s): %s' % (desc, o.r.err[-200:]), replay)
        run_case(ctx, a, paths, 'sync', ['--force-empty'], 'refuse', desc + ' wrong-override', replay)
        run_case(ctx, a, paths, 'sync', ['--force-zero'], 'proceed', desc + ' override', replay)
    finally:
        shutil.rmtree(a.root, ignore_errors=True)


def scenario_empty_dirs_only(ctx, seed):
    """a disk that only ever held empty directories: removing them is not `all files missing`"""
    rng = random.Random(seed)
    a = Array(ctx.binary, nd=2, np_=1, ncontent=1, shim=ctx.shim)
    paths = L.Paths(a)
    try:
        a.write('d1', 'x', rng.randbytes(2000), mtime_ns=1700000000 * 10**9 + 5)
        os.makedirs(a.path('d2', 'only/empty/dirs'))
        os.makedirs(a.path('d2', 'other'))
        assert a.run('sync').rc == 0
        shutil.rmtree(a.path('d2', 'only'))
        shutil.rmtree(a.path('d2', 'other'))
        run_case(ctx, a, paths, 'sync', [], 'proceed', 'empty:disk with only empty dirs, dirs removed (no trigger expected)', {'seed': seed, 'kind': 'empty_dirs_only'})
    finally:
        shutil.rmtree(a.root, ignore_errors=True)


def scenario_hardlink(ctx, seed):
    """a disk whose files are all removed except a hardlink name: the surviving name is a new file, the trigger fires"""
    rng = random.Random(seed)
    a = Array(ctx.binary, nd=2, np_=1, ncontent=1, shim=ctx.shim)
    paths = L.Paths(a)
    try:
        a.write('d1', 'x', rng.randbytes(2000), mtime_ns=1700000000 * 10**9 + 5)
        a.write('d2', 'a', rng.randbytes(3000), mtime_ns=1700000100 * 10**9 + 7)
        os.link(a.path('d2', 'a'), a.path('d2', 'hl'))
        assert a.run('sync').rc == 0
        # unchanged: file and hardlink both count as equal
        run_case(ctx, a, paths, 'sync', [], 'proceed', 'empty:hardlink unchanged (no trigger expected)', {'seed': seed, 'kind': 'hardlink'})
        os.unlink(a.path('d2', 'a'))
        a.note_version('d2', 'hl')
        o = run_case(ctx, a, paths, 'sync', [], 'refuse', 'empty:file removed, its hardlink name stays', {'seed': seed, 'kind': 'hardlink'})
        cross_check_scan(ctx, o, 'hardlink')
        run_case(ctx, a, paths, 'sync', ['--force-empty'], 'proceed', 'empty:hardlink override', {'seed': seed, 'kind': 'hardlink'})
    finally:
        shutil.rmtree(a.root, ignore_errors=True)


def scenario_no_content(ctx, seed):
    """all content copies lost: there is no recorded state, so no interlock applies (documented: assumed empty)"""
    rng = random.Random(seed)
    a = new_array(ctx, rng, nd=2, np_=1, ncontent=2)
    paths = L.Paths(a)
    try:
        for c in a.content_files:
            os.unlink(c)
        run_case(ctx, a, paths, 'sync', [], 'proceed', 'nocontent:all copies deleted', {'seed': seed, 'kind': 'no_content'})
    finally:
        shutil.rmtree(a.root, ignore_errors=True)


def scenario_combined(ctx, seed, shape):
    """several triggers at once: each override alone is not enough"""
    rng = random.Random(seed)
    nd, np_, nc = shape
    a = new_array(ctx, rng, nd=nd, np_=np_, ncontent=nc)
    paths = L.Paths(a)
    replay = {'seed': seed, 'kind': 'combined', 'shape': shape}
    try:
        d0 = L.presummary(a, paths, 'sync', [])
        trig_empty(a, rng, 0, 'all_removed')
        trig_zero(a, rng, 1, 'truncate')
        trig_parity(a, rng, np_ - 1, 'one_block_short', d0['used'])
        # removing all of disk 0 may lower `used`: recompute what the harness expects from the summary itself
        for opts in ([], ['--force-empty'], ['--force-zero'], ['--force-empty', '--force-zero'], ['-F'], ['-F', '--force-zero']):
            d = L.presummary(a, paths, 'sync', opts)
            short = min(d['parity_blocks']) < d['used']
            # the array changes as soon as one combination gets through: what fires NOW is read from the independent summary
            empty_f = any(e == 0 and m == 0 and r == 0 and (rm or ch) for e, m, r, rm, ch, el, ins, cp, z in d['disks'])
            zero_f = any(z for *_, z in d['disks'])
            exp = 'refuse' if ((empty_f and '--force-empty' not in opts) or (zero_f and '--force-zero' not in opts) or (short and '-F' not in opts)) else 'proceed'
            run_case(ctx, a, paths, 'sync', opts, exp, 'combined:empty+zero+parity', replay)
        run_case(ctx, a, paths, 'sync', ['-F', '--force-empty', '--force-zero'], 'proceed', 'combined:all overrides', replay)
    finally:
        shutil.rmtree(a.root, ignore_errors=True)


def main(tier, replay=None):
    chk = Check('C14', tier, 'proof')
    snap = snapshot_repo()
    regen(snap)
    try:
        binary = build_tool(snap)
        shim = build_shim(snap)
    except BuildError as e:
        chk.violation('build', 'working tree does not build: ' + str(e)[:500], {'error': str(e)}, no_input=True)
        return chk.finish()
    ob = check_obligations('C14')
    proof_coverage(chk, ob, 'make -f Makefile.coq -k Props/Properties_C14.vo (coqc 8.16.1) + Print Assumptions',
                   ['Coq 8.16.1 kernel', 'hand model coq/Cmd/CmdModel.v of cmdline/snapraid.c main (dispatch, lock) and of the order of the tests in scan.c / sync.c / state.c',
                    'extraction + ocaml/C12/driver.ml', 'harness/py/c12_lib.py (independent scan classification, parity size and configuration summary)',
                    'harness/py/content.py (independent content decoder)', 'harness/c/shim.c (write-set log)'])
    try:
        model = build_model('Extract/Extract_C12.vo', 'ocaml/C12', 'c12_ext', 'driver.ml', 'model')
    except BuildError as e:
        chk.violation('model_build', 'command model does not build: ' + str(e)[:300], {'error': str(e)}, no_input=True)
        return chk.finish()
    ctx = Ctx(chk, binary, shim, model, tier)
    try:
        ctx.pause_shim = build_pause_shim(snap)
    except BuildError as e:
        chk.violation('build', 'pause shim does not build: ' + str(e)[:300], {'error': str(e)}, no_input=True)
        return chk.finish()
    rng = chk.rng
    jobs = []
    shapes = [(2, 1, 1), (3, 2, 2), (3, 3, 1), (4, 2, 3)]

    def shape(k):
        return shapes[k % len(shapes)]
    k = 0
    thorough = tier == 'thorough'
    # (a) empty disk
    for variant in ['all_removed', 'all_rewritten', 'mixed', 'removed_plus_new', 'renamed', 'symlink_stays', 'one_file_stays']:
        sh = shape(k)
        for where in (range(sh[0]) if thorough else [rng.randrange(sh[0])]):
            for pending in ([False, True] if thorough or variant == 'all_removed' else [bool(k % 2)]):
                jobs.append((scenario_sync_trigger, (rng.getrandbits(30), 'empty', where, variant, pending, sh)))
        k += 1
    # (a') what else is on the emptied disk: copies of other disks' files, files moved in, restored files
    for variant in ['removed_plus_copies', 'removed_plus_moved_in', 'restored']:
        sh = shape(k)
        for where in (range(sh[0]) if thorough else [rng.randrange(sh[0])]):
            jobs.append((scenario_sync_trigger, (rng.getrandbits(30), 'empty', where, variant, bool(k % 2), sh)))
        k += 1
    # (a'', b') the empty-disk and zero-size matrices again with trusted inodes (valid UUIDs: --test-fake-uuid, first two disks)
    for kind, variants in (('empty', ['all_removed', 'all_rewritten', 'mixed', 'removed_plus_new', 'renamed', 'symlink_stays', 'one_file_stays',
                                      'removed_plus_copies', 'removed_plus_moved_in', 'restored']),
                           ('zero', ['truncate', 'truncate_keep_mtime', 'truncate_renamed', 'empty_stays_empty', 'to_one_byte',
                                     'replaced_empty_new_inode', 'replaced_empty_new_inode_keep_mtime'])):
        for variant in variants:
            sh = [(2, 1, 1), (2, 2, 2)][k % 2]
            for where in (range(2) if thorough else [k % 2]):
                for pending in ([False, True] if thorough else [bool((k // 2) % 2)]):
                    jobs.append((scenario_sync_trigger, (rng.getrandbits(30), kind, where, variant, pending, sh, None, True)))
            k += 1
    for variant in ['replaced_empty_new_inode', 'replaced_empty_new_inode_keep_mtime']:
        sh = shape(k)
        for where in (range(sh[0]) if thorough else [rng.randrange(sh[0])]):
            jobs.append((scenario_sync_trigger, (rng.getrandbits(30), 'zero', where, variant, bool(k % 2), sh)))
        k += 1
    jobs.append((scenario_rewritten_as_copies, (rng.getrandbits(30), False)))
    jobs.append((scenario_rewritten_as_copies, (rng.getrandbits(30), True)))
    # (b) zero size
    for variant in ['truncate', 'truncate_keep_mtime', 'truncate_renamed', 'empty_stays_empty', 'to_one_byte']:
        sh = shape(k)
        for where in (range(sh[0]) if thorough else [rng.randrange(sh[0])]):
            for pending in ([False, True] if thorough or variant == 'truncate' else [bool(k % 2)]):
                jobs.append((scenario_sync_trigger, (rng.getrandbits(30), 'zero', where, variant, pending, sh)))
        k += 1
    # (c) short parity
    for variant in ['delete', 'truncate_zero', 'one_block_short', 'one_byte_short', 'exact']:
        sh = shape(k)
        for where in (range(sh[1]) if thorough else [rng.randrange(sh[1])]):
            for pending in ([False, True] if thorough or variant == 'one_block_short' else [bool(k % 2)]):
                jobs.append((scenario_sync_trigger, (rng.getrandbits(30), 'parity', where, variant, pending, sh)))
        k += 1
    # (c'') an EARLIER level completely empty while a later level is intact: the minimum over the levels must still be 0
    for variant in ['delete', 'truncate_zero']:
        for sh in ([(3, 2, 2), (3, 3, 1)] if not thorough else [(3, 2, 2), (3, 3, 1), (4, 2, 3)]):
            for where in range(sh[1] - 1):
                for pending in ([True] if not thorough and variant == 'truncate_zero' else [False, True]):
                    jobs.append((scenario_sync_trigger, (rng.getrandbits(30), 'parity', where, variant, pending, sh)))
    # triggers under other options of the same sync (pre-hash, ranges, no-copy, verbose/gui) and with a content copy missing
    combos = [('empty', 'all_removed', ['-h']), ('zero', 'truncate', ['-B', '2']), ('parity', 'one_block_short', ['-h']), ('empty', 'mixed', ['-N']),
              ('zero', 'truncate_keep_mtime', ['-v']), ('parity', 'delete', ['-S', '1']), ('empty', 'all_rewritten_pure', []), ('empty', 'two_disks_removed', ['-G']),
              ('zero', 'truncate', ['-G', '-h']), ('parity', 'truncate_zero', ['-N'])]
    for i, (kind, variant, extra) in enumerate(combos if thorough else combos[:8]):
        sh = [(3, 2, 2), (4, 2, 3), (3, 3, 1)][i % 3]
        where = rng.randrange(sh[1] if kind == 'parity' else sh[0])
        jobs.append((scenario_sync_trigger, (rng.getrandbits(30), kind, where, variant, bool(i % 2), sh, None, False, extra, (i % sh[2]) if i % 2 == 0 else None)))
    # a content copy on a data disk and files excluded by rule: neither counts as a surviving file
    for i, (kind, variant) in enumerate([('empty', 'all_removed'), ('empty', 'removed_plus_new'), ('empty', 'symlink_stays'), ('zero', 'truncate'), ('empty', 'one_file_stays')]):
        sh = [(3, 2, 2), (2, 1, 1)][i % 2]
        for where in ([0, 1] if thorough else [i % 2]):
            jobs.append((scenario_sync_trigger, (rng.getrandbits(30), kind, where, variant, bool(i % 2), sh, None, False, (), None, where if i % 3 else (where + 1) % sh[0])))
    # a broken (shorter) content copy: refused runs leave it as it is, proceeding runs rewrite it
    for i, (kind, variant) in enumerate([('empty', 'all_removed'), ('parity', 'one_block_short'), ('zero', 'truncate')]):
        jobs.append((scenario_sync_trigger, (rng.getrandbits(30), kind, 0, variant, bool(i % 2), (3, 2, 3), None, False, (), -(i + 1))))
    for kind_, np2 in (('renamed', 1), ('swapped', 1), ('swapped', 2), ('renamed', 2)):
        jobs.append((scenario_uuid, (rng.getrandbits(30), kind_, np2, bool(np2 % 2))))
    jobs.append((scenario_range, (rng.getrandbits(30), shape(k), True)))
    # (c') short parity with a version-3 content file (recorded split sizes)
    for fmt in ['hashsize8', 'split2']:
        for variant in (['one_block_short', 'truncate_zero'] if not thorough else ['delete', 'truncate_zero', 'one_block_short', 'exact']):
            sh = shape(k)
            for where in (range(sh[1]) if thorough else [rng.randrange(sh[1])]):
                jobs.append((scenario_sync_trigger, (rng.getrandbits(30), 'parity', where, variant, bool(k % 2), sh, fmt)))
            k += 1
    # (c''') a level really spread over two files: a first or a NON-first split truncated, one split lost and recreated empty
    for variant in ['split0_short', 'split1_short', 'split0_lost', 'split1_lost', 'split0_short_tail']:
        for sh in ([(3, 2, 2)] if not thorough else [(3, 2, 2), (2, 1, 1), (3, 3, 1)]):
            for where in (range(sh[1]) if thorough else [rng.randrange(sh[1])]):
                jobs.append((scenario_sync_trigger, (rng.getrandbits(30), 'parity', where, variant, bool(k % 2), sh, 'split2lim')))
            k += 1
    # (c4) byte-granular cuts inside the last used block, in every content format that records the sizes, both uuid modes
    for fmt in ['hashsize8', 'split2', 'split2lim']:
        for variant in (['cut1', 'cut100', 'cutbsm1'] + (['midcut'] if fmt == 'split2lim' else [])):
            for uu in ([False, True] if (thorough or variant in ('cut100', 'midcut')) else [bool(k % 2)]):
                sh = [(2, 1, 1), (2, 2, 2)][k % 2] if uu else shape(k)
                for where in (range(sh[1]) if thorough else [rng.randrange(sh[1])]):
                    jobs.append((scenario_sync_trigger, (rng.getrandbits(30), 'parity', where, variant, False if variant != 'cut100' else bool(k % 2), sh, fmt, uu)))
                k += 1
    # (c5) the short-parity test does not depend on the -S/-B range: damage beyond the end of the range / before its start
    rcombos = [(None, 'one_block_short', ['-B', '1']), (None, 'truncate_zero', ['-S', '1', '-B', '2']), (None, 'delete', ['-B', '2']),
               ('hashsize8', 'cut100', ['-B', '1']), ('hashsize8', 'one_block_short', ['-S', '2', '-B', '1']), ('split2', 'truncate_zero', ['-B', '1']),
               ('split2lim', 'split1_short', ['-B', '1']), ('split2lim', 'split0_short', ['-S', '1', '-B', '1']), ('split2lim', 'midcut', ['-B', '2']),
               ('split2', 'cut1', ['-S', '0', '-B', '3'])]
    for i, (fmt, variant, extra) in enumerate(rcombos):
        for uu in ([False] if not thorough else [False, True]):
            sh = [(2, 1, 1), (2, 2, 2)][i % 2] if uu else [(3, 2, 2), (2, 1, 1), (3, 3, 1)][i % 3]
            for where in (range(sh[1]) if thorough else [rng.randrange(sh[1])]):
                jobs.append((scenario_sync_trigger, (rng.getrandbits(30), 'parity', where, variant, bool(i % 2), sh, fmt, uu, extra)))
    # (a3) an emptied disk whose UUID changed too
    for np2 in (1, 2):
        for where in ([0, 1] if thorough else [np2 % 2]):
            for variant in (['all_removed', 'removed_plus_new'] if thorough else [['all_removed', 'removed_plus_new'][np2 % 2]]):
                jobs.append((scenario_uuid_empty, (rng.getrandbits(30), np2, where, variant)))
    jobs.append((scenario_uuid_empty, (rng.getrandbits(30), 2, 0, 'all_rewritten_pure')))
    # (b'') the zero-size interlock for files in every recorded state
    for kind_ in ['partly', 'never', 'killed', 'copy']:
        for uu in [False, True]:
            sh = [(2, 1, 1), (2, 2, 2)][k % 2] if uu else shape(k)
            jobs.append((scenario_zero_states, (rng.getrandbits(30), kind_, sh, uu)))
            k += 1
    # (d) (e) configuration
    for kind in ['blocksize', 'hashsize_recorded', 'hashsize_default', 'disk_removed', 'disk_renamed']:
        sh = shape(k)
        wheres = range(sh[0]) if (thorough and kind.startswith('disk')) else ([0, 1, 2] if thorough else ([0] if kind == 'disk_renamed' else [k % 2]))
        for where in wheres:
            jobs.append((scenario_conf, (rng.getrandbits(30), kind, where, bool((k + where) % 2), sh)))
        k += 1
    # (f) lock
    for i in range(2 if not thorough else 4):
        jobs.append((scenario_lock_held, (rng.getrandbits(30), shape(k + i))))
    firsts = [c for c in LOCK_CMDS if c != 'pool'] if thorough else [[c for c in LOCK_CMDS if c != 'pool'][rng.randrange(len(LOCK_CMDS) - 1)], 'sync']
    for f in firsts:
        offs = [0.0, 0.15, 0.4, 0.8] if not thorough else [0.0, 0.05, 0.1, 0.2, 0.35, 0.5, 0.8, 1.2]
        jobs.append((scenario_lock_live, (rng.getrandbits(30), shape(k), f, offs)))
        k += 1
    for f in (['status'] if not thorough else ['status', 'sync', 'check', 'scrub', 'diff', 'fix', 'touch', 'list']):
        jobs.append((scenario_lock_three, (rng.getrandbits(30), shape(k), f)))
        k += 1
    jobs.append((scenario_empty_dirs_only, (rng.getrandbits(30),)))
    jobs.append((scenario_hardlink, (rng.getrandbits(30),)))
    jobs.append((scenario_no_content, (rng.getrandbits(30),)))
    for i in range(2 if not thorough else 6):
        jobs.append((scenario_combined, (rng.getrandbits(30), shape(k + i))))

    def one(j):
        fn, args = j
        try:
            fn(ctx, *args)
        except Exception as e:
            import traceback
            ctx.viol('harness', 'scenario %s%r crashed: %s' % (fn.__name__, args, traceback.format_exc()[-600:]), {'scenario': fn.__name__, 'args': list(map(str, args))}, no_input=True)
    with cf.ThreadPoolExecutor(max_workers=min(12, NCPU)) as ex:
        list(ex.map(one, jobs))
    chk.cov.update({'evaluations': ctx.runs, 'distinct_nontrivial': ctx.refusals + ctx.proceeds,
                    'rule': 'real commands on tiny arrays (shapes nd/np/ncontent %s): each trigger variant on each disk / level, alone and with pending add+delete+update on every disk, without override (must refuse: failing status, stderr diagnostic, content+parity byte-identical, no state-changing call beyond lock/log), with a wrong override (must still refuse), with the right override (must proceed, then `check` and the independent parity check pass); non-triggers next to each trigger (symlink stays, exact parity size, renamed zero file, ...); for every run the extracted model is executed on the independently computed precondition summary and must give the same exit class and the same effect class set; non-trivial = runs with an independent refuse/proceed expectation' % shapes,
                    'scenarios': len(jobs), 'refusals_checked': ctx.refusals, 'proceeding_runs_checked': ctx.proceeds,
                    'model_vs_real_comparisons': ctx.model_cmp, 'traces_validated_against_impl': ctx.model_cmp,
                    'scenario_counts': ctx.trig_seen})
    chk.cov['samples'] = ctx.samples
    chk.notes += sorted(ctx.notes)
    if ob['failed'] and not chk.violations:
        chk.violation('obligation', 'proof obligation of C14 no longer checks: %s' % ob['failed'][0],
                      {'theorem_file': 'coq/Props/Properties_C14.v', 'failed': ob['failed'], 'log_tail': ob['log'][-1500:]}, no_input=True)
    chk.assumptions += ['absent parity file == empty parity file (parity_create opens with O_CREAT before the size test)',
                        'sandbox runs use --test-skip-device: no UUIDs, so move/restore detection and the UUID-change limit (state.c:1399-1488) are modelled but not exercised; the UUID rename path is exercised through --test-match-first-uuid only',
                        'the lock is flock(LOCK_EX|LOCK_NB) on <first content>.lock on a local file system; NFS-style lock semantics are outside the model',
                        'copy detection is part of the independent scan summary (name or, for whole-second stamps, path + size + time equal to a fully hashed recorded file of any disk)',
                        'exercised with the model tie: valid UUIDs (--test-fake-uuid: moved / restored files, rename of a disk by UUID, the UUID-change limit and -U), triggers under -h / -B / -S / -N / -v / -G, a content copy missing or of another size, a content copy and excluded files on the emptied disk, sync -S beyond the end',
                        'not exercised: recorded nanoseconds invalid (pre-nanosecond content files), volatile inodes / hardlinks file systems, physical-order warnings, parity UUIDs (no block devices in the sandbox), parity_overflow after a failed grow (--test-parity-limit), text content files']
    return chk.finish()
