"""C15 -- Scrub checks what its plan says and keeps honest books.

Correspondence is at command level: the real `snapraid` binary built from the working tree, run under an LD_PRELOAD
clock shim (harness/c/c15_shim.c), against the extracted Gallina model (coq/Scrub/ScrubModel.v) and against an
independent Python statement of the property.  The info array is read with the tool's own dump
(`status -G -l`: block:<pos>:<time>:used:unsynced:bad:rehash, info_time:<t>:<n>:new|scrubbed) and the limits from
the scrub log tags count_limit / time_limit / last_limit.  Nothing is decoded from the content file."""
import os, sys, json, time, shutil, hashlib, re, threading
from concurrent.futures import ThreadPoolExecutor
from common import *
import c15_oracle as orc
import content as content_dec

FLAGS = ['--test-skip-device', '--test-skip-self', '--no-warnings', '--test-force-order-alpha']
DAY = 86400


class HarnessError(Exception):
    """the tool's own output contradicts the state the harness tracks (status histogram vs tracked justsynced bits,
    a sync/status command failing, an incomplete dump): a comparison failure, reported as a violation.
    Any *other* exception raised inside a scenario is harness bookkeeping: the scenario is retried once and, if it
    fails again before having reported any disagreement, recorded as inconclusive in the evidence notes."""


class StopScenario(Exception):
    """a violation was reported for this array: its tracked state is no longer meaningful"""


class Arr:
    """One scratch array driven through a history of syncs / scrubs / damage under a steered clock."""

    def __init__(self, name, tool, shim, model, rng, ndisk, npar, t0, viol, stats, bs_kib=1, autosave=None, extra_flags=()):
        self.name, self.tool, self.shim, self.model, self.rng = name, tool, shim, model, rng
        self.ndisk, self.npar = ndisk, npar
        self.root = mkscratch('c15arr.')
        self.disks = ['d%d' % (i + 1) for i in range(ndisk)]
        self.pnames = ['parity', '2-parity', '3-parity'][:npar]
        for x in self.disks + ['p%d' % (i + 1) for i in range(npar)] + ['c1', 'c2']:
            os.makedirs(os.path.join(self.root, x))
        self.bs = bs_kib * 1024
        self.extra_flags = list(extra_flags)
        self.tiny = bs_kib > 1          # big blocks: files of a few bytes, one block each
        conf = ['blocksize %d' % bs_kib] + (['autosave %d' % autosave] if autosave else [])
        for i, pn in enumerate(self.pnames):
            conf.append('%s %s/p%d/parity' % (pn, self.root, i + 1))
        conf += ['content %s/c1/content' % self.root, 'content %s/c2/content' % self.root]
        for d in self.disks:
            conf.append('data %s %s/%s' % (d, self.root, d))
        open(os.path.join(self.root, 'conf'), 'w').write('\n'.join(conf) + '\n')
        self.T = t0                    # the fake clock; strictly increasing by >= 8 for every writing command
        self.alloc = {d: 0 for d in self.disks}      # next free position per disk (files are only added)
        self.owner = {d: {} for d in self.disks}     # pos -> (file name, block index in file)
        self.files = {}                 # (disk, name) -> dict(start, nblk, data, mtime_ns)
        self.pending = set()            # (disk, name) added but not (fully) synced
        self.deleted = {}               # (disk, pos) -> True: block of a file deleted since the sync (DELETED once scanned)
        self.silent = {}                # (disk, pos) -> original block bytes   (silent corruption in place)
        self.pcorrupt = {}              # (level, pos) -> original parity block bytes
        self.changed = {}               # (disk, name) -> 'content' | 'touch' | 'missing' | ('trunc', blocks kept)
        self.ptrunc = {}                # parity level -> (first missing position, the bytes cut off)
        self.first_sync_flags = []      # e.g. --test-force-murmur3 for the rehash family
        self.just = {}                  # pos -> tracked justsynced bit
        self.batch = 0
        self._viol = viol               # callback(tag, what, replay, kind)
        self.stats = stats
        self.history = []               # replayable list of operations
        self.log_n = 0
        self.spec = None                # the scenario specification (for --replay)
        self.nscrub = 0
        self.failed = False

    def viol(self, tag, what, replay_obj, kind):
        self.failed = True
        self.stats['eio_scrubs'] += 0
        self._viol(tag, what, replay_obj, kind)

    # ------------------------------------------------------------------ running the tool
    def run(self, args, T=None, extra_env=None, log=True):
        env = dict(os.environ)
        env['LD_PRELOAD'] = self.shim
        env['C15_FAKE_TIME'] = str(self.T if T is None else T)
        env.pop('C15_EIO_PATH', None)
        if extra_env:
            env.update(extra_env)
        self.log_n += 1
        lp = os.path.join(self.root, 'log%d' % self.log_n)
        cmd = [self.tool] + FLAGS + self.extra_flags + ['-c', os.path.join(self.root, 'conf')] + (['-l', lp] if log else []) + args
        r = subprocess.run(cmd, stdout=subprocess.PIPE, stderr=subprocess.STDOUT, env=env, text=True, errors='replace', timeout=120)
        lt = ''
        if log and os.path.exists(lp):
            lt = open(lp, errors='replace').read()
            os.remove(lp)
        self.stats['tool_runs'] += 1
        return r.returncode, r.stdout, lt

    def tick(self, dt=None):
        """advance the clock (>= 8 s so that every writing command has its own 8-second slot)"""
        self.T += dt if dt is not None else self.rng.choice([8, 9, 15, 16, 17, 60, 3600, DAY - 1, DAY, DAY + 1, 3 * DAY])
        return self.T

    def status(self):
        """the info array as the tool dumps it"""
        rc, out, lt = self.run(['-G', 'status'])
        if rc != 0:
            raise HarnessError('status failed: ' + out[-300:])
        m = re.search(r'^block_count:(\d+)', lt, re.M)
        n = int(m.group(1))
        blocks = [None] * n
        for mm in re.finditer(r'^block:(\d+):(\d+):(\w*):(\w*):(\w*):(\w*)$', lt, re.M):
            blocks[int(mm.group(1))] = {'time': int(mm.group(2)), 'used': True, 'file': mm.group(3) == 'used', 'unsynced': mm.group(4) == 'unsynced',
                                        'bad': mm.group(5) == 'bad', 'rehash': mm.group(6) == 'rehash'}
        for mm in re.finditer(r'^block_noinfo:(\d+):(\w*):(\w*)$', lt, re.M):
            blocks[int(mm.group(1))] = {'time': 0, 'used': False, 'file': mm.group(2) == 'used', 'unsynced': mm.group(3) == 'unsynced', 'bad': False, 'rehash': False}
        if any(b is None for b in blocks):
            raise HarnessError('status -G did not dump every block')
        hist = {}
        for mm in re.finditer(r'^info_time:(\d+):(\d+):(new|scrubbed)$', lt, re.M):
            hist[(int(mm.group(1)), mm.group(3) == 'new')] = int(mm.group(2))
        summ = dict((mm.group(1), mm.group(2)) for mm in re.finditer(r'^summary:(has_\w+):(.*)$', lt, re.M))
        # the saved words, position by position, from the independent decoder (the tool dumps justsynced only aggregated)
        try:
            cp = os.path.join(self.root, 'c1', 'content')
            dec = content_dec.parse(open(cp, 'rb').read())['info'] if os.path.exists(cp) else None      # (no content before the first sync)
        except Exception as e:
            dec = None
            self.stats['decoder_failures'] = self.stats.get('decoder_failures', 0) + 1
            self.stats['decoder_failure_kind'] = '%s %s: %s' % (self.name, type(e).__name__, str(e)[:80])
        if dec is not None:
            for k, b in enumerate(blocks):
                v = dec[k] if k < len(dec) else None
                if (v is not None) != b['used'] or (v is not None and ((v['time'] & ~7) != b['time'] or v['bad'] != b['bad'] or v['rehash'] != b['rehash'])):
                    raise HarnessError('status block line %d %s disagrees with the saved content %s' % (k, b, v))
                b['just'] = bool(v['justsynced']) if v is not None else False
            self.stats['decoded_words'] = self.stats.get('decoded_words', 0) + len(blocks)
        return blocks, hist, summ

    def words(self, blocks):
        """info words from the dump + the tracked justsynced bit"""
        ws = []
        for k, b in enumerate(blocks):
            if not b['used']:
                ws.append(0)
            else:
                just = b['just'] if 'just' in b else self.just.get(k, 0)       # decoded from the saved content when possible
                ws.append(b['time'] | (1 if b['bad'] else 0) | (2 if b['rehash'] else 0) | (4 if just else 0))
        return ws

    def check_hist(self, ws, hist, where):
        """the aggregated new/scrubbed histogram of the tool must match the tracked justsynced bits"""
        h = {}
        for w in ws:
            if w:
                key = (w & ~7, bool(w & 4))
                h[key] = h.get(key, 0) + 1
        if h != hist:
            raise HarnessError('%s: tracked justsynced bits disagree with status histogram: %s vs %s' % (where, sorted(h.items()), sorted(hist.items())))

    # ------------------------------------------------------------------ files
    def add_files(self, spec):
        """spec: list of (disk, nblocks[, start[, copy_of]]); names carry the disk and sort after everything present.
        Without `start` the file is appended after the last block of the disk (no holes); with `start` it is expected
        to fill the hole left by a deleted file (scan allocates from the first position without a file).
        copy_of = (disk, name): same name, bytes and mtime as an existing file of another disk (scan:copy -> REP blocks)"""
        self.batch += 1
        seq = {}
        for ent in spec:
            disk, nblk = ent[0], ent[1]
            start = ent[2] if len(ent) > 2 and ent[2] is not None else None
            copy_of = ent[3] if len(ent) > 3 else None
            seq[disk] = seq.get(disk, 0) + 1
            if copy_of is not None:
                src = self.files[copy_of]
                name, data, mt, nblk = copy_of[1], src['data'], src['mtime_ns'], src['nblk']
            else:
                name = 'b%03d_%s_%02d' % (self.batch, disk, seq[disk])
                data = self.rng.randbytes(self.bs * nblk if not self.tiny else (self.bs * (nblk - 1) + self.rng.randrange(1, 4)))
                mt = (1500000000 + self.batch * 1000 + seq[disk]) * 10 ** 9 + (0 if self.rng.random() < 0.35 else 123456789)
            p = os.path.join(self.root, disk, name)
            open(p, 'wb').write(data)
            os.utime(p, ns=(mt, mt))
            if start is None:
                start = self.alloc[disk]
                self.alloc[disk] += nblk
            self.files[(disk, name)] = {'start': start, 'nblk': nblk, 'data': data, 'mtime_ns': mt, 'rep': copy_of is not None}
            for i in range(nblk):
                self.owner[disk][start + i] = (name, i)
                self.deleted.pop((disk, start + i), None)      # a DELETED block overwritten by a new file becomes CHG
            self.pending.add((disk, name))

    def delete_file(self, disk, name):
        """a file deleted since the last sync: its blocks become DELETED once a scan has recorded it"""
        f = self.files.pop((disk, name))
        os.remove(self.path(disk, name))
        for i in range(f['nblk']):
            self.owner[disk].pop(f['start'] + i)
            self.deleted[(disk, f['start'] + i)] = True
        self.pending.discard((disk, name))
        return f

    def heal(self):
        """undo every outstanding damage / unsynced change by hand (exact bytes and mtimes)"""
        for key in list(self.changed):
            self.unchange_file(*key)
        for key in list(self.silent):
            self.restore_data(*key)
        for key in list(self.pcorrupt):
            self.restore_parity(*key)
        for l in list(self.ptrunc):
            self.restore_parity_tail(l)

    def sync(self, partial=None):
        self.heal()
        self.tick()
        before, _, _ = self.status()
        if isinstance(partial, tuple):
            args = ['sync', '-S', str(partial[0]), '-B', str(partial[1])]
        else:
            args = ['sync'] + (['-B', str(partial)] if partial is not None else [])
        rc, out, lt = self.run(self.first_sync_flags + args)
        self.first_sync_flags = []
        self.history.append({'op': 'sync', 'T': self.T, 'partial': partial})
        if rc != 0:
            raise HarnessError('sync failed: ' + out[-400:])
        blocks, hist, _ = self.status()
        t8 = self.T & ~7
        for k, b in enumerate(blocks):
            if b['used'] and b['time'] == t8:
                self.just[k] = 1
        for (d, pos) in list(self.deleted):
            if partial is None or pos >= len(blocks) or not blocks[pos]['unsynced']:
                del self.deleted[(d, pos)]          # the stripe was processed (or dropped): the block is EMPTY now
        if partial is None:
            self.pending.clear()
        else:
            # pending files whose every block lies in stripes that are now synced are done
            for key in list(self.pending):
                f = self.files[key]
                pos = [f['start'] + i for i in range(f['nblk'])]
                if all(q < len(blocks) and not blocks[q]['unsynced'] and blocks[q]['used'] for q in pos):
                    self.pending.discard(key)
        ws = self.words(blocks)
        self.check_hist(ws, hist, 'after sync')
        for k, b in enumerate(blocks):
            if b['used'] and 'just' in b and b['time'] == t8 and not b['just']:
                raise HarnessError('after sync: stripe %d written by this sync is not recorded as never scrubbed' % k)
        return ws

    def path(self, disk, name):
        return os.path.join(self.root, disk, name)

    def rehash(self, dt=None):
        """`snapraid rehash`: schedules the migration to the default hash (the array was created with another one);
        every used stripe gets the rehash mark, a verified scrub migrates the stripe and clears it"""
        self.heal()
        self.tick(dt)
        rc, out, lt = self.run(['rehash'])
        self.history.append({'op': 'rehash', 'T': self.T})
        if rc != 0:
            raise HarnessError('rehash failed: ' + out[-300:])
        blocks, hist, _ = self.status()
        if not any(b['rehash'] for b in blocks):
            raise HarnessError('rehash did not mark any stripe: ' + out[-200:])

    def corrupt_data(self, disk, pos):
        """silent corruption: same size, same mtime"""
        if (disk, pos) in self.silent or pos not in self.owner[disk]:
            return False
        name, idx = self.owner[disk][pos]
        if (disk, name) in self.changed or (disk, name) in self.pending:
            return False
        p = self.path(disk, name)
        f = self.files[(disk, name)]
        with open(p, 'r+b') as fh:
            fh.seek(idx * self.bs)
            orig = fh.read(self.bs)
            b = bytearray(orig)
            j = self.rng.randrange(len(orig))
            b[j] ^= self.rng.randrange(1, 256)
            fh.seek(idx * self.bs)
            fh.write(b)
        os.utime(p, ns=(f['mtime_ns'], f['mtime_ns']))
        self.silent[(disk, pos)] = orig
        return True

    def restore_data(self, disk, pos):
        orig = self.silent.pop((disk, pos))
        name, idx = self.owner[disk][pos]
        p = self.path(disk, name)
        f = self.files[(disk, name)]
        with open(p, 'r+b') as fh:
            fh.seek(idx * self.bs)
            fh.write(orig)
        os.utime(p, ns=(f['mtime_ns'], f['mtime_ns']))

    def corrupt_parity(self, level, pos):
        if (level, pos) in self.pcorrupt:
            return False
        p = os.path.join(self.root, 'p%d' % (level + 1), 'parity')
        with open(p, 'r+b') as fh:
            fh.seek(pos * self.bs)
            orig = fh.read(self.bs)
            if len(orig) != self.bs:
                return False
            b = bytearray(orig)
            b[self.rng.randrange(self.bs)] ^= self.rng.randrange(1, 256)
            fh.seek(pos * self.bs)
            fh.write(b)
        self.pcorrupt[(level, pos)] = orig
        return True

    def truncate_parity(self, level, cut):
        """the parity file loses everything from position `cut` on (reads there fail, not with EIO)"""
        if level in self.ptrunc or any(l == level and pos >= cut for (l, pos) in self.pcorrupt):
            return False
        p = os.path.join(self.root, 'p%d' % (level + 1), 'parity')
        size = os.path.getsize(p)
        if cut * self.bs >= size:
            return False
        with open(p, 'r+b') as fh:
            fh.seek(cut * self.bs)
            tail = fh.read()
            fh.truncate(cut * self.bs)
        self.ptrunc[level] = (cut, tail)
        return True

    def restore_parity_tail(self, level):
        cut, tail = self.ptrunc.pop(level)
        with open(os.path.join(self.root, 'p%d' % (level + 1), 'parity'), 'r+b') as fh:
            fh.seek(cut * self.bs)
            fh.write(tail)

    def restore_parity(self, level, pos):
        orig = self.pcorrupt.pop((level, pos))
        with open(os.path.join(self.root, 'p%d' % (level + 1), 'parity'), 'r+b') as fh:
            fh.seek(pos * self.bs)
            fh.write(orig)

    def change_file(self, disk, name, kind, stamp=None):
        """a file changed since the last sync: new content + new mtime, new mtime only, or gone"""
        key = (disk, name)
        if key in self.changed or key in self.pending:
            return False
        f = self.files[key]
        if any((disk, f['start'] + i) in self.silent for i in range(f['nblk'])):
            return False
        p = self.path(disk, name)
        # the new stamp: the same second or another one, sub-second part 0 / the usual one / another one, never the recorded stamp
        sec, nsec = divmod(f['mtime_ns'], 10 ** 9)
        stamps = [(sec + ds) * 10 ** 9 + ns for ds in (0, 0, 0, 5) for ns in (0, 123456789, 987654321) if (ds, ns) != (0, nsec)]
        newmt = self.rng.choice(stamps) if stamp is None else (sec + stamp[0]) * 10 ** 9 + stamp[1]
        if kind == 'content':
            open(p, 'wb').write(bytes((x ^ 0x5a) for x in f['data']))
            os.utime(p, ns=(newmt, newmt))
            self.stats['stamp_grid'].add((nsec == 0, newmt // 10 ** 9 == sec, newmt % 10 ** 9))
        elif kind == 'touch':
            os.utime(p, ns=(newmt, newmt))
        elif isinstance(kind, tuple):      # ('trunc', k): only the first k blocks are left, mtime kept or not
            os.truncate(p, kind[1] * self.bs)
            mt = f['mtime_ns'] + (kind[2] if len(kind) > 2 else 0)
            os.utime(p, ns=(mt, mt))
        else:
            os.rename(p, os.path.join(self.root, 'c1', 'hidden_%s_%s' % (disk, name)))
        self.changed[key] = kind
        return True

    def unchange_file(self, disk, name):
        key = (disk, name)
        kind = self.changed.pop(key)
        f = self.files[key]
        p = self.path(disk, name)
        if kind == 'missing':
            os.rename(os.path.join(self.root, 'c1', 'hidden_%s_%s' % (disk, name)), p)
        elif kind == 'content' or isinstance(kind, tuple):
            open(p, 'wb').write(f['data'])
        os.utime(p, ns=(f['mtime_ns'], f['mtime_ns']))

    def tree_digest(self):
        """digest of every data file (name, size, mtime, bytes) and of the parity files"""
        h = {}
        for d in self.disks + ['p%d' % (i + 1) for i in range(self.npar)]:
            for fn in sorted(os.listdir(os.path.join(self.root, d))):
                p = os.path.join(self.root, d, fn)
                st = os.stat(p)
                h[d + '/' + fn] = (st.st_size, st.st_mtime_ns, hashlib.sha256(open(p, 'rb').read()).hexdigest())
        return h

    # ------------------------------------------------------------------ the model's view of one stripe
    def stripe_tasks(self, pos, blocks, eio):
        ds = []
        any_chg = False
        for d in self.disks:
            own = self.owner[d].get(pos)
            if own is None:
                if (d, pos) in self.deleted and blocks[pos]['unsynced']:
                    ds.append('1D0D1')          # DELETED block on record: invalid parity, no file
                    any_chg = True
                else:
                    ds.append('1E0D1')
                continue
            name, idx = own
            key = (d, name)
            if key in self.pending and blocks[pos]['unsynced']:
                blk = 'R' if self.files[key].get('rep') else 'C'
                any_chg = True
            else:
                blk = 'B'
            ch = self.changed.get(key)
            st = 'D'
            if ch == 'missing' or (isinstance(ch, tuple) and idx >= ch[1]):
                st = 'e'                     # open fails / read past the end of a truncated file
            if eio is not None and eio == (d, pos):
                st = 'i'
            ts = 1 if (ch in ('content', 'touch') or isinstance(ch, tuple)) else 0
            heq = 0 if ((d, pos) in self.silent or ch == 'content') else 1
            ds.append('1%s%d%s%d' % (blk, ts, st, heq))
        ps = []
        for l in range(self.npar):
            eq = 0 if ((l, pos) in self.pcorrupt or any_chg) else 1
            st = 'D'
            if l in self.ptrunc and pos >= self.ptrunc[l][0]:
                st = 'e'                     # read past the end of a truncated parity file
            if eio is not None and eio == ('parity', l, pos):
                st = 'i'
            ps.append('%s%d' % (st, eq))
        return ds, ps

    # ------------------------------------------------------------------ one checked scrub
    def scrub(self, parg, older, test=None, eio=None, dt=None, tag='walk', no_oracle=False, limit=None):
        """parg: None | 'bad' | 'new' | 'full' | int;  older: None | int;  test: None | ('at', n) | ('even',)
        eio: None | (disk, pos).  Runs the binary and the model, compares, reports through self.viol."""
        if self.failed:
            raise StopScenario()
        self.tick(dt)
        now = self.T
        self.nscrub += 1
        blocks, hist, summ = self.status()
        ws = self.words(blocks)
        self.check_hist(ws, hist, 'before scrub')
        case = {'array': self.name, 'spec': self.spec, 'scrub_no': self.nscrub, 'now': now, 'plan': parg, 'older': older, 'test': test, 'infos': ws,
                'eio': eio, 'damage': {'silent': sorted(self.silent), 'parity': sorted(self.pcorrupt), 'changed': sorted(self.changed.items()),
                                       'pending': sorted(self.pending), 'deleted': sorted(self.deleted)}, 'history_len': len(self.history)}
        self.history.append({'op': 'scrub', 'T': now, 'plan': parg, 'older': older, 'test': test, 'eio': eio})
        args = []
        if parg is not None:
            args += ['-p', str(parg)]
        if older is not None:
            args += ['-o', str(older)]
        if test and test[0] == 'at':
            args += ['--test-force-scrub-at', str(test[1])]
        if test and test[0] == 'even':
            args += ['--test-force-scrub-even']
        env = None
        if limit is not None:
            args += ['-L', str(limit)]
        if eio is not None and eio[0] == 'parity':
            env = {'C15_EIO_PATH': 'p%d/parity' % (eio[1] + 1), 'C15_EIO_OFFSET': str(eio[2] * self.bs)}
        elif eio is not None:
            name, idx = self.owner[eio[0]][eio[1]]
            env = {'C15_EIO_PATH': '%s/%s' % (eio[0], name), 'C15_EIO_OFFSET': str(idx * self.bs)}
        self.stats['eio_scrubs'] += 1 if eio is not None else 0
        self.stats['parity_unreadable_scrubs'] += 1 if (self.ptrunc or (eio is not None and eio[0] == 'parity')) else 0
        self.stats['truncated_file_scrubs'] += 1 if any(isinstance(v, tuple) for v in self.changed.values()) else 0
        self.stats['rehash_scrubs'] += 1 if any(b['rehash'] for b in blocks) else 0
        self.stats['limit_scrubs'] += 1 if limit is not None else 0
        self.last_out = None
        self.stats['pending_scrubs'] += 1 if any(b['unsynced'] for b in blocks) else 0
        self.stats['deleted_scrubs'] += 1 if any(blocks[pos]['unsynced'] and blocks[pos]['used'] for (d, pos) in self.deleted if pos < len(blocks)) else 0
        self.stats['changed_scrubs'] += 1 if self.changed else 0
        dig0 = self.tree_digest()
        rc, out, lt = self.run(args + ['scrub'], extra_env=env)
        self.last_out = out
        self.stats['autosave_scrubs'] += 1 if 'Autosaving' in out else 0
        dig1 = self.tree_digest()
        blocks2, hist2, summ2 = self.status()
        self.stats['scrubs'] += 1

        # ---- model: limits + selection
        mline = 'plan %d %d %s %s %d %s' % (1 if test and test[0] == 'even' else 0, test[1] if test and test[0] == 'at' else 0,
                                            'default' if parg is None else parg, '-' if older is None else older, now, ' '.join(map(str, ws)))
        def numeric(x):
            return x.isdigit() or (no_oracle and x[:1] == '-' and x[1:].isdigit())
        if (isinstance(parg, str) and parg not in ('bad', 'new', 'full') and not numeric(parg)) or (isinstance(older, str) and not numeric(older)):
            mo = 'badarg'          # strtoul leaves trailing characters: "Invalid plan/percentage" / "Invalid number of days"
        else:
            mo = self.model.ask(mline)
        case['model_line'] = mline
        case['model'] = mo
        # ---- independent oracle: the property, straight from its text
        oinfo = orc.expected_selection(ws, parg, older, now, test) if not no_oracle else {'selected': None, 'limits': None}
        key = ('%s' % (parg if not isinstance(parg, int) else 'pct'), older is not None, bool(test))
        self.stats['plans'][str(key)] = self.stats['plans'].get(str(key), 0) + 1

        # data and parity untouched, in every case
        if dig0 != dig1:
            diff = [k for k in set(dig0) | set(dig1) if dig0.get(k) != dig1.get(k)]
            self.viol('scrub_wrote', 'scrub modified data or parity files: %s' % diff[:4], case, 'c')

        if mo in ('fatal_older', 'fatal_empty', 'badarg'):
            # the tool must refuse and change nothing
            ws2 = self.words(blocks2)
            if rc == 0 or ws2 != ws:
                self.viol('refuse', 'scrub %s should be refused (%s) but rc=%d, info array %s' % (args, mo, rc, 'changed' if ws2 != ws else 'unchanged'), case, 'c')
            self.stats['refused'] += 1
            return
        mm = re.match(r'lim (\w+) (\d+) (-?\d+) (\d+) ([01]*)$', mo)
        if not mm:
            raise HarnessError('model output: ' + mo)
        mkind, mcl, mtl, mll = mm.group(1), int(mm.group(2)), int(mm.group(3)), int(mm.group(4))
        msel = [c == '1' for c in mm.group(5)]

        # ---- the limits logged by the tool
        tags = {}
        for t in ('count_limit', 'time_limit', 'last_limit'):
            m2 = re.search(r'^%s:(\d+)$' % t, lt, re.M)
            if m2:
                tags[t] = int(m2.group(1))
        case['tool_limits'] = tags
        if mkind == 'auto':
            exp = {'count_limit': mcl, 'time_limit': mtl, 'last_limit': mll}
            if tags != exp:
                # who is right?  the oracle recomputes the limits from the property text
                if oinfo.get('limits') is not None and tags == oinfo['limits']:
                    self.viol('drift_limits', 'MODEL-DRIFT: model limits %s, tool and oracle %s' % (exp, tags), case, 'drift')
                else:
                    self.viol('limits', 'scrub limits of the tool %s differ from the model %s (oracle %s)' % (tags, exp, oinfo.get('limits')), case, 'c')
        elif tags:
            self.viol('limits_named', 'limits logged for a non-percentage plan: %s' % tags, case, 'c')

        # ---- which stripes did the tool process: refreshed ones + the ones named in error tags
        t8 = now & ~7
        errpos = set(int(x) for x in re.findall(r'^(?:parity_)?error:(\d+):', lt, re.M))
        ws2 = self.words(blocks2)   # justsynced bits not yet updated: fixed below from the model's prediction
        refreshed = set(k for k, b in enumerate(blocks2) if b['used'] and b['time'] == t8 and blocks[k]['time'] != t8)
        # stripes that already had this 8-second slot as their time: a refresh shows only in the marks
        same_slot = set(k for k, b in enumerate(blocks) if b['used'] and b['time'] == t8)
        for k in same_slot:
            if k < len(ws2) and ws2[k] != ws[k] and not (ws2[k] & 1 and not ws[k] & 1):
                refreshed.add(k)
        observed = refreshed | errpos
        msel_set = set(k for k, s in enumerate(msel) if s)
        osel = oinfo['selected'] if not no_oracle else msel_set
        case['observed_selected'] = sorted(observed)
        case['model_selected'] = sorted(msel_set)
        # ---- per-stripe outcome through the model, in position order, counters threaded
        cnt = [0, 0, 0]
        exp_words = list(ws)
        bail = False
        outcome_kinds = {}
        for k in sorted(msel_set):
            ds, ps = self.stripe_tasks(k, blocks, eio)
            sl = 'stripe %d %d %d %d %d %d %d %s %d %s' % (100 if limit is None else limit, cnt[0], cnt[1], cnt[2], ws[k], now, len(ds), ' '.join(ds), len(ps), ' '.join(ps))
            so = self.model.ask(sl)
            m3 = re.match(r'info (\d+) (\d+) (\d+) (\d+) verified=([01]) damaged=([01])$', so)
            if not m3:
                if so != 'bail':
                    raise HarnessError('model output: ' + so)
                bail = True                  # the run stops here: this stripe and the later ones are not booked
                msel_set = set(q for q in msel_set if q <= k)
                case['bail_at'] = k
                break
            exp_words[k] = int(m3.group(1))
            cnt = [int(m3.group(2)), int(m3.group(3)), int(m3.group(4))]
            kind = 'verified' if m3.group(5) == '1' else 'damaged' if m3.group(6) == '1' else 'inconclusive'
            outcome_kinds[k] = kind
            self.stats['outcomes'][kind] += 1
            # independent statement of honest books
            ow = orc.expected_word(ws[k], now, self.oracle_stripe_class(k, blocks, eio))
            if ow != exp_words[k]:
                self.viol('drift_books', 'MODEL-DRIFT: model word %d, oracle word %d for stripe %d' % (exp_words[k], ow, k), dict(case, stripe=k, stripe_line=sl), 'drift')
        case['outcomes'] = outcome_kinds
        # tracked justsynced after the run = what the model predicts; the tool's histogram must agree with it
        for k in range(len(blocks2)):
            if k < len(exp_words) and exp_words[k]:
                self.just[k] = 1 if exp_words[k] & 4 else 0
        ws2 = self.words(blocks2)
        case['after'] = ws2
        case['expected_after'] = exp_words

        # selection: tool vs model vs property
        if bail:
            osel = msel_set           # the plan was cut short by the error limit: the plan oracle does not apply
            # the reader threads run ahead and may already have logged errors for stripes the main loop never booked
            observed = set(q for q in observed if q <= case['bail_at'])
        # (a verified stripe of the same slot without any mark is written back identical: nothing to observe)
        observed |= set(k for k in same_slot if k in msel_set and k < len(exp_words) and exp_words[k] == ws[k] and k < len(ws2) and ws2[k] == ws[k])
        if observed != msel_set:
            if osel == observed:
                self.viol('drift_select', 'MODEL-DRIFT: model selects %s, tool and oracle %s' % (sorted(msel_set), sorted(observed)), case, 'drift')
            else:
                self.viol('select', 'scrub processed stripes %s but the plan selects %s (missing %s, extra %s)' %
                          (sorted(observed), sorted(msel_set), sorted(msel_set - observed), sorted(observed - msel_set)), case, 'c')
        elif osel != msel_set:
            self.viol('drift_select_oracle', 'MODEL-DRIFT: model and tool select %s, the property oracle %s' % (sorted(msel_set), sorted(osel)), case, 'drift')
        for msg in ([] if (no_oracle or bail) else orc.plan_properties(ws, parg, older, now, test, observed, tags)):
            self.viol('prop', 'plan property violated by the tool: ' + msg, case, 'c')
        # books
        if ws2 != exp_words:
            bad = [k for k in range(len(ws2)) if k >= len(exp_words) or ws2[k] != exp_words[k]]
            self.viol('books', 'info words after the scrub differ from honest book-keeping at stripes %s: got %s expected %s' %
                      (bad[:6], [ws2[k] for k in bad[:6]], [exp_words[k] if k < len(exp_words) else None for k in bad[:6]]), case, 'c')
        try:
            self.check_hist(ws2, hist2, 'after scrub')
        except HarnessError as e:
            self.viol('books_hist', 'status histogram after the scrub disagrees with honest book-keeping: %s' % e, case, 'c')
        # counters and exit status
        summ_l = dict((m4.group(1), int(m4.group(2))) for m4 in re.finditer(r'^summary:(error_\w+):(\d+)$', lt, re.M))
        exp_s = {'error_file': cnt[0], 'error_data': cnt[1], 'error_io': cnt[2]}
        if not bail and summ_l != exp_s:
            self.viol('counters', 'scrub summary %s differs from the model counters %s' % (summ_l, exp_s), case, 'c')
        if bail and rc == 0:
            self.viol('exit', 'scrub stopped by the error limit but exit status 0', case, 'c')
        if not bail and (rc != 0) != (sum(cnt) != 0):
            self.viol('exit', 'scrub exit status %d with error counters %s' % (rc, cnt), case, 'c')
        if int(summ2.get('has_bad', '0:0:0').split(':')[0]) != sum(1 for w in ws2 if w & 1):
            self.viol('status_bad', 'status has_bad %s disagrees with the block lines' % summ2.get('has_bad'), case, 'c')
        self.stats['selected_total'] += len(msel_set)
        self.stats['cases'].append({'n': len(ws), 'used': sum(1 for w in ws if w), 'plan': parg, 'older': older, 'test': test, 'selected': len(msel_set),
                                    'distinct_times': len(set(w & ~7 for w in ws if w)), 'bad': sum(1 for w in ws if w & 1),
                                    'limits': tags, 'outcomes': sorted(set(outcome_kinds.values())), 'tag': tag,
                                    'bad_at_tie': bool(mkind == 'auto' and mll and any((w & 1) and (w & ~7) == mtl for w in ws)),
                                    'tie_cut': bool(mkind == 'auto' and mll and mll < sum(1 for w in ws if w and not (w & 1) and (w & ~7) == mtl))})
        return outcome_kinds

    def oracle_stripe_class(self, pos, blocks, eio):
        """independent classification of a stripe from the harness' knowledge of the damage (property text):
        'io' | 'silent' | 'verified' | 'inconclusive'"""
        io = silent = other = False
        unsynced = False
        stale = False
        for d in self.disks:
            own = self.owner[d].get(pos)
            if own is None:
                if (d, pos) in self.deleted and blocks[pos]['unsynced']:
                    unsynced = True           # a file deleted since the last sync: the parity still holds its data
                    stale = True
                continue
            name, idx = own
            key = (d, name)
            pend = key in self.pending and blocks[pos]['unsynced']
            ch = self.changed.get(key)
            if pend or ch in ('content', 'touch') or isinstance(ch, tuple):
                unsynced = True
            if eio == (d, pos):
                io = True
            elif ch == 'missing' or (isinstance(ch, tuple) and idx >= ch[1]):
                other = True
            elif ch == 'content':
                other = True          # differs, but the file is known to have changed
            elif (d, pos) in self.silent and not pend:
                silent = True
        for l in range(self.npar):
            if eio == ('parity', l, pos):
                io = True                 # an I/O error on the parity
            elif l in self.ptrunc and pos >= self.ptrunc[l][0]:
                other = True              # a parity level that could not be read: nothing can be concluded
        if io or silent:
            return 'damaged'
        if other:
            return 'inconclusive'
        pm = stale or any((l, pos) in self.pcorrupt for l in range(self.npar)) or any((d, self.owner[d][pos][0]) in self.pending and blocks[pos]['unsynced'] for d in self.disks if pos in self.owner[d])
        if pm:
            return 'inconclusive' if unsynced else 'damaged'
        return 'verified'

    def fix_bad(self):
        """fix -e, then forget the damage it repaired (verified by comparing bytes with the originals)"""
        # keep every stripe recoverable: at most npar damaged blocks (data + parity) per stripe
        per = {}
        for (d, pos) in self.silent:
            per.setdefault(pos, []).append(('d', d))
        for (l, pos) in self.pcorrupt:
            per.setdefault(pos, []).append(('p', l))
        for pos, items in per.items():
            if len(items) > self.npar:
                for kind, x in items:
                    if kind == 'd':
                        self.restore_data(x, pos)
                    else:
                        self.restore_parity(x, pos)
        for l in list(self.ptrunc):
            self.restore_parity_tail(l)
        self.tick()
        rc, out, lt = self.run(['-e', 'fix'])
        self.history.append({'op': 'fix -e', 'T': self.T})
        self.stats['fixes'] += 1
        for (d, pos) in list(self.silent):
            name, idx = self.owner[d][pos]
            cur = open(self.path(d, name), 'rb').read()
            if cur == self.files[(d, name)]['data']:
                del self.silent[(d, pos)]
        for (l, pos) in list(self.pcorrupt):
            with open(os.path.join(self.root, 'p%d' % (l + 1), 'parity'), 'rb') as fh:
                fh.seek(pos * self.bs)
                if fh.read(self.bs) == self.pcorrupt[(l, pos)]:
                    del self.pcorrupt[(l, pos)]
        return rc


class Model:
    """line-oriented dialogue with the extracted model (one process per array thread)"""

    def __init__(self, exe):
        self.p = subprocess.Popen([exe], stdin=subprocess.PIPE, stdout=subprocess.PIPE, text=True, bufsize=1)
        self.n = 0

    def ask(self, line):
        self.p.stdin.write(line + '\n')
        self.p.stdin.flush()
        self.n += 1
        return self.p.stdout.readline().rstrip('\n')

    def close(self):
        try:
            self.p.stdin.close()
            self.p.wait(timeout=5)
        except Exception:
            self.p.kill()


# ---------------------------------------------------------------------------------------------------------
# scenarios

def random_plan(rng, ws, now):
    """plan arguments aimed at the case splits: quota cutting a group of equal times, age limit exactly at a time"""
    used = [w for w in ws if w]
    n = len(ws)
    times = sorted(set(w & ~7 for w in used))
    r = rng.random()
    if r < 0.10:
        return 'full', None, None
    if r < 0.20:
        return 'new', None, None
    if r < 0.30:
        return 'bad', None, None
    if r < 0.36:
        return None, None, None
    if r < 0.40:
        return None, rng.choice([0, 1, 5, 10, 11]), None
    if r < 0.44:
        return rng.choice(['bad', 'new', 'full']), rng.choice([0, 3]), None      # must be refused
    if r < 0.47:
        return rng.choice([101, 1000, 'abc', '5x']), None, None                   # invalid percentage
    if r < 0.49:
        return rng.randrange(0, 101), rng.choice([1001, 'z']), None               # invalid days
    if r < 0.53:
        return None, None, ('at', rng.randrange(1, n + 3))
    if r < 0.56:
        return None, None, ('even',)
    # percentage: pick the quota to fall inside / at the edge of a group
    pct = rng.choice([0, 1, 100, rng.randrange(0, 101), rng.randrange(0, 101), max(0, min(100, (100 * rng.randrange(0, len(used) + 1)) // max(1, n)))])
    # age: exactly at a stored time, one day off, or anything
    cands = [0, 1, 1000, rng.randrange(0, 30)]
    for t in times:
        d = (now - t) // DAY
        cands += [max(0, min(1000, d)), max(0, min(1000, d + 1)), max(0, min(1000, d - 1))]
    older = rng.choice(cands + [None])
    return pct, older, None


def scenario_walk(a, steps, viol, rehash=False):
    """a natural history: batches synced at different times, damage, scrubs of every plan, fix -e, scrub -p bad.
    rehash=True: the array is created with murmur3, then `snapraid rehash` schedules the migration, so the scrubs
    run the rehash branch (old hash compared, new hash stored only for verified stripes, mark cleared)"""
    rng = a.rng
    if rehash:
        a.first_sync_flags = ['--test-force-murmur3']
    # first batches: unequal disks so that later batches overlap existing stripes
    for b in range(rng.randrange(3, 7)):
        spec = []
        for d in a.disks:
            for _ in range(rng.randrange(0, 5)):
                spec.append((d, rng.randrange(1, 4)))
        if not spec:
            spec = [(a.disks[0], 2)]
        a.add_files(spec)
        a.tick(rng.choice([DAY, 2 * DAY, 5 * DAY, 3600]))
        a.sync()
    if rehash:
        a.rehash()
        if rng.random() < 0.8:
            # aimed at the per-disk rehash slots: a stripe with an error on disk Y while the short disk X hashes fine,
            # followed in the same run by verified stripes where X has no block; afterwards everything is repaired by
            # hand and a full scrub must verify every stripe (the new hashes must have gone to the right blocks only)
            x = min(a.disks, key=lambda d: a.alloc[d])
            cand = [(y, q) for q in range(a.alloc[x]) for y in a.disks if y != x and q in a.owner[y] and q in a.owner[x]]
            holes = [q for q in range(a.alloc[x], max(a.alloc.values()))]
            if cand and holes:
                # the stripe that matters is the LAST one where X has a block (later stripes of X would overwrite the slot)
                last = [(y, q) for (y, q) in cand if q == a.alloc[x] - 1]
                for (y, q) in (last[:1] if last else []) + rng.sample(cand, min(len(cand), rng.randrange(0, 2))):
                    a.corrupt_data(y, q)
                a.scrub('full' if rng.random() < 0.6 else 100, None if rng.random() < 0.6 else 0, dt=DAY, tag='rehash_slots')
                a.heal()
                a.scrub('full', None, dt=DAY, tag='rehash_slots')
                a.scrub('bad', None, dt=DAY, tag='rehash_slots')
    for step in range(steps + 1):
        if step == steps:
            # the end of every history: everything repaired by hand, then two full scrubs must verify every stripe
            # (a hash or mark damaged by an earlier run would show up here as an error on identical data)
            a.heal()
            a.scrub('full', None, dt=DAY, tag='final')
            a.scrub('full', None, dt=DAY, tag='final')
            break
        r = rng.random()
        blocks, hist, _ = a.status()
        ws = a.words(blocks)
        usedpos = [k for k, w in enumerate(ws) if w]
        if r < 0.10 and max(a.alloc.values()) < 70:
            spec = [(rng.choice(a.disks), rng.randrange(1, 4)) for _ in range(rng.randrange(1, 4))]
            a.add_files(spec)
            if rng.random() < 0.4:
                a.sync(partial=rng.randrange(1, max(2, max(a.alloc.values()))))   # leaves pending blocks
                a.scrub('full' if rng.random() < 0.5 else rng.randrange(30, 101), None if rng.random() < 0.5 else 0, tag='pending')
            a.tick(rng.choice([DAY, 3 * DAY]))
            a.sync()
            continue
        if r < 0.22 and usedpos:
            # silent damage on a few stripes
            for _ in range(rng.randrange(1, 4)):
                pos = rng.choice(usedpos)
                if rng.random() < 0.7:
                    ds = [d for d in a.disks if pos in a.owner[d]]
                    if ds:
                        a.corrupt_data(rng.choice(ds), pos)
                else:
                    a.corrupt_parity(rng.randrange(a.npar), pos)
        elif r < 0.42 and a.files:
            for _ in range(rng.randrange(1, 3)):
                (d, name) = rng.choice(sorted(a.files))
                kind = rng.choice(['content', 'touch', 'missing', 'trunc'])
                if kind == 'trunc':
                    kind = ('trunc', rng.randrange(0, a.files[(d, name)]['nblk']), rng.choice([0, 3 * 10 ** 9]))
                a.change_file(d, name, kind)
        elif r < 0.50 and usedpos:
            # a parity level that cannot be read from some position on (file cut short)
            a.truncate_parity(rng.randrange(a.npar), rng.randrange(0, len(ws)))
        parg, older, test = random_plan(rng, ws, a.T)
        eio = None
        limit = None
        if rng.random() < 0.14 and usedpos:
            pos = rng.choice(usedpos)
            ds = [d for d in a.disks if pos in a.owner[d] and (d, a.owner[d][pos][0]) not in a.changed]
            # (an EIO followed, on the same disk / parity level, by a read past the end of a truncated file is allowed:
            #  regression of F-C15-stale-errno-eio, see also probe_stale_errno)
            if rng.random() < 0.35:
                l = rng.randrange(a.npar)
                if not (l in a.ptrunc and pos >= a.ptrunc[l][0]):
                    eio = ('parity', l, pos)          # I/O error reading the parity
            elif ds:
                eio = (rng.choice(ds), pos)
            if eio is not None and rng.random() < 0.25:
                limit = 1                             # -L 1: the run stops at the first I/O error
        a.scrub(parg, older, test, eio=eio, dt=rng.choice([None, None, DAY, 10 * DAY, 12 * DAY]), limit=limit)
        for l in list(a.ptrunc):
            if rng.random() < 0.6:
                a.restore_parity_tail(l)
        # undo the unsynced changes (the array is back in sync without a new sync)
        for (d, name) in list(a.changed):
            if rng.random() < 0.6:
                a.unchange_file(d, name)
        # the repair sequence of the property: scrub -> fix -e -> scrub -p bad
        if (a.silent or a.pcorrupt) and rng.random() < 0.35:
            for (d, name) in list(a.changed):
                a.unchange_file(d, name)
            blocks, _, _ = a.status()
            if any(b['bad'] for b in blocks):
                a.fix_bad()
                a.scrub('bad', None, tag='after_fix')


def scenario_ties(a, rounds, viol):
    """n one-block stripes whose times are installed group by group with `scrub -p bad` (every install step is itself
    a checked scrub), then percentage scrubs whose quota and age limit fall on the ties"""
    rng = a.rng
    n = rng.randrange(8, 25)
    a.add_files([(d, 1) for _ in range(n) for d in a.disks])
    a.sync()
    # bad stripes AT the tie time: every stripe has the time of the sync; the first two ties are damaged and scrubbed
    # (bad mark, time kept), repaired by hand, then a percentage plan whose tie time is that time: the bad ones are
    # selected without consuming the tie count (C15_auto_total_bound: share + bad stripes)
    a.corrupt_data(a.disks[0], 0)
    a.corrupt_data(a.disks[1 % a.ndisk], 1)
    a.scrub((200 + n - 1) // n, 0, dt=rng.choice([8, 9, DAY]), tag='bad_at_tie')
    a.heal()
    a.scrub(rng.choice([30, 25, (300 + n - 1) // n]), 0, dt=rng.choice([9, 16, DAY]), tag='bad_at_tie')
    for rd in range(rounds):
        m = rng.randrange(1, 5)
        groups = [rng.randrange(0, m + 1) for _ in range(n)]
        if rng.random() < 0.5:    # long runs of equal times
            groups = sorted(groups) if rng.random() < 0.5 else [groups[0]] * (n // 2) + groups[n // 2:]
        install(a, groups, m)
        for _ in range(rng.randrange(2, 5)):
            blocks, _, _ = a.status()
            ws = a.words(blocks)
            times = sorted(set(w & ~7 for w in ws if w))
            # now such that now - d*DAY hits a stored time exactly, or misses it by one second / one slot
            t = rng.choice(times)
            d = rng.randrange(0, 12)
            target_now = t + d * DAY + rng.choice([0, 0, 1, 7, 8, -1, -8])
            if target_now < a.T + 8:
                k = (a.T + 8 - target_now + DAY - 1) // DAY
                target_now += k * DAY
                d += k
            if d > 1000:
                d = 1000
            a.T = target_now - 8
            used = sum(1 for w in ws if w)
            cnt_lt = sum(1 for w in ws if w and (w & ~7) < t)
            cnt_eq = sum(1 for w in ws if w and (w & ~7) == t)
            want = cnt_lt + rng.randrange(0, cnt_eq + 1)          # a count inside the tie group
            pct = max(0, min(100, (want * 100) // max(1, len(ws)) + rng.choice([0, 0, 1])))
            # inject damage in some of the stripes that will be scrubbed
            if rng.random() < 0.4:
                for _ in range(rng.randrange(1, 3)):
                    a.corrupt_data(rng.choice(a.disks), rng.randrange(n))
            a.scrub(pct if rng.random() < 0.85 else None, d if rng.random() < 0.9 else None, dt=8, tag='ties')
        # clean up: repair and clear
        blocks, _, _ = a.status()
        if any(b['bad'] for b in blocks) or a.silent:
            a.fix_bad()
            for key in list(a.silent):
                a.restore_data(*key)
            a.scrub('bad', None, tag='after_fix')


def scenario_deleted(a, rounds, viol):
    """files deleted since the last sync whose DELETED blocks are on record (content saved by a partial sync) while
    the parity still holds their data, next to synced files on the other disks; also with CHG / REP blocks.
    Expected: file errors only, no bad mark, info words of those stripes unchanged."""
    rng = a.rng
    for b in range(2):
        a.add_files([(d, rng.randrange(1, 4)) for d in a.disks for _ in range(rng.randrange(2, 5))])
        a.tick(rng.choice([DAY, 3 * DAY]))
        a.sync()
    a.scrub('full', None, dt=2 * DAY, tag='deleted')
    for rd in range(rounds):
        blocks, _, _ = a.status()
        # a victim whose stripes all hold a file of another disk too
        cands = [k for k in sorted(a.files) if k not in a.pending and
                 all(any(p in a.owner[d2] for d2 in a.disks if d2 != k[0]) for p in range(a.files[k]['start'], a.files[k]['start'] + a.files[k]['nblk']))]
        if not cands:
            break
        vd, vn = rng.choice(cands)
        vf = a.delete_file(vd, vn)
        vpos = set(range(vf['start'], vf['start'] + vf['nblk']))
        kind = rng.choice(['plain', 'plain', 'chg_other', 'rep_other', 'chg_over'])
        if kind == 'chg_other':            # a new file on another disk (CHG blocks, appended)
            a.add_files([(rng.choice([d for d in a.disks if d != vd]), rng.randrange(1, 3))])
        elif kind == 'rep_other':          # a copy of a synced file on another disk (REP blocks, appended)
            srcs = [k for k in sorted(a.files) if k not in a.pending and all((d, k[1]) not in a.files for d in a.disks if d != k[0])]
            if srcs:
                src = rng.choice(srcs)
                a.add_files([(rng.choice([d for d in a.disks if d != src[0]]), 0, None, src)])
        elif kind == 'chg_over' and min([p for (d, p) in a.deleted if d == vd]) == vf['start'] and \
                all(p in a.owner[vd] for p in range(0, vf['start'])):
            # a new file of the same size on the same disk takes the freed positions (CHG over DELETED)
            a.add_files([(vd, vf['nblk'], vf['start'])])
        # record the scan without processing the victim's stripes
        # a stripe inside the synced parity (it holds a block of an already synced file) that is not one of the victim's
        free = sorted(set(p for d in a.disks for p, (nm, _) in a.owner[d].items() if (d, nm) not in a.pending and p not in vpos))
        if not free:
            break
        start = rng.choice(free)          # (a start beyond the parity size is refused by the tool)
        a.sync(partial=(start, 1))
        a.scrub('full' if rng.random() < 0.7 else 100, None if rng.random() < 0.7 else 0, dt=rng.choice([DAY, 12 * DAY]), tag='deleted')
        if rng.random() < 0.5:
            a.scrub(rng.randrange(20, 101), 0, dt=DAY, tag='deleted')
        a.tick(DAY)
        a.sync()
        a.scrub('full', None, dt=DAY, tag='deleted')
        if any(h for h in a.deleted):
            raise HarnessError('deleted blocks still on record after a full sync')
        # holes left on the victim's disk would be reused by later files: stop adding to this array unless refilled
        if kind != 'chg_over' or (vd, vf['start']) not in [(d, p) for d in a.disks for p in a.owner[d]]:
            if any(p not in a.owner[vd] for p in range(a.alloc[vd])):
                break


def scenario_flags(a, rounds, viol, rehash=False):
    """neighbouring stripes that share the stored time and differ only in one mark (never-scrubbed / bad / rehash):
    the sync and the scrubs run in the same 8-second slot of the steered clock; `--test-force-scrub-even`, tie cuts and
    silent damage produce every adjacent pair of mark combinations.  After every scrub the words the NEXT command loads
    (status block lines + the saved content decoded position by position) must be the model's books."""
    rng = a.rng
    n = rng.randrange(10, 17)
    if rehash:
        a.first_sync_flags = ['--test-force-murmur3']
    a.add_files([(d, 1) for _ in range(n) for d in a.disks])
    a.sync()
    def dmg(k):
        for q in rng.sample(range(n), k):
            a.corrupt_data(rng.choice(a.disks), q)
    # 1. half of the ties scrubbed at the clock of the sync: scrubbed | never scrubbed, same time
    if rng.random() < 0.5:
        dmg(rng.randrange(0, 3))
    a.scrub(rng.choice([50, 30, 70]), 0, dt=0, tag='flags')
    # 2. every other stripe, some damaged: verified | bad+new | new alternate
    dmg(rng.randrange(1, 4))
    a.scrub(None, None, test=('even',), dt=0, tag='flags')
    a.scrub('bad', None, dt=0, tag='flags')            # still damaged: stay bad
    a.heal()
    a.scrub(rng.choice(['bad', 'new']), None, dt=0, tag='flags')
    a.scrub('new', None, dt=0, tag='flags')            # everything scrubbed now: same time, no mark
    # 3. differ only in bad
    dmg(rng.randrange(2, 5))
    a.scrub(rng.choice(['full', 100]), None if rng.random() < 0.5 else None, dt=0, tag='flags')
    a.heal()
    if rehash:
        # 4. differ only in rehash: every stripe gets the mark, every other one is migrated
        a.scrub('bad', None, dt=0, tag='flags')
        a.rehash(dt=0)
        a.scrub(None, None, test=('even',), dt=0, tag='flags')
        dmg(2)
        a.scrub(rng.choice([40, 60]), 0, dt=0, tag='flags')
        a.heal()
    for rd in range(rounds):
        # later slots: new batch synced and partly scrubbed at one clock value again
        a.add_files([(d, 1) for _ in range(rng.randrange(2, 5)) for d in a.disks])
        a.tick(DAY)
        a.sync()
        a.scrub(rng.randrange(10, 90), 0, dt=0, tag='flags')
        a.scrub(None, None, test=('even',), dt=0, tag='flags')
    a.scrub('new', None, dt=DAY, tag='flags')
    a.scrub('bad', None, dt=8, tag='flags')
    a.scrub('full', None, dt=8, tag='flags')


def scenario_stamps(a, rounds, viol):
    """the stamp grid of "file changed since the last sync": recorded sub-second part 0 or not, new stamp in the same
    second or another one with sub-second part 0 / the recorded one / another one, same size, content changed (or not).
    Every cell must be recognised as a changed file: file errors, no bad mark, words unchanged."""
    rng = a.rng
    X, Y = 123456789, 987654321
    a.add_files([(a.disks[0], 1) for _ in range(12)] + [(a.disks[1], 12)])
    names = sorted(n for (d, n) in a.files if d == a.disks[0])
    for i, nm in enumerate(names):          # recorded: alternately nsec 0 and nsec X
        f = a.files[(a.disks[0], nm)]
        f['mtime_ns'] = (f['mtime_ns'] // 10 ** 9) * 10 ** 9 + (0 if i % 2 == 0 else X)
        os.utime(a.path(a.disks[0], nm), ns=(f['mtime_ns'], f['mtime_ns']))
    a.sync()
    for rd in range(rounds):
        cells = [(ds, ns) for ds in (0, 5) for ns in (0, X, Y)]
        rng.shuffle(cells)
        per = {0: list(cells), 1: list(cells)}
        for i, nm in enumerate(names):
            rec = 0 if i % 2 == 0 else X
            lst = per[i % 2]
            while lst and lst[-1] == (0, rec):
                lst.pop()
            if not lst:
                continue
            cell = lst.pop()
            a.change_file(a.disks[0], nm, 'content' if rng.random() < 0.8 else 'touch', stamp=cell)
        a.scrub('full' if rng.random() < 0.6 else 100, None, dt=DAY, tag='stamps')
        a.heal()
        a.scrub('full', None, dt=DAY, tag='stamps')


def scenario_autosave(a, rounds, viol):
    """`autosave 1` with 16 MiB blocks and 10 data disks: the scrub saves the content every 5 stripes or so and once more
    at the end.  Errors before and after the autosave points; what `status` reads back afterwards (the saved words)
    must be the model's books for the whole run."""
    rng = a.rng
    n = rng.randrange(13, 18)
    spec = [(a.disks[0], 1) for _ in range(n)]
    for d in a.disks[1:4]:
        spec += [(d, 1) for _ in range(rng.randrange(0, 4))]
    a.add_files(spec)
    a.sync()
    for rd in range(rounds):
        # silent errors early, in the middle and in the last stripes
        for q in set([n - 1, rng.randrange(0, 4), rng.randrange(4, n - 1)] if rd == 0 else [rng.randrange(0, n) for _ in range(2)]):
            a.corrupt_data(a.disks[0], q)
        full = rd == 0 or rng.random() < 0.5
        a.scrub('full' if full else 100, None if full else 0, dt=DAY, tag='autosave')
        if 'Autosaving' not in (a.last_out or ''):
            raise HarnessError('the scrub did not autosave: ' + (a.last_out or '')[-300:])
        a.fix_bad()
        a.heal()
        a.scrub('bad', None, dt=DAY, tag='autosave')


def install(a, groups, m):
    """give stripe k the time of group groups[k] (0..m), later groups later: group 0 by `-p full` (the others are
    corrupted and become bad, keeping their old time), group j by `scrub -p bad` after restoring its data"""
    rng = a.rng
    n = len(groups)
    for k in range(n):
        if groups[k] >= 1:
            a.corrupt_data(a.disks[k % a.ndisk], k)
    a.scrub('full', None, dt=rng.choice([DAY, 2 * DAY, DAY + 3]), tag='install')
    for j in range(1, m + 1):
        for k in range(n):
            if groups[k] == j:
                for d in a.disks:
                    if (d, k) in a.silent:
                        a.restore_data(d, k)
        a.scrub('bad', None, dt=rng.choice([DAY, DAY, 2 * DAY, DAY + 5, 5 * DAY]), tag='install')


STALE_ERRNO_KEY = 'F-C15-stale-errno-eio'


def new_stats():
    return {'tool_runs': 0, 'scrubs': 0, 'fixes': 0, 'refused': 0, 'selected_total': 0, 'plans': {}, 'cases': [], 'eio_scrubs': 0,
            'pending_scrubs': 0, 'changed_scrubs': 0, 'deleted_scrubs': 0, 'parity_unreadable_scrubs': 0, 'truncated_file_scrubs': 0,
            'rehash_scrubs': 0, 'limit_scrubs': 0, 'autosave_scrubs': 0, 'stamp_grid': set(), 'outcomes': {'verified': 0, 'damaged': 0, 'inconclusive': 0}}


def probe_misc(tool, shim, model_exe, chk, seed):
    """(1) an array without any block: scrub must refuse ("The array appears to be empty", model LimFatalEmpty);
    (2) the clock set back: a scrub running at a time earlier than some check times.  The stripes it does not select
    must not look verified afterwards: time not raised, marks kept (state.c clamps times in the future to `now` when
    saving, see F-C10a; that lowering is recorded as an observation).  Oracle only, no model."""
    import random
    found = []
    obs = {}
    m = Model(model_exe)
    a = Arr('misc', tool, shim, m, random.Random(seed), 2, 1, 1700000000, lambda tag, what, r, kind: found.append((tag, what, r, kind)), new_stats())
    try:
        rc, out, lt = a.run(['sync'])
        a.scrub(None, None, tag='empty')
        a.scrub('full', None, tag='empty')
        obs['empty_array_refused'] = a.stats['refused']
        a.failed = False
        a.add_files([('d1', 2), ('d2', 3)])
        a.sync()
        a.tick(5 * DAY)
        a.add_files([('d1', 2)])
        a.sync()
        blocks, _, _ = a.status()
        ws = a.words(blocks)
        back = a.T - 2 * DAY
        dig0 = a.tree_digest()
        rc, out, lt = a.run(['-p', '100', '-o', '0', 'scrub'], T=back)
        blocks2, _, _ = a.status()
        lowered = []
        for k, (b0, b1) in enumerate(zip(blocks, blocks2)):
            if b0['time'] > back:          # too new for a scrub running at `back`: not selected
                if b1['time'] > b0['time'] or b1['bad'] != b0['bad'] or b1['rehash'] != b0['rehash']:
                    found.append(('clock_back', 'a scrub running with the clock set back changed stripe %d it did not verify: %s -> %s' % (k, b0, b1),
                                  {'before': blocks, 'after': blocks2, 'now': back}, 'c'))
                if b1['time'] < b0['time']:
                    lowered.append((k, b0['time'], b1['time']))
            elif b1['time'] != (back & ~7):
                found.append(('clock_back', 'stripe %d selected by -p 100 -o 0 at %d not refreshed: %s' % (k, back, b1), {'before': blocks, 'after': blocks2}, 'c'))
        if a.tree_digest() != dig0:
            found.append(('clock_back', 'scrub modified data or parity', {}, 'c'))
        obs['clock_back_times_lowered'] = lowered
    finally:
        m.close()
        shutil.rmtree(a.root, ignore_errors=True)
    return obs, found


def probe_stale_errno(tool, shim, model_exe, chk, seed):
    """regression of F-C15-stale-errno-eio (fixed in /repo 79689a5): the readers of scrub tested errno after
    handle_read / parity_read returned -1 for a read past the end of a truncated file, a path that did not set errno;
    after one genuine EIO on the same disk (same reader thread) the stripes of a file *changed since the last sync*
    (or of a parity file cut short) were booked as I/O errors and marked bad.
    Two deterministic arrays: the data reader and the parity reader.  Returns a list of (tag, what, replay object)."""
    import random
    out_v = []
    for twin in ('data', 'parity'):
        m = Model(model_exe)
        a = Arr('stale_' + twin, tool, shim, m, random.Random(seed), 2, 1, 1700000000, lambda *x: None, new_stats())
        try:
            a.add_files([('d1', 1), ('d1', 1), ('d1', 3), ('d2', 5)])      # d1: stripes 0, 1, 2-4; d2: stripes 0-4
            a.sync()
            before, _, _ = a.status()
            if twin == 'data':
                name = sorted(n for (d, n) in a.files if d == 'd1')[2]
                a.change_file('d1', name, ('trunc', 1, 5 * 10 ** 9))        # stripes 3 and 4 are past the end of the file
                first = sorted(n for (d, n) in a.files if d == 'd1')[0]
                env = {'C15_EIO_PATH': 'd1/' + first, 'C15_EIO_OFFSET': '0'}
                recipe = {'files': 'd1: a (1 KiB), b (1 KiB), c (3 KiB); d2: z (5 KiB); sync', 'change': 'truncate -s 1024 d1/c (and new mtime)',
                          'scrub': '-p full with pread(d1/a, offset 0) failing with EIO (harness/c/c15_shim.c)'}
            else:
                a.truncate_parity(0, 3)                                     # parity positions 3 and 4 are gone
                env = {'C15_EIO_PATH': 'p1/parity', 'C15_EIO_OFFSET': '0'}
                recipe = {'files': 'd1: a (1 KiB), b (1 KiB), c (3 KiB); d2: z (5 KiB); sync', 'change': 'truncate -s 3072 parity',
                          'scrub': '-p full with pread(parity, offset 0) failing with EIO (harness/c/c15_shim.c)'}
            a.tick(DAY)
            rc, out, lt = a.run(['-p', 'full', 'scrub'], extra_env=env)
            blocks, _, _ = a.status()
            bad = [k for k, b in enumerate(blocks) if b['bad']]
            eio_tags = sorted(set(int(x) for x in re.findall(r'^(?:parity_)?error:(\d+):[^\n]*EIO', lt, re.M)))
            summ = dict((mm.group(1), int(mm.group(2))) for mm in re.finditer(r'^summary:(error_\w+):(\d+)$', lt, re.M))
            recipe.update({'conf': '2 data disks, 1 parity, blocksize 1', 'bad_stripes_after': bad, 'stripes_with_EIO_tags': eio_tags, 'summary': summ, 'exit': rc})
            t8 = a.T & ~7
            ok = (bad == [0] and eio_tags == [0] and summ.get('error_io') == 1 and summ.get('error_file') == 2 and summ.get('error_data') == 0 and rc != 0
                  and all(blocks[k]['time'] == before[k]['time'] for k in (0, 3, 4)) and all(blocks[k]['time'] == t8 for k in (1, 2)))
            if not ok:
                out_v.append(('stale_errno_' + twin,
                              'after a genuine EIO at stripe 0 the %s reader books the reads past the end of a truncated %s as I/O errors: bad stripes %s, EIO tags at %s, '
                              'summary %s (expected: bad [0], EIO tag [0], 1 io error, 2 file errors, stripes 3 and 4 unchanged, 1 and 2 refreshed)'
                              % (twin, 'file changed since the last sync' if twin == 'data' else 'parity file', bad, eio_tags, summ), recipe))
        finally:
            m.close()
            shutil.rmtree(a.root, ignore_errors=True)
    return out_v


def probe_wraparound(tool, shim, model_exe, chk, seed):
    """replay of the witnesses of C15_plan_number_range_refuted / C15_older_number_range_refuted on the binary:
    numbers whose low 32 bits are a negative int pass the range test of snapraid.c and act as named plans.
    Model and binary must agree (the oracle of the property is not consulted: it would refuse these numbers)."""
    import random
    stats = {'tool_runs': 0, 'scrubs': 0, 'fixes': 0, 'refused': 0, 'selected_total': 0, 'plans': {}, 'cases': [], 'eio_scrubs': 0,
             'pending_scrubs': 0, 'changed_scrubs': 0, 'deleted_scrubs': 0, 'parity_unreadable_scrubs': 0, 'truncated_file_scrubs': 0, 'rehash_scrubs': 0, 'limit_scrubs': 0, 'autosave_scrubs': 0, 'stamp_grid': set(), 'outcomes': {'verified': 0, 'damaged': 0, 'inconclusive': 0}}
    found = []

    def viol(tag, what, replay_obj, kind):
        found.append((tag, what, replay_obj, kind))
    m = Model(model_exe)
    a = Arr('probe', tool, shim, m, random.Random(seed), 3, 2, 1700000000, viol, stats)
    obs = []
    try:
        a.add_files([(d, 1) for _ in range(12) for d in a.disks])
        a.sync()
        a.scrub(30, 0, dt=20 * DAY, tag='probe')
        for parg, older in (('4294967292', None), ('4294967293', None), ('-2', None), ('4294967295', None), ('18446744073709551612', None),
                            (50, '4294967295'), ('4294967292', 3), ('4294967396', None), ('99999999999999999999999', None)):
            a.failed = False
            before = len(stats['cases']) + stats['refused']
            r0 = stats['refused']
            a.scrub(parg, older, dt=15 * DAY, tag='probe', no_oracle=True)
            c = stats['cases'][-1] if len(stats['cases']) + stats['refused'] > before and stats['refused'] == r0 else None
            obs.append('-p %s%s -> %s' % (parg, '' if older is None else ' -o %s' % older,
                                          'refused' if c is None else 'accepted, %d of %d stripes scrubbed, limits %s' % (c['selected'], c['used'], c['limits'] or 'none')))
    finally:
        m.close()
        shutil.rmtree(a.root, ignore_errors=True)
    return obs, found, stats


# ---------------------------------------------------------------------------------------------------------
# failing-input search on the extracted model (boolean forms of the theorems), no binary involved

def gen_infos(rng):
    n = rng.randrange(1, 40)
    base = rng.choice([0, 8, 1000, 10 ** 9, 2 ** 32 - 10 ** 6])
    tv = [base + 8 * rng.randrange(0, 4) * rng.choice([1, DAY // 8]) for _ in range(rng.randrange(1, 5))]
    ws = []
    for _ in range(n):
        r = rng.random()
        if r < 0.15:
            ws.append(0)
        else:
            t = rng.choice(tv) & ~7
            w = t | (1 if rng.random() < 0.15 else 0) | (2 if rng.random() < 0.05 else 0) | (4 if rng.random() < 0.3 else 0)
            ws.append(w)
    return ws


def model_search(chk, model_exe, ncases):
    rng = chk.rng
    lines, metas = [], []
    for _ in range(ncases):
        ws = gen_infos(rng)
        times = sorted(set(w & ~7 for w in ws if w)) or [0]
        now = rng.choice(times) + rng.choice([0, 1, 7, 8, DAY, 10 * DAY, 10 * DAY + 1, 10 * DAY - 1, 11 * DAY, 1000 * DAY])
        r = rng.random()
        test = None
        if r < 0.15:
            parg, older = rng.choice(['bad', 'new', 'full']), None
        elif r < 0.25:
            parg, older = None, rng.choice([None, 0, 10, 9, 11])
        elif r < 0.30:
            parg, older, test = None, None, ('at', rng.randrange(1, len(ws) + 2))
        elif r < 0.33:
            parg, older, test = None, None, ('even',)
        else:
            parg, older = rng.randrange(0, 101), rng.choice([None, 0, 1, 9, 10, 11, (now - rng.choice(times)) // DAY if now >= rng.choice(times) else 0])
            if older is not None:
                older = max(0, min(1000, older))
        lines.append('plan %d %d %s %s %d %s' % (1 if test and test[0] == 'even' else 0, test[1] if test and test[0] == 'at' else 0,
                                                 'default' if parg is None else parg, '-' if older is None else older, now, ' '.join(map(str, ws))))
        metas.append((ws, parg, older, now, test))
    outs = run_lines(model_exe, lines)
    bad = []
    nontrivial = 0
    for (ws, parg, older, now, test), line, o in zip(metas, lines, outs):
        if o in ('fatal_empty',):
            if any(ws):
                bad.append((line, o, 'fatal_empty on a non-empty array'))
            continue
        mm = re.match(r'lim (\w+) (\d+) (-?\d+) (\d+) ([01]*)$', o)
        if not mm:
            bad.append((line, o, 'unexpected model output'))
            continue
        sel = set(k for k, c in enumerate(mm.group(5)) if c == '1')
        tags = {'count_limit': int(mm.group(2)), 'time_limit': int(mm.group(3)), 'last_limit': int(mm.group(4))} if mm.group(1) == 'auto' else {}
        msgs = orc.plan_properties(ws, parg, older, now, test, sel, tags)
        osel = orc.expected_selection(ws, parg, older, now, test)['selected']
        if osel != sel:
            msgs.append('selection differs from the property oracle: model %s oracle %s' % (sorted(sel), sorted(osel)))
        if msgs:
            bad.append((line, o, '; '.join(msgs)))
        if len(set(w & ~7 for w in ws if w)) > 1 and sel and len(sel) < sum(1 for w in ws if w):
            nontrivial += 1
    return bad, nontrivial, len(lines)


# stripe book-keeping: the model against the independent classification, exhaustively over small stripes
def books_search(chk, model_exe, tier):
    rng = chk.rng
    dts = [d + b + t + s + h for d in '01' for b in 'EBCRD' for t in '01' for s in 'DeiEI' for h in '01']
    pts = [s + e for s in 'DeiEI' for e in '01']
    cases = []
    for d in dts:                      # every single data task with one clean parity, and with a mismatching parity
        for p in ('D1', 'D0', 'i1', 'e1'):
            cases.append(([d], [p]))
    for p in pts:
        cases.append((['1B0D1'], [p]))
        cases.append((['1B1D1', '1B0D1'], [p, 'D1']))
    for _ in range(3000 if tier == 'quick' else 30000):
        cases.append(([rng.choice(dts) if rng.random() < 0.5 else rng.choice(['1B0D1', '1B0D0', '1B1D0', '1C0D1', '1E0D1', '1D0D1', '1B0i1', '1B0e1', '0E0D1']) for _ in range(rng.randrange(1, 5))],
                      [rng.choice(pts) if rng.random() < 0.3 else rng.choice(['D1', 'D1', 'D0']) for _ in range(rng.randrange(1, 4))]))
    lines = []
    for ds, ps in cases:
        info = rng.choice([164, 165, 166, 167, 160, 1000000004, 8])
        now = rng.choice([1000, 1700000003, 2 ** 32 - 1])
        lim = rng.choice([100, 100, 1, 2])
        lines.append('stripe %d %d %d %d %d %d %d %s %d %s' % (lim, rng.randrange(3), rng.randrange(3), rng.randrange(3), info, now, len(ds), ' '.join(ds), len(ps), ' '.join(ps)))
    outs = run_lines(model_exe, lines)
    bad = []
    kinds = {}
    for (ds, ps), line, o in zip(cases, lines, outs):
        toks = line.split()
        lim, c0, info, now = int(toks[1]), [int(toks[2]), int(toks[3]), int(toks[4])], int(toks[5]), int(toks[6])
        exp = orc.stripe_reference(lim, c0, ds, ps, info, now)
        kinds[exp.split()[0] if exp != 'bail' else 'bail'] = kinds.get(exp.split()[0] if exp != 'bail' else 'bail', 0) + 1
        got = o if o == 'bail' else ' '.join(o.split()[:5])
        if got != exp:
            bad.append((line, o, exp))
    return bad, len(lines), kinds


# ---------------------------------------------------------------------------------------------------------

def main(tier, replay=None):
    chk = Check('C15', tier, 'proof')
    snap = snapshot_repo()
    regen(snap)
    try:
        tool = build_tool(snap)
    except BuildError as e:
        chk.violation('build', 'working tree does not build: ' + str(e)[:500], {'error': str(e)}, no_input=True)
        return chk.finish()
    shim = os.path.join(snap, 'c15_shim.so')
    r = run(['gcc', '-shared', '-fPIC', '-O1', '-o', shim, os.path.join(VERIF, 'harness', 'c', 'c15_shim.c'), '-ldl'])
    if r.returncode != 0:
        raise RuntimeError('shim build failed: ' + r.stdout)

    ob = check_obligations('C15')
    proof_coverage(chk, ob, 'make -f Makefile.coq -k Props/Properties_C15.vo (coqc 8.16.1, full .vo) + Print Assumptions',
                   ['Coq 8.16.1 kernel incl. vm_compute (Examples only)', 'extraction (ExtrOcamlBasic only) + ocaml/C15/driver.ml',
                    'harness/c/c15_shim.c (time/gettimeofday/clock_gettime(REALTIME) from C15_FAKE_TIME; optional pread EIO)',
                    'harness/py/c15_oracle.py (independent statement of the plan and of honest book-keeping)',
                    'hand model of scrub.c block_is_enabled / state_scrub limits / per-stripe flags and of elem.h info_* (ScrubModel.v), tied by command-level correspondence',
                    'the tool\'s own dumps: status -G -l block:/info_time: lines, scrub -l count_limit/time_limit/last_limit/error:/summary: tags',
                    'justsynced bit per stripe is tracked by the harness (sync sets it, a verified scrub clears it) and cross-checked against the info_time new/scrubbed histogram'])
    try:
        model_exe = build_model('Extract/Extract_C15.vo', 'ocaml/C15', 'c15_ext', 'driver.ml', 'model')
    except BuildError as e:
        chk.violation('model_build', 'extracted model does not build: ' + str(e)[-600:], {'error': str(e)}, no_input=True)
        return chk.finish()

    lock = threading.Lock()
    seen = set()

    def viol_for(arr_name):
        def viol(tag, what, replay_obj, kind):
            with lock:
                key = (tag, arr_name)
                if key in seen or len(seen) > 12:
                    return
                seen.add(key)
                chk.violation('%s_%s' % (tag, arr_name), what, replay_obj, no_input=(kind == 'drift'))
        return viol

    stats_all = []

    inconclusive = []

    def run_scenario(spec, attempt=1):
        kind, idx, seed, ndisk, npar, t0, steps = spec
        import random, traceback
        rng = random.Random(seed)
        stats = {'tool_runs': 0, 'scrubs': 0, 'fixes': 0, 'refused': 0, 'selected_total': 0, 'plans': {}, 'cases': [], 'eio_scrubs': 0,
                 'pending_scrubs': 0, 'changed_scrubs': 0, 'deleted_scrubs': 0, 'parity_unreadable_scrubs': 0, 'truncated_file_scrubs': 0, 'rehash_scrubs': 0, 'limit_scrubs': 0, 'autosave_scrubs': 0, 'stamp_grid': set(),
                 'outcomes': {'verified': 0, 'damaged': 0, 'inconclusive': 0}}
        name = '%s%d' % (kind, idx)
        m = Model(model_exe)
        if kind == 'autosave':
            a = Arr(name, tool, shim, m, rng, ndisk, npar, t0, viol_for(name), stats, bs_kib=16384, autosave=1, extra_flags=['--test-io-cache', '1'])
        else:
            a = Arr(name, tool, shim, m, rng, ndisk, npar, t0, viol_for(name), stats)
        a.spec = list(spec)
        retry = False
        try:
            if kind == 'walk':
                scenario_walk(a, steps, a.viol)
            elif kind == 'rehash':
                scenario_walk(a, steps, a.viol, rehash=True)
            elif kind == 'deleted':
                scenario_deleted(a, steps, a.viol)
            elif kind == 'autosave':
                scenario_autosave(a, steps, a.viol)
            elif kind == 'stamps':
                scenario_stamps(a, steps, a.viol)
            elif kind == 'flags':
                scenario_flags(a, steps, a.viol, rehash=(idx % 2 == 1))
            else:
                scenario_ties(a, steps, a.viol)
        except StopScenario:
            pass
        except HarnessError as e:
            # the tool contradicts the tracked state: a comparison failure
            with lock:
                stats['harness_error'] = {'error': 'HarnessError: %s' % str(e)[:600], 'spec': list(spec), 'scrub_no': a.nscrub,
                                          'traceback': traceback.format_exc()[-1500:], 'history_tail': a.history[-6:]}
        except Exception as e:
            tb = traceback.format_exc()
            if a.failed:
                pass                # a disagreement was already reported for this array; its state is not meaningful any more
            elif attempt == 1:
                retry = True
            else:
                with lock:
                    inconclusive.append({'scenario': name, 'spec': list(spec), 'scrub_no': a.nscrub, 'error': '%s: %s' % (type(e).__name__, str(e)[:300]),
                                         'traceback': tb[-1500:]})
                    chk.notes.append('inconclusive: scenario %s stopped after %d checked scrubs by a harness bookkeeping exception (%s: %s), '
                                     'twice; the scrubs compared before it are counted, nothing was compared after it' % (name, a.nscrub, type(e).__name__, str(e)[:200]))
        finally:
            m.close()
            shutil.rmtree(a.root, ignore_errors=True)
        if retry:
            return run_scenario(spec, attempt=2)
        with lock:
            stats_all.append(stats)

    # ---- corpus first: fixed plan cases (model output pinned, oracle must agree) and fixed scenarios
    cdir = os.path.join(VERIF, 'corpus', 'C15')
    corpus_lines = [l.rstrip('\n').split(' => ') for l in open(os.path.join(cdir, 'plans.txt')) if ' => ' in l]
    couts = run_lines(model_exe, [l for l, _ in corpus_lines], shards=1)
    for (line, expect), got in zip(corpus_lines, couts):
        if got != expect:
            chk.violation('corpus_plan', 'MODEL-DRIFT: corpus plan case %r gives %r, pinned %r' % (line, got, expect), {'model_line': line, 'model': got, 'pinned': expect}, no_input=True)
            continue
        toks = line.split()
        mm = re.match(r'lim (\w+) (\d+) (-?\d+) (\d+) ([01]*)$', got)
        if mm and toks[1] == '0' and toks[2] == '0':
            parg = None if toks[3] == 'default' else (toks[3] if toks[3] in ('bad', 'new', 'full') else int(toks[3]))
            older = None if toks[4] == '-' else int(toks[4])
            wsx = list(map(int, toks[6:]))
            o = orc.expected_selection(wsx, parg, older, int(toks[5]), None)
            if o['selected'] != set(k for k, c in enumerate(mm.group(5)) if c == '1'):
                chk.violation('corpus_oracle', 'MODEL-DRIFT: corpus plan case %r: model %r, property oracle selects %s' % (line, got, sorted(o['selected'])), {'model_line': line}, no_input=True)
    corpus_specs = [tuple(x) for x in json.load(open(os.path.join(cdir, 'scenarios.json')))['scenarios']]
    if tier == 'quick':
        corpus_specs = corpus_specs[:3]

    rng = chk.rng
    specs = list(corpus_specs)
    nwalk, nties = (12, 8) if tier == 'quick' else (48, 32)
    wsteps, trounds = (30, 3) if tier == 'quick' else (80, 6)
    if replay:
        obj = json.load(open(replay))
        sp = (obj.get('replay') or {}).get('spec')
        if not sp:
            print('replay file has no scenario spec (model-only finding): re-run the check with the same VERIF_SEED')
            return 2
        print('replaying scenario %s up to scrub %s' % (sp, obj['replay'].get('scrub_no')))
    for i in range(nwalk):
        t0 = rng.choice([1700000000, 1700000000, 1000000, 4000000000, 1234567])
        specs.append(('walk', i, rng.getrandbits(48), rng.choice([2, 3, 3, 4]), rng.choice([1, 2, 2, 3]), t0 + rng.randrange(0, 8), wsteps))
    for i in range(4 if tier == 'quick' else 12):
        specs.append(('flags', i, rng.getrandbits(48), rng.choice([2, 3]), rng.choice([1, 2]), 1700000000 + rng.randrange(0, 8), 1))
    for i in range(2 if tier == 'quick' else 8):
        specs.append(('stamps', i, rng.getrandbits(48), 2, rng.choice([1, 2]), 1700000000 + rng.randrange(0, 8), 2))
    for i in range(2 if tier == 'quick' else 6):
        specs.append(('autosave', i, rng.getrandbits(48), 10, 1, 1700000000 + rng.randrange(0, 8), 2))
    for i in range(6 if tier == 'quick' else 24):
        specs.append(('rehash', i, rng.getrandbits(48), rng.choice([3, 3, 4]), rng.choice([1, 2]), 1700000000 + rng.randrange(0, 8), 16 if tier == 'quick' else 40))
    for i in range(10 if tier == 'quick' else 40):
        specs.append(('deleted', i, rng.getrandbits(48), 3, rng.choice([1, 2]), 1700000000 + rng.randrange(0, 8), 3))
    for i in range(nties):
        t0 = rng.choice([1700000000, 90 * DAY, 4000000000])
        specs.append(('ties', i, rng.getrandbits(48), rng.choice([2, 3]), rng.choice([1, 2]), t0 + rng.randrange(0, 8), trounds))
    if replay:
        specs = [tuple(sp)]
    with ThreadPoolExecutor(max_workers=min(NCPU, len(specs))) as ex:
        list(ex.map(run_scenario, specs))
    if replay:
        for what, p, noinp in chk.violations:
            print('# %s' % what)
        print('replay: %d violation(s) reproduced' % len(chk.violations))
        return 1 if chk.violations else 0

    # ---- witnesses of the *_refuted theorems about the -p / -o numbers, replayed on the binary
    if not replay:
        try:
            obs, pfound, pstats = probe_wraparound(tool, shim, model_exe, chk, chk.seed)
            chk.cov['plan_number_wraparound_observed'] = obs
            for tag, what, robj, kind in pfound[:2]:
                chk.violation('probe_' + tag, ('MODEL-DRIFT: ' if not what.startswith('MODEL-DRIFT') else '') +
                              'witness of C15_plan_number_range_refuted no longer behaves as the model says: ' + what, robj, no_input=True)
            if any('4294967292 ->' in o and 'accepted' in o for o in obs):
                chk.notes.append('observation (not part of the property text): `scrub -p 4294967292` is accepted and acts as `-p full`; '
                                 'snapraid.c:660 stores strtoul() in an int before testing `plan > 100` (C15_plan_number_range_refuted)')
        except Exception as e:
            chk.notes.append('wrap-around probe failed: %s' % str(e)[:200])

    # ---- empty array, clock set back
    if not replay:
        try:
            mobs, mfound = probe_misc(tool, shim, model_exe, chk, chk.seed)
            chk.cov['misc_probe'] = mobs
            for tag, what, robj, kind in mfound[:2]:
                chk.violation('misc_' + tag, what, robj, no_input=(kind == 'drift'))
            if mobs.get('empty_array_refused', 0) < 2:
                chk.violation('misc_empty', 'scrub of an array without blocks was not refused', mobs, no_input=True)
        except Exception as e:
            chk.notes.append('inconclusive: misc probe stopped by %s: %s' % (type(e).__name__, str(e)[:200]))

    # ---- regression of F-C15-stale-errno-eio (data reader and parity reader)
    if not replay:
        try:
            sv = probe_stale_errno(tool, shim, model_exe, chk, chk.seed)
            chk.cov['stale_errno_regression'] = {'arrays': 2, 'failed': [t for t, _, _ in sv]}
            for tag, what, recipe in sv:
                chk.violation(tag, what, recipe)
        except Exception as e:
            chk.notes.append('inconclusive: stale errno regression stopped by %s: %s' % (type(e).__name__, str(e)[:200]))

    # ---- failing-input search on the model and the exhaustive stripe book-keeping comparison
    mbad, nontriv_m, nm = model_search(chk, model_exe, 4000 if tier == 'quick' else 40000)
    bbad, nb, bkinds = books_search(chk, model_exe, tier)
    for line, o, why in mbad[:3]:
        chk.violation('model_prop', 'MODEL-DRIFT or broken theorem: the extracted model violates the plan property: %s' % why,
                      {'model_line': line, 'model': o}, no_input=True)
    for line, o, exp in bbad[:3]:
        chk.violation('model_books', 'MODEL-DRIFT: the extracted stripe book-keeping %r differs from the reference %r' % (o, exp),
                      {'model_line': line, 'model': o, 'reference': exp}, no_input=True)

    # ---- coverage
    cases = [c for s in stats_all for c in s['cases']]
    herr = [s['harness_error'] for s in stats_all if 'harness_error' in s]
    if herr and not chk.violations:
        chk.violation('harness', 'the tool contradicts the state tracked by the correspondence harness: %s' % herr[0]['error'],
                      {'spec': herr[0]['spec'], 'scrub_no': herr[0]['scrub_no'], 'errors': herr}, no_input=True)
    chk.cov['inconclusive_scenarios'] = inconclusive
    plans = {}
    for s in stats_all:
        for k, v in s['plans'].items():
            plans[k] = plans.get(k, 0) + v
    outc = {k: sum(s['outcomes'][k] for s in stats_all) for k in ('verified', 'damaged', 'inconclusive')}
    nontrivial = set()
    for c in cases:
        if c['selected'] and c['selected'] < c['used'] and c['distinct_times'] > 1:
            nontrivial.add((c['n'], c['used'], str(c['plan']), str(c['older']), c['selected'], c['distinct_times'], c['bad'], str(c['limits'])))
    chk.cov.update({
        'evaluations': len(cases) + nm + nb,
        'distinct_nontrivial': len(nontrivial),
        'rule': 'binary: one evaluation = one real `snapraid scrub` under the clock shim compared (limits, processed set, info words after, counters, exit, '
                'data+parity digests) with the model and the property oracle; non-trivial = 0 < selected < used with >1 distinct check times, '
                'distinct by (size, used, plan, age, selected, distinct times, bad, limits).  model-only: %d plan cases + %d stripe cases' % (nm, nb),
        'binary_scrubs': len(cases), 'tool_runs': sum(s['tool_runs'] for s in stats_all), 'fix_runs': sum(s['fixes'] for s in stats_all),
        'refused_commands': sum(s['refused'] for s in stats_all),
        'scrubs_with_injected_eio': sum(s['eio_scrubs'] for s in stats_all),
        'scrubs_with_pending_blocks': sum(s['pending_scrubs'] for s in stats_all),
        'scrubs_with_changed_files': sum(s['changed_scrubs'] for s in stats_all),
        'scrubs_with_deleted_blocks_on_record': sum(s['deleted_scrubs'] for s in stats_all),
        'scrubs_with_unreadable_parity': sum(s['parity_unreadable_scrubs'] for s in stats_all),
        'scrubs_with_truncated_files': sum(s['truncated_file_scrubs'] for s in stats_all),
        'scrubs_with_rehash_marks': sum(s['rehash_scrubs'] for s in stats_all),
        'scrubs_with_error_limit': sum(s['limit_scrubs'] for s in stats_all),
        'scrubs_with_autosave': sum(s['autosave_scrubs'] for s in stats_all),
        'scrubs_in_the_time_slot_of_existing_stripes': sum(1 for c in cases if c.get('tag') == 'flags'),
        'saved_words_decoded_position_by_position': sum(s.get('decoded_words', 0) for s in stats_all), 'decoder_failures': sum(s.get('decoder_failures', 0) for s in stats_all), 'decoder_failure_kinds': sorted(set(s['decoder_failure_kind'] for s in stats_all if 'decoder_failure_kind' in s))[:6],
        'changed_file_stamp_grid (recorded nsec is 0, same second, new nsec)': sorted(set(x for s in stats_all for x in s['stamp_grid'])),
        'plans_run': plans, 'stripe_outcomes_on_binary': outc,
        'tie_cut_cases': sum(1 for c in cases if c['tie_cut']),
        'cases_with_bad_stripes_at_the_tie_time': sum(1 for c in cases if c['bad_at_tie']),
        'cases_selecting_more_than_count_limit': sum(1 for c in cases if c['limits'] and c['selected'] > c['limits'].get('count_limit', 0)), 'cases_with_bad_marks': sum(1 for c in cases if c['bad']),
        'stripes_selected_total': sum(s['selected_total'] for s in stats_all),
        'array_sizes': sorted(set(c['n'] for c in cases))[:40],
        'corpus_plan_cases': len(corpus_lines), 'corpus_scenarios': len(corpus_specs),
        'model_search_cases': nm, 'model_search_nontrivial': nontriv_m, 'books_cases': nb, 'books_reference_kinds': bkinds,
        'traces_validated_against_impl': len(cases),
    })
    chk.cov['samples'] = [c for c in cases if c['tie_cut']][:4] + [c for c in cases if 'damaged' in c['outcomes']][:3] + \
                         [c for c in cases if 'inconclusive' in c['outcomes']][:3] + cases[:2]
    if ob['failed'] and not chk.violations:
        chk.violation('obligation', 'proof obligation of C15 no longer checks: %s' % ob['failed'][0],
                      {'theorem_file': 'coq/Props/Properties_C15.v', 'failed': ob['failed'], 'log_tail': ob['log'][-1500:]}, no_input=True)
    chk.assumptions += ['times below 2^32 (year 2106) and clock never moved backwards between writing commands (state.c clamps future times when saving)',
                        'the qsort of scrub.c is modelled by its specification (ascending rearrangement); time_compare is a total order on time_t',
                        'hash collisions, fatal task states (TASK_STATE_ERROR/IOERROR: close/open EIO) and the autosave path are not exercised on the binary',
                        'exercised by oracle only (not in the Coq model): how the readers classify a failed read (errno == EIO or not; the model takes the '
                        'task state as input; F-C15-stale-errno-eio, fixed in 79689a5, lived there and has a regression scenario), where the rehash stores the new hashes (checked by '
                        'repairing everything and requiring two clean full scrubs at the end of every history), the clamping of future times when the content is saved',
                        'never reached on the binary: a disk slot without disk (scrub.c:118), the autosave inside scrub (needs > 1 GB arrays), the signal break, close errors',
                        'stripe -> file layout is predicted by the harness (files are only ever added, alpha order) and validated by the positions in the error: tags']
    return chk.finish()
