"""C16 -- arrays written by the reference version stay readable and repairable.

What a run decides: whether the CURRENT tree still implements the reference functions.  The reference is fixed three
ways, none of which comes from the code under test: (1) closed definitions proved in Coq (bit-serial CRC-32C, the
packed-integer format), (2) digests / CRCs computed ONCE by the pinned tree (vectors/C16/*.txt), (3) tiny arrays
written ONCE by the pinned binary (vectors/C16/arrays).  The Gallina models are tied to the C on every run by
the unit driver harness/c/c16_drv.c (model = extracted OCaml)."""
import os, sys, json, time, threading, shutil, re, glob
from common import *
import c16_lib as L
import c16_arrays as A

DRV_SRCS = ['cmdline/util.c', 'cmdline/stream.c', 'cmdline/support.c', 'cmdline/elem.c', 'cmdline/unix.c',
            'raid/memory.c', 'tommyds/tommy.c']
VEC = os.path.join(VERIF, 'vectors', 'C16')

# table-driven CRC for the oracle (table computed bit by bit here, not taken from the C)
_T = []
for _i in range(256):
    _c = _i
    for _ in range(8):
        _c = (_c >> 1) ^ (0x82F63B78 if _c & 1 else 0)
    _T.append(_c)


def crc_plain(crc, data):
    for b in data:
        crc = _T[(crc ^ b) & 255] ^ (crc >> 8)
    return crc


def crc_iv(crc, data):
    return crc_plain(crc ^ 0xffffffff, data) ^ 0xffffffff


def crc_table_diff(snap):
    """the four tables of the source against the bit-serial closed form (independent of the Coq side)"""
    sys.path.insert(0, os.path.join(VERIF, 'harness', 'gen'))
    import crc as crcgen
    try:
        t = crcgen.parse(open(os.path.join(snap, 'cmdline/util.c'), errors='replace').read())
    except ValueError as e:
        return [{'table': None, 'error': str(e)}]
    diffs = []
    for k in range(4):
        if k not in t:
            diffs.append({'table': k, 'error': 'table CRC32C_%d not found' % k})
            continue
        for i in range(256):
            c = i
            for _ in range(8 * (k + 1)):
                c = (c >> 1) ^ (0x82F63B78 if c & 1 else 0)
            if t[k][i] != c:
                diffs.append({'table': k, 'index': i, 'source_value': t[k][i], 'closed_form': c})
    return diffs


def regen_vectors():
    """coq/Hash/Vectors.v from the vendored text vectors (rewritten only when it changes)"""
    with CoqLock():
        r = run([sys.executable, os.path.join(VERIF, 'harness', 'gen', 'c16_vectors.py'),
                 os.path.join(VEC, 'hash_vectors.txt'), os.path.join(COQ, 'Hash', 'Vectors.v')])
    if r.returncode != 0:
        REGEN_ERRORS.append('c16_vectors.py: ' + r.stdout.strip()[-300:])
    return r.returncode == 0


def dshow(a, b):
    """the two strings around their first difference"""
    k = 0
    while k < min(len(a), len(b)) and a[k] == b[k]:
        k += 1
    lo = max(0, k - 24)
    pre = '...' if lo else ''
    return '"%s%s" vs reference "%s%s" (first difference at column %d)' % (pre, a[lo:k + 40], pre, b[lo:k + 40], k)


def replay_case(path):
    """re-run the case line of a replay file on a driver built from the current tree"""
    rp = json.load(open(path))['replay']
    line = rp.get('case_line')
    if not line:
        print('replay file has no case line (array replays: python3 harness/py/c16_arrays.py replay <binary>)')
        return 2
    snap = snapshot_repo()
    drv = build_driver(snap, 'c16_drv.c', DRV_SRCS, 'c16_drv', libs=['-lblkid'])
    out = run_lines(drv, [line], shards=1, env=dict(os.environ, C16_TMP=mkscratch('c16.')))[0]
    print('case     : %s\nC now    : %s\nreference: %s\nthen     : %s' % (line[:300], out, rp.get('expected'), rp.get('got')))
    return 0 if out == rp.get('expected') else 1


def content_hash_records(data):
    """the hash part of a content file as written by state_write: header, then z x [y] c [C] in this order.
    returns (kind, seed, prevkind or None, prevseed or None)"""
    kinds = {ord('u'): 'murmur3', ord('k'): 'spooky2', ord('m'): 'metro'}
    p = 12
    cur = prev = None
    while p < len(data):
        c = chr(data[p])
        if c in 'zxy':
            r = L.getb(data[p + 1:p + 8], 32)
            p += 1 + r[2]
        elif c in 'cC':
            rec = (kinds[data[p + 1]], bytes(data[p + 2:p + 18]))
            if c == 'c':
                cur = rec
            else:
                prev = rec
            p += 18
        else:
            break
    return cur[0], cur[1], (prev[0] if prev else None), (prev[1] if prev else None)


def array_block_hash_cases():
    """every block hash stored in the vendored content files, with the bytes of its block and its "to rehash" flag:
    (array, file, block index, rehash, model line, C line, stored hash hex, hash size)"""
    import content as CT
    out = []
    for n in A.list_specs():
        man = json.load(open(os.path.join(A.ARR, n + '.json')))
        w = mkscratch('c16h.')
        root = A.unpack(n, w, man)
        data = open(os.path.join(root, 'content', 'snapraid.content'), 'rb').read()
        st = CT.parse(data)
        kind, seed, pk, ps = content_hash_records(data)
        bs, hs = st['blocksize'], st['hashsize']
        for dname, d in st['disks'].items():
            for f in d['files']:
                fb = open(os.path.join(root.encode(), dname.encode(), f['sub']), 'rb').read()
                for k, (state, pos, h) in enumerate(f['blocks']):
                    info = st['info'][pos] if pos < len(st['info']) else None
                    rh = bool(info and info['rehash'])
                    blk = fb[k * bs:(k + 1) * bs]
                    ml = 'blockhash %s %s %s %s %d %d %s' % (kind, seed.hex(), pk or 'none', ps.hex() if ps else '-', 1 if rh else 0, hs, L.hx(blk))
                    sk, ss = (pk, ps) if rh else (kind, seed)
                    cl = 'hash %s %s 0 %s' % (sk, ss.hex(), L.hx(blk))
                    out.append((n, dname + '/' + f['sub'].decode('latin-1'), k, rh, ml, cl, h.hex(), hs))
        shutil.rmtree(w, ignore_errors=True)
    return out


def obligation_name(f):
    """the lemma / theorem enclosing the first error location of a failed obligation, and the Props statement(s) that
    are `exact` of it"""
    where = f.get('where', '')
    m = re.match(r'(.+\.v):(\d+)$', where)
    if not m:
        return where
    path, line = os.path.join(COQ, m.group(1)), int(m.group(2))
    try:
        src = open(path).read().split('\n')
    except OSError:
        return where
    name = None
    for l in src[:line]:
        mm = re.match(r'\s*(?:Theorem|Lemma|Corollary|Example|Definition|Fixpoint)\s+(\w+)', l)
        if mm:
            name = mm.group(1)
    props = []
    if name:
        for pf in glob.glob(os.path.join(COQ, 'Props', 'Properties_C16*.v')):
            cur = None
            for l in open(pf):
                mm = re.match(r'(?:Theorem|Example)\s+(\w+)', l)
                if mm:
                    cur = mm.group(1)
                mm = re.match(r'\s*Proof\.\s*exact\s+(.*?)\.\s*Qed\.', l)
                if mm and cur and name in re.findall(r'\w+', mm.group(1)):
                    props.append(cur)
    return '%s (%s)%s' % (name or '?', where, ' = ' + ', '.join(props) if props else '')


def rbytes(rng, n):
    return bytes(rng.getrandbits(8) for _ in range(n)) if n else b''


def varint_values(rng, width):
    vs = {0, 1, 2, 127, 128, 129, (1 << width) - 1, (1 << width) - 2, 1 << (width - 1)}
    for k in range(1, (width + 6) // 7 + 1):
        for d in (-1, 0, 1):
            v = (1 << (7 * k)) + d
            if 0 <= v < (1 << width):
                vs.add(v)
    for _ in range(24):
        vs.add(rng.getrandbits(rng.randrange(1, width + 1)))
    return sorted(vs)


def main(tier, replay=None):
    if replay:
        return replay_case(replay)
    chk = Check('C16', tier, 'proof + translation validation (hash models and arrays are validated, not proved)')
    rng = chk.rng
    thorough = tier == 'thorough'
    snap = snapshot_repo()
    regen_msgs = regen(snap)
    regen_vectors()
    try:
        drv = build_driver(snap, 'c16_drv.c', DRV_SRCS, 'c16_drv', libs=['-lblkid'])
    except BuildError as e:
        chk.violation('build', 'working tree does not build (unit driver): ' + str(e)[:500], {'error': str(e)[:4000]}, no_input=True)
        return chk.finish()
    tool = [None, None]

    def bt():
        try:
            tool[0] = build_tool(snap)
        except BuildError as e:
            tool[1] = str(e)
    tb = threading.Thread(target=bt)
    tb.start()

    ob = check_obligations('C16')
    proof_coverage(chk, ob, 'make -f Makefile.coq -k Props/Properties_C16.vo (coqc 8.16.1, full .vo) + Print Assumptions',
                   ['Coq 8.16.1 kernel incl. vm_compute', 'harness/gen/crc.py (regex translator of the CRC32C_0..3 initialisers)',
                    'harness/gen/tables.py (regex translator of raid/tables.c -> Gen/Tables.v, for Props/Properties_C16_tables.v)',
                    'harness/gen/c16_vectors.py (text vectors -> Coq data)',
                    'harness/gen/hashc.py (C-subset translator of murmur3.c / spooky2.c / util_rotl32,64 -> Gen/HashProgs.v; control structure token-recognised; '
                    'a size_t operand of a 32-bit ^= is truncated at the use, justified by C16_hashc_w32_lxor)',
                    'harness/gen/crcc.py (CRC loops of util.h/util.c -> Gen/CrcProgs.v) and harness/gen/varintc.py (coders of stream.c -> Gen/VarintProgs.v): '
                    'expressions parsed, loop / goto / return frames token-recognised; a read stream is the list of bytes to come; `return -1` after the EOF test = Eof, elsewhere = Bad', 'extraction (ExtrOcamlBasic only) + ocaml/C16/driver.ml',
                    'harness/c/c16_drv.c', 'harness/py/c16_lib.py + the table-driven CRC in check_C16.py (independent oracles)',
                    'vectors/C16/*.txt and vectors/C16/arrays/* were produced by the pinned tree / binary (commit e695936)',
                    'ASSUMED: crc32b/crc32q (SSE4.2) compute the bit-serial byte step on 1/8 bytes (CrcModel.hw_crc32b/q); validated by the run on this CPU',
                    'hash models (Murmur3.v, Spooky2.v) are hand-written; proved equal, for every seed and byte list, to the functions translated from the '
                    'source on every run (Props/Properties_C16_hashc.v), and validated on vendored digests',
                    'little-endian host (WORDS_BIGENDIAN branches not modelled)'])
    if regen_msgs or REGEN_ERRORS:
        chk.notes.append('translator: ' + '; '.join(list(regen_msgs) + list(REGEN_ERRORS)))
    try:
        model = build_model('Extract/Extract_C16.vo', 'ocaml/C16', 'c16_ext', 'driver.ml', 'model')
    except BuildError as e:
        model = None
        chk.notes.append('extracted model unavailable: ' + str(e)[-300:])
        if not ob['failed']:
            ob['failed'].append({'where': 'Extract/Extract_C16.v', 'error': str(e)[-600:]})
    tmp = mkscratch('c16.')
    env = dict(os.environ, C16_TMP=tmp)
    cpu = run_lines(drv, ['cpu'], shards=1, env=env)[0]
    has_hw = cpu.endswith('=1')
    chk.cov['cpu'] = cpu

    cases = []   # (group, line, expected-by-oracle or None, use_model)

    def add(group, line, exp=None, use_model=True, why=''):
        cases.append((group, line, exp, use_model, why))

    # ---------------- corpus (regression cases found so far) first ----------------
    cdir = os.path.join(VERIF, 'corpus', 'C16')
    for f in sorted(os.listdir(cdir)) if os.path.isdir(cdir) else []:
        if f.endswith('.json'):
            c = json.load(open(os.path.join(cdir, f)))
            add('corpus', c['case_line'], c.get('expected'), use_model=c.get('use_model', True))
    # the wild string length 2^32-1 (accepted by the reference snapshot for every buffer size, fixed by e7500bb)
    for size in (1, 16, 4096, 2 ** 31 - 1):
        add('string_wild', 'getbs %d %d 7f7f7f7f8f4142' % (rng.choice([3, 64, 65536]), size), 'bad')
        add('string_wild', 'getbs %d %d 7f7f7f7fff' % (rng.choice([3, 64, 65536]), size), 'bad')

    # ---------------- parity coefficients ("bit-for-bit stable"): raid/tables.c against the closed forms ----------------
    # The proof side is Props/Properties_C16_tables.v on the regenerated Gen/Tables.v; this is the search for the
    # concrete input when it breaks: the differing entry and the one-byte stripe on which the parity changes.
    try:
        from check_C02 import table_diff as raid_table_diff
        rtd = raid_table_diff(snap)
    except Exception as e:      # an unparsable tables.c is reported by the regeneration / the obligations
        rtd = []
        chk.notes.append('raid/tables.c not compared entry by entry: %s' % str(e)[:200])
    for d in rtd[:20]:
        how = ''
        if d['table'] in ('gfcauchy', 'gfvandermonde') and d.get('index'):
            lvl, disk = d['index']
            how = (': a stripe of %d data disks whose only non-zero byte is 0x01 on disk %d gets parity level %d byte 0x%02x from this tree '
                   'and 0x%02x from the reference version' % (disk + 1, disk, lvl + 1, d['source_value'], d['closed_form']))
        chk.violation('coeff_%s_%s' % (d['table'], '_'.join(map(str, d['index'] or []))),
                      'C16 parity coefficients are not those of the reference version: raid_%s%s = %s, reference (closed form) %s%s'
                      % (d['table'], d['index'], d['source_value'], d['closed_form'], how), d)
    chk.cov['parity_coefficient_entries_compared'] = 65536 + 256 + 256 + 768 + 1536 + 32128 + 8192

    # ---------------- CRC ----------------
    td = crc_table_diff(snap)
    for d in td[:8]:
        if d.get('index') is None:
            chk.violation('crc_table_shape', 'CRC table of cmdline/util.c not recognised: %s' % d.get('error'), d, no_input=True)
    # every table entry is hit directly: a 4-byte message with one non-zero byte goes through CRC32C_3..0 at that byte
    for pos in range(4):
        for v in range(256):
            m = bytearray(4)
            m[pos] = v
            add('crc_basis', 'crc gen_plain 0 0 %s' % L.hx(m), 'ok %d' % crc_plain(0, m), use_model=(v % 16 == 0 or thorough))
    for v in range(256):     # one byte: the tail loop and crc32c_plain_char through CRC32C_0[v]
        add('crc_basis', 'crc gen_plain 0 0 %02x' % v, 'ok %d' % crc_plain(0, bytes([v])), use_model=(v % 16 == 0))
        add('crc_basis', 'crc char 0 0 %02x' % v, 'ok %d' % crc_plain(0, bytes([v])), use_model=(v % 16 == 0))
    crcvec = [l.split() for l in open(os.path.join(VEC, 'crc_vectors.txt')) if l.strip() and not l.startswith('#')]
    for n, c in crcvec:
        n = int(n)
        d = L.vec_data(0, n)
        for var in ('gen', 'x86'):
            add('crc_vendored', 'crc %s 0 %d %s' % (var, n % 16, L.hx(d)), 'ok ' + c, use_model=(var == 'gen' and (n % 8 == 0 or n < 64 or thorough)))
    variants = ['gen', 'gen_plain', 'x86', 'x86_plain', 'plain', 'char', 'charhw']
    for n in range(0, L.VEC_MAXLEN + 1):
        d = rbytes(rng, n)
        init = rng.choice([0, 0xffffffff, rng.getrandbits(32), rng.getrandbits(32)])
        als = [rng.randrange(16)] if not thorough else [rng.randrange(64), n % 16, 0]
        for al in als:
            vs = variants if (thorough or n < 40 or n % 64 in (0, 1, 7, 8, 9, 63)) else [variants[n % 4], variants[(n + 2) % 4]]
            for var in vs:
                exp = crc_iv(init, d) if var in ('gen', 'x86') else crc_plain(init, d)
                add('crc_random', 'crc %s %d %d %s' % (var, init, al, L.hx(d)), 'ok %d' % exp,
                    use_model=(var in ('gen', 'gen_plain', 'x86', 'x86_plain') and (n < 96 or n % 16 == 5 or thorough)))

    # ---------------- hashes ----------------
    hv = L.load_hash_vectors(os.path.join(VEC, 'hash_vectors.txt'))
    model_sids = set(range(8)) if thorough else {4, 5, 6, 7}
    for k, sid, seed, n, dig in hv:
        um = k != 'metro' and ((sid in model_sids) or (n <= 40 and sid == 1))
        add('hash_vendored', 'hashvec %s %s %d %d' % (k, seed, sid, n), 'ok ' + dig, use_model=um)
    hrand = []
    for n in range(0, L.VEC_MAXLEN + 1):
        for rep in range(2 if thorough else 1):
            d = rbytes(rng, n)
            seed = rbytes(rng, 16).hex()
            al = (n + 5 * rep + rng.randrange(2) * 8) % 16 if not thorough else rng.randrange(64)
            for k in ('murmur3', 'spooky2'):
                add('hash_random', 'hash %s %s %d %s' % (k, seed, al, L.hx(d)), None, use_model=True)
                add('hash_align0', 'hash %s %s 0 %s' % (k, seed, L.hx(d)), None, use_model=False)

    # ---------------- packed integers / strings through the real stream API ----------------
    ssizes = [1, 2, 3, 5, 64, 65536]
    for width, put, get in ((32, 'putb32', 'getb32'), (64, 'putb64', 'getb64')):
        for v in varint_values(rng, width):
            enc = L.putb(v)
            ss = rng.choice(ssizes)
            add('varint_put', '%s %d %d %d' % (put, ss, rng.randrange(2), v),
                'ok %s %d %d' % (L.hx(enc), crc_iv(0, enc), crc_iv(0, enc)))
            tail = rbytes(rng, rng.randrange(0, 4))
            add('varint_get', '%s %d %s' % (get, rng.choice(ssizes), L.hx(enc + tail)),
                'ok %d %d %d' % (v, len(enc), crc_iv(0, enc)))
            for cut in range(len(enc)):      # every strict prefix -> eof
                add('varint_trunc', '%s %d %s' % (get, rng.choice(ssizes), L.hx(enc[:cut])), 'eof')
            # non-canonical: zero groups inserted before the final byte
            pad = enc[:-1] + bytes([enc[-1] & 0x7f]) + b'\x00' * rng.randrange(0, 3) + b'\x80'
            r = L.getb(pad, width)
            add('varint_noncanon', '%s %d %s' % (get, rng.choice(ssizes), L.hx(pad)),
                'ok %d %d %d' % (r[1], r[2], crc_iv(0, pad[:r[2]])) if r[0] == 'ok' else r[0])
        nmax = (width + 6) // 7
        for extra in (0, 1, 2):      # over-long: nmax, nmax+1, nmax+2 continuation bytes
            for fill in (0, 0x7f, 1):
                e = bytes([fill]) * (nmax + extra - 1) + bytes([0xff])
                r = L.getb(e, width)
                add('varint_overlong', '%s %d %s' % (get, rng.choice(ssizes), L.hx(e)),
                    'ok %d %d %d' % (r[1], r[2], crc_iv(0, e[:r[2]])) if r[0] == 'ok' else r[0])
                e2 = bytes([fill]) * (nmax + extra)
                add('varint_overlong', '%s %d %s' % (get, rng.choice(ssizes), L.hx(e2)), L.getb(e2, width)[0])
        for _ in range(300 if not thorough else 3000):      # malformed stream: random bytes
            e = rbytes(rng, rng.randrange(0, 13))
            if rng.randrange(3) == 0:
                e = bytes(b & 0x7f for b in e[:-1]) + e[-1:]
            r = L.getb(e, width)
            add('varint_random', '%s %d %s' % (get, rng.choice(ssizes), L.hx(e)),
                'ok %d %d %d' % (r[1], r[2], crc_iv(0, e[:r[2]])) if r[0] == 'ok' else r[0])
    for v in [0, 1, 255, 256, 0x12345678, 0xffffffff, 0x80000000] + [rng.getrandbits(32) for _ in range(8)]:
        enc = v.to_bytes(4, 'little')
        add('le32', 'putble32 %d %d %d' % (rng.choice(ssizes), rng.randrange(2), v), 'ok %s %d %d' % (L.hx(enc), crc_iv(0, enc), crc_iv(0, enc)))
        add('le32', 'getble32 %d %s' % (rng.choice(ssizes), L.hx(enc + b'\x55')), 'ok %d 4 %d' % (v, crc_iv(0, enc)))
        for cut in range(4):
            add('le32', 'getble32 %d %s' % (rng.choice(ssizes), L.hx(enc[:cut])), 'eof')
    for ln in [0, 1, 2, 126, 127, 128, 129, 255, 300, 1000, 4095] + [rng.randrange(0, 600) for _ in range(6)]:
        s = bytes(rng.randrange(1, 256) for _ in range(ln))
        enc = L.putbs(s)
        ss = rng.choice(ssizes)
        add('string_put', 'putbs %d %d %s' % (ss, rng.randrange(2), L.hx(s)), 'ok %s %d %d' % (L.hx(enc), crc_iv(0, enc), crc_iv(0, enc)))
        add('string_get', 'getbs %d %d %s' % (rng.choice(ssizes), ln + 1, L.hx(enc + b'\x01\x02')), 'ok %s %d %d' % (L.hx(s), len(enc), crc_iv(0, enc)))
        add('string_get', 'getbs %d %d %s' % (rng.choice(ssizes), 4096, L.hx(enc)), 'ok %s %d %d' % (L.hx(s), len(enc), crc_iv(0, enc)))
        add('string_toolong', 'getbs %d %d %s' % (rng.choice(ssizes), max(ln, 1) if ln else 0, L.hx(enc)), 'bad' if True else None)
        cuts = sorted(set([0, 1, len(enc) - 1] + [rng.randrange(len(enc)) for _ in range(3)]))
        for cut in cuts:
            if cut < len(enc):
                add('string_trunc', 'getbs %d %d %s' % (rng.choice(ssizes), ln + 1, L.hx(enc[:cut])), 'eof')
    # string data with embedded NUL is legal in the format (the reader copies bytes); C prints up to the NUL, skip the oracle
    # sequences: composition of writers / readers on one stream, buffer boundaries everywhere
    for _ in range(150 if not thorough else 1500):
        ops, ref, rops, vals = [], b'', [], []
        for _k in range(rng.randrange(1, 9)):
            t = rng.randrange(5)
            if t == 0:
                v = rng.choice(varint_values(rng, 32)); ops.append('b32:%d' % v); ref += L.putb(v); rops.append('b32'); vals.append(str(v))
            elif t == 1:
                v = rng.choice(varint_values(rng, 64)); ops.append('b64:%d' % v); ref += L.putb(v); rops.append('b64'); vals.append(str(v))
            elif t == 2:
                v = rng.getrandbits(32); ops.append('le32:%d' % v); ref += v.to_bytes(4, 'little'); rops.append('le32'); vals.append(str(v))
            elif t == 3:
                s = bytes(rng.randrange(1, 256) for _ in range(rng.choice([0, 1, 5, 127, 128, 200])))
                ops.append('bs:%s' % L.hx(s)); ref += L.putbs(s); rops.append('bs%d' % (len(s) + 1 + rng.randrange(3))); vals.append(L.hx(s))
            else:
                v = rng.randrange(256); ops.append('c:%d' % v); ref += bytes([v]); rops.append('c'); vals.append(str(v))
        ss = rng.choice(ssizes)
        add('stream_wseq', 'wseq %d %d %s' % (ss, rng.randrange(2), ','.join(ops)), 'ok %s %d %d' % (L.hx(ref), crc_iv(0, ref), crc_iv(0, ref)))
        add('stream_rseq', 'rseq %d %s %s' % (rng.choice(ssizes), L.hx(ref + rbytes(rng, 2)), ','.join(rops)),
            ';'.join(vals) + '; %d %d' % (len(ref), crc_iv(0, ref)))
        if len(ref) > 1:
            cut = rng.randrange(len(ref))
            add('stream_rseq_trunc', 'rseq %d %s %s' % (rng.choice(ssizes), L.hx(ref[:cut]), ','.join(rops)), None)
    # block size rule
    for bs in (1024, 4096, 262144):
        for size in [0, 1, bs - 1, bs, bs + 1, 3 * bs, 3 * bs + 17, 10 * bs - 1] + [rng.randrange(0, 50 * bs) for _ in range(6)]:
            bm = (size + bs - 1) // bs
            for pos in sorted(set([0, max(bm - 1, 0), max(bm - 2, 0), rng.randrange(0, bm + 1)])):
                if pos < bm:
                    add('block_size', 'bsize %d %d %d %d' % (size, bm, pos, bs), 'ok %d' % min(bs, size - pos * bs))

    # ---------------- run C and the model ----------------
    lines = [c[1] for c in cases]
    couts = run_lines(drv, lines, env=env)
    midx = [i for i, c in enumerate(cases) if c[3]] if model else []
    mouts = dict(zip(midx, run_lines(model, [lines[i] for i in midx]))) if midx else {}

    groups = {}
    nviol = 0
    drift = 0
    skipped = 0
    by_line = {}
    for i, (g, line, exp, um, why) in enumerate(cases):
        co = couts[i]
        st = groups.setdefault(g, {'cases': 0, 'c_vs_oracle_mismatch': 0, 'model_compared': 0, 'model_mismatch': 0, 'skipped': 0})
        st['cases'] += 1
        by_line[line] = co
        if co == 'skip':
            st['skipped'] += 1
            skipped += 1
            continue
        cbad = exp is not None and co != exp
        if cbad and (g == 'string_wild' or (g == 'corpus' and '7f7f7f7f8f' in line)):
            # the input is not something the reference version writes, so C16's property is not falsified by it; but
            # the model (sgetbs_len_ok, theorem C16_sgetbs_in_bounds) no longer describes the code
            st['c_vs_oracle_mismatch'] += 1
            drift += 1
            if drift <= 3:
                chk.violation('drift_%s_%d' % (g, i), 'MODEL-DRIFT: sgetbs no longer rejects the string length 2^32-1 (%s -> "%s", model and format rule say "bad"): '
                              'the stream model of C16 is stale; memory safety of the loader is C09\'s property' % (line[:60], co[:40]),
                              {'case_line': line, 'c': co, 'oracle': exp, 'model': mouts.get(i)}, no_input=True)
            continue
        if cbad:
            st['c_vs_oracle_mismatch'] += 1
            if nviol < 12:
                nviol += 1
                chk.violation('%s_%d' % (g, i), 'C16 %s: the working tree disagrees with the reference on a concrete input (%s): got %s'
                              % (g, line[:60], dshow(co, exp)), {'driver': 'harness/c/c16_drv.c', 'case_line': line, 'got': co, 'expected': exp,
                                                         'reference': 'vendored vector' if 'vendored' in g else 'independent python oracle'})
        if i in mouts:
            st['model_compared'] += 1
            mo = mouts[i]
            if mo != co:
                st['model_mismatch'] += 1
                if cbad:
                    continue      # already reported with its input
                if exp is None and g in ('hash_random', 'stream_rseq_trunc'):
                    # no python oracle for this input: the model (validated on the vendored vectors) is the reference
                    if nviol < 12:
                        nviol += 1
                        chk.violation('%s_%d' % (g, i), 'C16 %s: the working tree disagrees with the reference model (validated against the vendored vectors) on a concrete input (%s): C %s'
                                      % (g, line[:60], dshow(co, mo)), {'driver': 'harness/c/c16_drv.c', 'case_line': line, 'got': co, 'expected': mo, 'reference': 'extracted Gallina model'})
                else:
                    drift += 1
                    if drift <= 5:
                        chk.violation('drift_%s_%d' % (g, i), 'MODEL-DRIFT: extracted model disagrees with the C on %s although the C matches the reference: model "%s", C "%s"'
                                      % (g, mo[:80], co[:80]), {'case_line': line, 'model': mo, 'c': co, 'oracle': exp}, no_input=True)
    # alignment independence of the hashes (same bytes, different address)
    al_bad = 0
    for g, line, exp, um, why in cases:
        if g == 'hash_random':
            t = line.split()
            l0 = 'hash %s %s 0 %s' % (t[1], t[2], t[4])
            if by_line.get(l0) != by_line.get(line):
                al_bad += 1
                if al_bad <= 3:
                    chk.violation('hash_align', 'memhash %s gives different digests for the same bytes at alignment %s and 0' % (t[1], t[3]),
                                  {'case_line': line, 'got': by_line.get(line), 'at_alignment_0': by_line.get(l0)})
    # ---------------- every block hash stored in the vendored content files ----------------
    # reference = what the pinned binary recorded; model = extracted HashSelect.block_hash (kind/seed selected by the
    # block's "to rehash" flag); C = memhash of the working tree with the pair the rule selects
    try:
        bh = array_block_hash_cases()
    except Exception as e:     # noqa
        bh = []
        chk.violation('array_hashes', 'cannot decode the vendored content files: %r' % e, {'error': repr(e)}, no_input=True)
    bh_m = run_lines(model, [x[4] for x in bh]) if (model and bh) else []
    bh_c = run_lines(drv, [x[5] for x in bh], env=env) if bh else []
    bst = {'blocks': len(bh), 'flagged_to_rehash': sum(1 for x in bh if x[3]), 'model_mismatch': 0, 'c_mismatch': 0}
    for k, x in enumerate(bh):
        exp = 'ok ' + x[6]
        if bh_c and bh_c[k][:3 + 2 * x[7]] != exp:
            bst['c_mismatch'] += 1
            if bst['c_mismatch'] <= 3:
                chk.violation('array_hash_c_%d' % k, 'block %d of %s in reference array %s: memhash of the working tree gives %s, the reference version stored %s (to-rehash flag %s)'
                              % (x[2], x[1][:40], x[0], bh_c[k][:3 + 2 * x[7]], exp, x[3]), {'case_line': x[5], 'got': bh_c[k], 'expected_prefix': exp, 'array': x[0], 'file': x[1], 'block': x[2]})
        if bh_m and bh_m[k] != exp:
            bst['model_mismatch'] += 1
            if bst['model_mismatch'] <= 3 and not (bh_c and bh_c[k][:3 + 2 * x[7]] != exp):
                chk.violation('array_hash_model_%d' % k, 'MODEL-DRIFT: block %d of %s in reference array %s: HashSelect.block_hash gives %s, the reference version stored %s (to-rehash flag %s)'
                              % (x[2], x[1][:40], x[0], bh_m[k], exp, x[3]), {'case_line': x[4], 'model': bh_m[k], 'stored': exp}, no_input=True)
    chk.cov['stored_block_hashes'] = bst

    # ---------------- vendored arrays with the binary of the working tree ----------------
    tb.join()
    arr_cov = {}
    if tool[0] is None:
        chk.violation('build_tool', 'working tree does not build (snapraid binary): ' + (tool[1] or '')[:500], {'error': (tool[1] or '')[:4000]}, no_input=True)
    else:
        names = A.list_specs()
        res = {}

        def one(n):
            w = mkscratch('c16arr.')
            try:
                res[n] = A.replay(tool[0], n, w, thorough=thorough)
            except Exception as e:      # noqa
                res[n] = ([{'array': n, 'step': 'harness', 'error': repr(e)}], 0, {})
        ths = [threading.Thread(target=one, args=(n,)) for n in names]
        for t in ths:
            t.start()
        for t in ths:
            t.join()
        ncmd = 0
        for n in names:
            fails, nc, det = res[n]
            ncmd += nc
            arr_cov[n] = {'commands': nc, 'erasure_sets': len(det.get('erasure_sets', [])), 'split_loss_scenarios': det.get('split_scenarios', 0), 'failures': len(fails)}
            for f in fails[:3]:
                chk.violation('array_%s' % n, 'vendored reference array %s (written by the pinned binary) is no longer handled: step "%s" %s'
                              % (n, f.get('step'), json.dumps({k: v for k, v in f.items() if k not in ('array', 'step', 'output_tail')})[:300]),
                              {'array_tar': 'vectors/C16/arrays/%s.tar' % n, 'manifest': 'vectors/C16/arrays/%s.json' % n, 'failure': f,
                               'how': 'python3 harness/py/c16_arrays.py replay <snapraid binary>'})
        chk.cov['arrays'] = arr_cov
        chk.cov['array_commands_run'] = ncmd

    # ---------------- coverage ----------------
    ev = sum(g['cases'] - g['skipped'] for g in groups.values())
    chk.cov.update({'evaluations': ev + chk.cov.get('array_commands_run', 0),
                    'distinct_nontrivial': len(set(lines)) - skipped,
                    'rule': 'one evaluation = one call of the real function through c16_drv (or one snapraid command on a vendored array); '
                            'non-trivial = distinct case lines actually executed (skip = SSE4.2 variant on a CPU without it)',
                    'groups': groups, 'model_vs_c_cases': len(midx), 'model_drift': drift,
                    'traces_validated_against_impl': len(midx),
                    'crc_table_entries_compared': 1024, 'crc_table_diffs': len([d for d in td if d.get('index') is not None]),
                    'hash_vendored_vectors': len(hv), 'hash_lengths': '0..%d, every tail length, 16 alignments' % L.VEC_MAXLEN})
    for d in [d for d in td if d.get('index') is not None][:6]:
        # a wrong table entry that the basis inputs did not expose on this CPU path is still a concrete failing input:
        # the 4-byte message that indexes it
        m = bytearray(4)
        m[3 - d['table']] = d['index']
        line = 'crc gen_plain 0 0 %s' % L.hx(m)
        chk.violation('crc_table_%d_%d' % (d['table'], d['index']),
                      'CRC32C_%d[%d] = %#x differs from the CRC-32C definition %#x; crc32c_gen_plain(0, %s) = %s, reference ok %d'
                      % (d['table'], d['index'], d['source_value'], d['closed_form'], L.hx(m), by_line.get(line), crc_plain(0, m)),
                      {'case_line': line, 'got': by_line.get(line), 'expected': 'ok %d' % crc_plain(0, m), 'table_entry': d})
    chk.cov['samples'] = [{'group': cases[i][0], 'line': cases[i][1][:120], 'c': couts[i][:80]} for i in
                          sorted(set([0, 1100, len(cases) // 3, len(cases) // 2, (2 * len(cases)) // 3, len(cases) - 1]))]

    # ---------------- broken obligations ----------------
    if ob['failed']:
        names = [obligation_name(f) for f in ob['failed']]
        chk.cov['failed_obligations'] = names
        # with a concrete failing input already reported the obligation is named in an extra line; without one the
        # property is no longer shown and the search has found nothing
        chk.violation('obligation', 'proof obligation of C16 no longer checks: %s -- %s' % ('; '.join(names),
                      ' | '.join('%s: %s' % (f.get('where'), str(f.get('error'))[:200]) for f in sorted(ob['failed'], key=lambda f: f.get('where') != 'translator'))[:500]),
                      {'theorem_files': sorted(os.path.relpath(x, VERIF) for x in glob.glob(os.path.join(COQ, 'Props', 'Properties_C16*.v'))), 'failed': ob['failed'], 'named': names,
                       'log_tail': ob['log'][-1500:],
                       'search': 'differential run: %d violations with a concrete input (%d evaluations)' % (len(chk.violations), ev)},
                      no_input=not chk.violations)
    chk.assumptions += ['hash models are validated on vendored digests (finite theorem: 4 seeds x lengths 0..260; run: 0..1100 x 8 seeds + random), not proved',
                        'crc32b/crc32q semantics assumed (Intel SDM); exercised on this CPU: %s' % cpu,
                        'the vendored vectors and arrays were written by the pinned tree; a defect already present there is not visible to this check',
                        'big-endian hosts are outside the model']
    return chk.finish()
