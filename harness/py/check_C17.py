"""C17 -- parity split over several files behaves as one parity.

 1. snapshot + build: unit driver (harness/c/c17_drv.c compiles the working tree's cmdline/parity.c into itself and
    links every other object of the tool except snapraid.c) and the real `snapraid` binary
 2. obligations of coq/Props/Properties_C17.v
 3. unit correspondence  extracted model  vs  C  on generated cases (find / hbit / limit / chsize / ops histories),
    each C result also judged by an independent property oracle written here (prefix reconstruction, flat file)
 4. command level: twin arrays (single parity file per level vs 2..4 splits per level with --test-parity-limit)
    driven through growth / shrink / regrowth / dropped trailing split / fix; concatenation of the splits == twin's
    parity, recorded sizes and split:delta/grow log tags == the model's prediction
 5. failing-input search (larger budget of the same generators) when an obligation broke or model and C disagree
"""
import os, sys, json, time, re, shutil
from common import *

BASE = ['--test-skip-device', '--test-skip-self', '--no-warnings', '--test-force-order-alpha']
BS = 1024


# ------------------------------------------------------------------------------------------------
# independent oracles (no model involved)

def py_parity_limit(limit, s, level):
    if limit == 0:
        return 0
    return limit + ((123562341 + s * 634542351 + level * 983491341) & 0xffffffff) % limit


def oracle_find(sizes, off, out):
    """property of the address map on one C answer; returns None or a description of the violation"""
    try:
        idx, o = map(int, out.split())
    except ValueError:
        return 'unparsable answer %r' % out
    total = sum(sizes)
    if off < 0:
        return None if (idx == -1 and o == off) else 'negative offset not refused untouched'
    if off >= total:
        return None if (idx == -1 and o == off - total) else 'offset %d beyond the end %d mapped to (%d,%d)' % (off, total, idx, o)
    if idx < 0 or idx >= len(sizes):
        return 'offset %d inside the parity (size %d) not mapped: (%d,%d)' % (off, total, idx, o)
    if not (0 <= o < sizes[idx]):
        return 'offset %d mapped to split %d offset %d outside its size %d' % (off, idx, o, sizes[idx])
    if sum(sizes[:idx]) + o != off:
        return 'offset %d mapped to (%d,%d): not the position after the previous splits (%d)' % (off, idx, o, sum(sizes[:idx]) + o)
    return None


def parse_chsize_out(out):
    m = re.match(r'^(ok|err)\s*(.*?)\s*t=(\S*)$', out)
    if not m:
        return None
    kind, body, tr = m.groups()
    trace = [] if tr in ('-', '') else [tuple(map(int, x.split(':'))) for x in tr.split(',')]
    if kind == 'ok':
        toks = body.split()
        if any('!' in t for t in toks):
            return {'kind': 'ok', 'bad': 'handle and parity sizes differ: ' + body, 'trace': trace}
        return {'kind': 'ok', 'mod': int(toks[0]), 'splits': [tuple(map(int, t.split(':'))) for t in toks[1:]], 'trace': trace}
    return {'kind': 'err', 'what': body, 'trace': trace}


def is_packed(sizes):
    seen_zero = False
    for x in sizes:
        if x == 0:
            seen_zero = True
        elif seen_zero:
            return False
    return True


def oracle_chsize(bs, splits, size, res):
    """splits: list of (sz, st, limit).  Properties of a successful parity_chsize, from the C answer alone.
    Returns (violation or None, False)"""
    if res is None:
        return 'unparsable answer', False
    if 'bad' in res:
        return res['bad'], False
    if res['kind'] != 'ok':
        if res['what'].startswith('abort') and size % bs == 0:
            return 'os_abort() on a block-aligned request (size %d, block %d)' % (size, bs), False
        return None, False
    new = res['splits']
    if len(new) != len(splits):
        return 'number of splits changed', False
    if sum(r for r, _, _ in new) != size:
        return 'recorded sizes sum to %d, requested %d' % (sum(r for r, _, _ in new), size), False
    for i, ((r, stn, v), (sz, st, lim)) in enumerate(zip(new, splits)):
        if r != stn:
            return 'split %d recorded %d but file has %d bytes' % (i, r, stn), False
        if r % bs:
            return 'split %d size %d not block aligned' % (i, r), False
        if v > st or v > stn:
            return 'split %d valid_size %d enlarged (was %d, file %d)' % (i, v, st, stn), False
        if lim and stn > st and stn > lim:
            return 'split %d grown to %d beyond its limit %d' % (i, stn, lim), False
        if i + 1 < len(splits) and splits[i + 1][0] != 0 and r > sz:
            return 'split %d grew from %d to %d although split %d is in use' % (i, sz, r, i + 1), False
    mod = any(r != sz for (r, _, _), (sz, _, _) in zip(new, splits))
    if mod != bool(res['mod']):
        return 'is_modified=%d but sizes %s' % (res['mod'], 'changed' if mod else 'did not change'), False
    # "only the last used split grows": a split with a used split anywhere after it never grows
    for i in range(len(splits)):
        if any(splits[j][0] != 0 for j in range(i + 1, len(splits))) and new[i][0] > splits[i][0]:
            return 'split %d grew from %d to %d although a later split is in use (recorded sizes %s)' % (i, splits[i][0], new[i][0], [x[0] for x in splits]), False
    return None, False


def flat_history(bs, toks):
    """flat-file specification of an ops history given the C tokens (which writes/resizes succeeded).
    toks: list of (op, ctoken).  Returns (flat bytes, violation)"""
    flat = bytearray()
    limits_changed = False      # since the last successful resize (which recorded sizes reachable under the limits of that time)
    for op, ct in toks:
        if op[0] == 'L':
            limits_changed = True
        if op[0] == 'R' and ct.startswith('r0'):
            if ct.endswith('~') and limits_changed:
                # outside the hypothesis of the refinement theorems (C17_split_concat needs `wf`: every split file has its
                # recorded size at each resize; parity_truncate / damage break it).  With unchanged limits the resize
                # restores the recorded sizes and the flat file is still the specification; with changed limits the splits
                # may be laid out anew and what the cut files no longer held is gone: not judged from here on.
                return None, None
            limits_changed = False
            size = int(op[1:])
            if size <= len(flat):
                del flat[size:]
            else:
                flat.extend(bytes(size - len(flat)))
        elif op[0] == 'W':
            pos, seed = map(int, op[1:].split(':'))
            inside = (pos + 1) * bs <= len(flat)
            if (ct == 'w0') != inside:
                return flat, 'write at position %d %s although the parity has %d bytes' % (pos, 'accepted' if ct == 'w0' else 'refused', len(flat))
            if inside:
                flat[pos * bs:(pos + 1) * bs] = bytes((seed + j) & 255 for j in range(bs))
        elif op[0] == 'D':
            pos = int(op[1:])
            if ct != 'd-1':
                got = bytes.fromhex(ct[1:])
                if (pos + 1) * bs > len(flat):
                    return flat, 'read at position %d beyond the parity size returned data' % pos
                if got != bytes(flat[pos * bs:(pos + 1) * bs]):
                    return flat, 'read at position %d returned %s, last written/allocated there: %s' % (pos, got.hex(), bytes(flat[pos * bs:(pos + 1) * bs]).hex())
    return flat, None


OUTSIDE_HYP = [0]


def oracle_ops(bs, line, out):
    ops = line.split()[4 + int(line.split()[3]):]
    if '|' not in out:
        return 'unparsable answer'
    left, right = out.split('|', 1)
    ctoks = left.split()
    pairs = list(zip(ops, ctoks))
    if any(c in ('r-1', 'r-2') for c in ctoks):
        # the tool exits at a failed resize: only the prefix is judged
        pairs = pairs[:-1]
        flat, v = flat_history(bs, pairs)
        return v
    flat, v = flat_history(bs, pairs)
    if v:
        return v
    if flat is None:
        OUTSIDE_HYP[0] += 1
        return None
    view = bytearray()
    for t in right.split():
        rec, hx = t.split(':')
        rec = int(rec)
        data = b'' if hx == '-' else bytes.fromhex(hx)
        view += (data + bytes(max(0, rec - len(data))))[:rec]
    if bytes(view) != bytes(flat):
        return 'concatenation of the splits (cut to the recorded sizes) differs from the one-file parity: %s vs %s' % (bytes(view).hex(), bytes(flat).hex())
    return None


# ------------------------------------------------------------------------------------------------
# generators

def gen_sizes(rng, n, bs, kind):
    if kind == 'aligned':
        return [rng.choice([0, 1, 1, 2, 3, 5]) * bs for _ in range(n)]
    if kind == 'packed':
        k = rng.randrange(n + 1)
        return [rng.randrange(1, 6) * bs for _ in range(k)] + [0] * (n - k)
    if kind == 'huge':
        return [rng.choice([0, 1 << 40, (1 << 52) + 4096, rng.randrange(1 << 58)]) for _ in range(n)]
    return [rng.choice([0, 1, bs - 1, bs, bs + 1, rng.randrange(1, 8 * bs)]) for _ in range(n)]


def gen_find_cases(rng, count):
    cases = []
    for _ in range(count):
        n = rng.choice([0, 1, 1, 2, 3, 4, 4, 5, 8])
        bs = rng.choice([4, 256, 1024, 4096])
        sizes = gen_sizes(rng, n, bs, rng.choice(['aligned', 'packed', 'any', 'any', 'huge']))
        total = sum(sizes)
        pre = [sum(sizes[:i]) for i in range(n + 1)]
        offs = set([0, total, total + 1, total - 1, -1, total + rng.randrange(1, 10 ** 6)])
        for p in pre:
            offs.update([p - 1, p, p + 1, p + bs - 1, p + bs])
        offs.add(rng.randrange(-(1 << 40), -1))
        if total:
            offs.update(rng.randrange(total) for _ in range(3))
            offs.update((rng.randrange(total) // bs) * bs for _ in range(2))
        for off in sorted(offs):
            if -(1 << 61) < off < (1 << 61):
                cases.append((sizes, off))
    return cases


def gen_chsize_cases(rng, count):
    cases = []
    for _ in range(count):
        bs = rng.choice([4, 64, 512, 1024, 1024, 4096])
        n = rng.choice([1, 2, 2, 3, 3, 4, 4, 5, 8])
        profile = rng.choice(['fresh', 'packed', 'packed', 'packed', 'holes', 'damaged', 'unaligned_size'])
        if profile == 'fresh':
            recs = [0] * n
        elif profile in ('packed', 'unaligned_size', 'damaged'):
            recs = gen_sizes(rng, n, bs, 'packed')
        else:
            recs = gen_sizes(rng, n, bs, 'aligned')
        splits = []
        for r in recs:
            stv = r
            if profile == 'damaged' and rng.random() < 0.4:
                stv = rng.choice([0, max(0, r - bs), r + bs, max(0, r - 1), r + 1, rng.randrange(0, r + 2 * bs)])
            lk = rng.random()
            if lk < 0.25:
                lim = 0
            elif lk < 0.45:
                lim = rng.randrange(1, 8) * bs                         # aligned limit
            elif lk < 0.9:
                lim = max(1, r + rng.randrange(-bs, 6 * bs))           # around the current size, not aligned
            else:
                lim = rng.randrange(1, bs)                             # cannot hold one block
            splits.append((r, stv, lim))
        cur = sum(recs)
        sk = rng.random()
        if sk < 0.15:
            size = 0
        elif sk < 0.45:
            size = max(0, cur // bs + rng.randrange(-3, 1)) * bs      # shrink across boundaries
        elif sk < 0.55:
            size = cur
        else:
            size = (cur // bs + rng.randrange(1, 12)) * bs           # growth
        if profile == 'unaligned_size':
            size += rng.randrange(1, bs)
        cases.append((bs, rng.choice([0, 1]), splits, size))
    return cases


def chsize_line(case):
    bs, skipf, splits, size = case
    return 'chsize %d %d %d %s %d' % (bs, skipf, len(splits), ' '.join('%d %d %d' % s for s in splits), size)


def gen_ops_cases(rng, count):
    cases = []
    for _ in range(count):
        bs = rng.choice([4, 8, 16])
        n = rng.choice([1, 2, 2, 3, 3, 4, 4, 6, 8])
        prof = rng.random()
        limits = []
        for s in range(n):
            if s == n - 1 and rng.random() < 0.7:
                limits.append(0)
            elif prof < 0.15 and rng.random() < 0.4:
                limits.append(rng.randrange(1, bs))                   # a split that cannot hold a block
            else:
                limits.append(rng.randrange(bs, 7 * bs))
        ops = []
        size = 0
        for sess in range(rng.randrange(2, 6)):
            if sess:
                if rng.random() < 0.3:      # disk space freed / used up between two commands
                    sp = rng.randrange(n)
                    ops.append('L%d:%d' % (sp, rng.choice([0, rng.randrange(1, bs), rng.randrange(bs, 9 * bs)])))
                ops.append('O')
            r = rng.random()
            if r < 0.55:
                size = size + rng.randrange(1, 8) * bs
            elif r < 0.85:
                size = max(0, size - rng.randrange(1, 8) * bs)
            if r < 0.9:
                ops.append('R%d' % size)
            nb = size // bs
            for _ in range(rng.randrange(0, 7)):
                pos = rng.randrange(0, nb + 2)
                if rng.random() < 0.65:
                    ops.append('W%d:%d' % (pos, rng.randrange(1, 256)))
                else:
                    ops.append('D%d' % pos)
            if rng.random() < 0.2:
                ops.append('T')
        cases.append('ops %d %d %d %s %s' % (bs, rng.choice([0, 1]), n, ' '.join(map(str, limits)), ' '.join(ops)))
    return cases


# ------------------------------------------------------------------------------------------------
# command level

class Array:
    def __init__(self, tool, root, name, levels, datadirs, limit, opts=()):
        self.tool, self.root, self.name, self.levels, self.limit = tool, root, name, levels, limit
        self.opts = list(opts)
        self.dir = os.path.join(root, name)
        os.makedirs(self.dir)
        self.datadirs = datadirs
        self.write_conf()

    def write_conf(self):
        with open(os.path.join(self.dir, 'conf'), 'w') as f:
            f.write('blocksize 1\n')
            for l, paths in enumerate(self.levels):
                f.write(('parity' if l == 0 else '%d-parity' % (l + 1)) + ' ' + ','.join(paths) + '\n')
            f.write('content %s\n' % os.path.join(self.dir, 'content'))
            for i, d in enumerate(self.datadirs):
                f.write('data d%d %s/\n' % (i + 1, d))

    def run(self, cmd):
        log = os.path.join(self.dir, 'log')
        if os.path.exists(log):
            os.remove(log)
        extra = ['--test-parity-limit=%d' % self.limit] if self.limit else []
        r = run([self.tool] + BASE + self.opts + extra + ['-c', os.path.join(self.dir, 'conf'), '-l', log] + cmd, timeout=120)
        try:
            lg = open(log, errors='replace').read()
        except FileNotFoundError:
            lg = ''
        return r.returncode, r.stdout, lg

    def file_sizes(self):
        return [[os.path.getsize(p) if os.path.exists(p) else 0 for p in paths] for paths in self.levels]


def log_recorded(lg, levels):
    """recorded split sizes as read from the content file: content:<lev>:<s>:<path>:<uuid>:<size> tags"""
    rec = {}
    for l in lg.splitlines():
        if l.startswith('content:') and l.count(':') >= 5:
            f = l.split(':')
            try:
                rec[f[3]] = int(f[-1])
            except ValueError:
                pass
    return [[rec.get(p) for p in paths] for paths in levels]


def log_trace(lg, paths):
    """grow attempts of one level, in order: (target, ok)"""
    tr = []
    lines = lg.splitlines()
    for i, l in enumerate(lines):
        if l.startswith('split:delta:'):
            f = l.rstrip(':').split(':')
            if f[2] not in paths:
                continue
            target = int(f[3]) + int(f[4])
            ok = 0
            if i + 1 < len(lines) and lines[i + 1].startswith('split:grow:') and lines[i + 1].endswith(': ok'):
                ok = 1
            tr.append((target, ok))
    return tr


def run_scenario(chk, tool, model, rng, root, idx, stats):
    """returns list of step records; reports violations through chk"""
    sroot = os.path.join(root, 's%d' % idx)
    nd = 3
    datadirs = [os.path.join(sroot, 'data', 'd%d' % (i + 1)) for i in range(nd)]
    for d in datadirs:
        os.makedirs(d)
    nlev = rng.choice([1, 2, 2, 3])
    nsplit = [rng.choice([1, 2, 2, 3, 3, 4, 4, 5, 8]) for _ in range(nlev)]
    if max(nsplit) == 1:
        nsplit[rng.randrange(nlev)] = rng.choice([2, 3])
    fam = {'skip_fallocate': rng.random() < 0.5, 'add_split': rng.random() < 0.6, 'damage': rng.random() < 0.8}
    # the first scenarios of every run reach every family whatever the seed
    force = {1: {'add': 'prealloc_misaligned'}, 2: {'add': 'prealloc_data', 'damage': 'cut_unaligned'}, 3: {'add': 'absent', 'damage': 'delete'},
             4: {'damage': 'extend'}, 5: {'add': 'prealloc_zero', 'damage': 'cut_aligned'}, 6: {'damage': 'empty'}, 7: {'damage': 'cut_zero_tail'}, 8: {'damage': 'cut_zero_tail'}}.get(idx, {})
    if 'add' in force:
        fam['add_split'] = True
    if 'damage' in force:
        fam['damage'] = True
    # file plan: phase 1 and phase 2 files per disk
    plan = []
    for ph in range(3):
        plan.append([[rng.choice([0, 1, 700, 1024, 1025, rng.randrange(1, 6000), rng.randrange(1, 6000)]) for _ in range(rng.randrange(2, 5))] for _ in range(nd)])
    blocks = lambda szs: sum((s + BS - 1) // BS for s in szs)
    pmax = max(blocks(plan[0][d]) + blocks(plan[1][d]) + blocks(plan[2][d]) for d in range(nd)) * BS
    nmin = min(nsplit)
    too_small = (idx == 0) or rng.random() < 0.08
    if too_small:
        limit = max(600, pmax // (4 * max(nsplit)))          # the splits cannot hold the parity at some step
    else:
        # tight: (about) the smallest limit whose per-level capacities sum_s floor(limit_s/BS)*BS hold the largest
        # parity of the plan, so that most steps cross split boundaries; limits are not block aligned
        cap = lambda L, l: sum(py_parity_limit(L, s, l) // BS * BS for s in range(nsplit[l]))
        limit = max(BS // 2 + 1, pmax // (2 * max(nsplit)))
        while any(cap(limit, l) < pmax for l in range(nlev)):
            limit += rng.randrange(1, BS)
        if rng.random() < 0.3:
            limit += rng.randrange(0, pmax // 2 + 1)
            while any(cap(limit, l) < pmax for l in range(nlev)):
                limit += rng.randrange(1, BS)
    A = Array(tool, sroot, 'A', [[os.path.join(sroot, 'A', 'L%d.parity' % l)] for l in range(nlev)], datadirs, 0)
    B = Array(tool, sroot, 'B', [[os.path.join(sroot, 'B', 'L%d.s%d.parity' % (l, s)) for s in range(nsplit[l])] for l in range(nlev)], datadirs, limit,
              ['--test-skip-fallocate'] if fam['skip_fallocate'] else [])
    desc = {'scenario': idx, 'levels': nlev, 'splits_per_level': list(nsplit), 'test_parity_limit': limit, 'plan_bytes': plan, 'seed': chk.seed, 'families': fam}
    if fam['skip_fallocate']:
        stats['skip_fallocate_scenarios'] += 1
    recorded = [[0] * n for n in nsplit]            # what the content file of B holds (0 before the first sync)
    counter = [0]

    def add_files(ph):
        for d in range(nd):
            for sz in plan[ph][d]:
                p = os.path.join(datadirs[d], 'f%02d_%d' % (counter[0], ph))
                counter[0] += 1
                with open(p, 'wb') as f:
                    f.write(bytes(rng.getrandbits(8) for _ in range(sz)))

    def delete_top():
        for d in datadirs:
            names = sorted(os.listdir(d))
            for nme in names[len(names) // 2:]:
                os.remove(os.path.join(d, nme))

    def viol(tag, what, extra=None, drift=False, finding_key=None):
        r = dict(desc)
        r['step'] = tag
        if extra:
            r.update(extra)
        chk.violation('cmd_s%d_%s' % (idx, tag), ('MODEL-DRIFT: ' if drift else '') + 'scenario %d step %s: %s' % (idx, tag, what), r, no_input=drift,
                      finding_key=finding_key)

    def sync_and_verify(tag):
        nonlocal recorded
        before = B.file_sizes()
        rcA, outA, lgA = A.run(['sync'])
        rcB, outB, lgB = B.run(['sync'])
        stats['commands'] += 2
        short = any(before[l][i] < recorded[l][i] for l in range(nlev) for i in range(nsplit[l]))
        if rcB != 0 and short and 'smaller than expected' in outB:
            # a split file is shorter than recorded (left so by fix): the sync interlock on the bytes really present (C14, /repo
            # 03a455c) refuses a plain sync; that is correct, the healing step is sync --force-full (on the twin too)
            stats['sync_refused_by_size_interlock'] += 1
            if B.file_sizes() != before:
                viol(tag, 'the refused sync changed the split files: %s -> %s' % (before, B.file_sizes()))
                return False
            rcA, outA, lgA = A.run(['-F', 'sync'])
            rcB, outB, lgB = B.run(['-F', 'sync'])
            stats['commands'] += 2
        if rcA != 0:
            viol(tag, 'sync of the single-file twin failed rc=%d: %s' % (rcA, outA[-300:]))
            return False
        psize = [os.path.getsize(p[0]) for p in A.levels]
        # model prediction per level
        lines = []
        for l in range(nlev):
            spl = [(recorded[l][s], before[l][s], py_parity_limit(limit, s, l)) for s in range(nsplit[l])]
            lines.append(chsize_line((BS, 0, spl, psize[l])))
        pred = [parse_chsize_out(o) for o in run_lines(model, lines, shards=1)]
        expect_fail = any(p['kind'] == 'err' for p in pred)
        stats['steps'] += 1
        if expect_fail:
            stats['expected_failures'] += 1
            if rcB == 0:
                viol(tag, 'model predicts that the splits cannot hold %s bytes (%s) but sync succeeded' % (psize, [p.get('what') for p in pred]), {'model_lines': lines}, drift=True)
            return False
        if rcB != 0:
            # independent judgement: from a fresh array under constant limits every split before the last used one is
            # full, so the resize must succeed iff sum_s floor(limit_s/bs)*bs >= parity size; a crash is never acceptable
            fits = all(sum(py_parity_limit(limit, s, l) // BS * BS for s in range(nsplit[l])) >= psize[l] for l in range(nlev))
            if fits or rcB < 0:
                viol(tag, 'sync of the split array %s (rc=%d) although the single-file twin succeeded and the splits can hold the parity (%s bytes, limit %d): %s' %
                     ('crashed' if rcB < 0 else 'failed', rcB, psize, limit, outB[-300:]), {'model_lines': lines})
            else:
                viol(tag, 'sync of the split array failed rc=%d although the model predicts success: %s' % (rcB, outB[-300:]), {'model_lines': lines}, drift=True)
            return False
        after = B.file_sizes()
        rcC, outC, lgC = B.run(['check'])
        rcCA, outCA, _ = A.run(['check'])
        stats['commands'] += 2
        rec_now = log_recorded(lgC, B.levels)
        ok = True
        for l in range(nlev):
            want = [s[0] for s in pred[l]['splits']]
            # independent: concatenation of the splits (cut to recorded) == the twin's parity
            cat = b''
            for s, p in enumerate(B.levels[l]):
                data = open(p, 'rb').read() if os.path.exists(p) else b''
                r = rec_now[l][s] if rec_now[l][s] is not None else len(data)
                cat += (data + bytes(max(0, r - len(data))))[:r]
            single = open(A.levels[l][0], 'rb').read()
            if cat != single:
                k = next((i for i in range(min(len(cat), len(single))) if cat[i] != single[i]), min(len(cat), len(single)))
                viol(tag, 'level %d: concatenation of the splits (sizes %s) differs from the single-file parity (size %d) at byte %d' % (l, rec_now[l], len(single), k),
                     {'recorded': rec_now, 'files': after})
                ok = False
            if sum(x or 0 for x in rec_now[l]) != psize[l]:
                viol(tag, 'level %d: recorded split sizes %s do not sum to the parity size %d' % (l, rec_now[l], psize[l]))
                ok = False
            if any((x or 0) % BS for x in rec_now[l]):
                viol(tag, 'level %d: recorded split size not block aligned: %s' % (l, rec_now[l]))
                ok = False
            if rec_now[l] != want or after[l] != want:
                viol(tag, 'level %d: model predicts split sizes %s, content file has %s, files have %s' % (l, want, rec_now[l], after[l]), {'model_line': lines[l]}, drift=True)
                ok = False
            tr = log_trace(lgB, B.levels[l])
            if tr != pred[l]['trace']:
                viol(tag, 'level %d: model predicts grow attempts %s, split:delta/grow tags say %s' % (l, pred[l]['trace'], tr), {'model_line': lines[l]}, drift=True)
                ok = False
            if any(t[1] == 0 for t in tr):
                stats['limit_hit_mid_growth'] += 1
            if sum(1 for x in want if x) > 1:
                stats['levels_spanning_several_splits'] += 1
            stats['level_checks'] += 1
        if rcC != 0 or rcCA != 0:
            viol(tag, 'check fails after sync (split rc=%d, single rc=%d): %s' % (rcC, rcCA, (outC if rcC else outCA)[-300:]))
            ok = False
        recorded = [[x or 0 for x in r] for r in rec_now]
        return ok

    def damage_and_fix():
        cands = [(l, i) for l in range(nlev) for i in range(nsplit[l]) if recorded[l][i] >= BS]
        if not cands:
            return True
        l, i = rng.choice(cands)
        path = B.levels[l][i]
        rec = recorded[l][i]
        kind = rng.choice(['delete', 'cut_aligned', 'cut_unaligned', 'extend', 'empty', 'cut_zero_tail'])
        kind = force.get('damage', kind)
        if kind == 'cut_zero_tail':
            # cut inside a run of zero parity bytes at the end of a split (signature of F-C17-fix-leaves-short-split)
            zt = []
            for (cl, ci) in cands:
                pre = sum(recorded[cl][:ci])
                reg = open(A.levels[cl][0], 'rb').read()[pre:pre + recorded[cl][ci]]
                z = len(reg) - len(reg.rstrip(b'\0'))
                if 2 <= z < len(reg):
                    zt.append((cl, ci, z))
            if zt:
                l, i, z = rng.choice(zt)
                path = B.levels[l][i]
                rec = recorded[l][i]
                os.truncate(path, rec - rng.randrange(1, min(z, BS)))
            else:
                kind = 'cut_unaligned'
        if kind == 'delete':
            os.remove(path)
        elif kind == 'empty':
            open(path, 'wb').close()
        elif kind == 'cut_aligned':
            os.truncate(path, rng.randrange(0, rec // BS) * BS)
        elif kind == 'cut_unaligned':
            os.truncate(path, rng.randrange(0, rec // BS) * BS + rng.randrange(1, BS))
        elif kind == 'cut_zero_tail':
            pass
        else:
            with open(path, 'ab') as f:
                f.write(bytes(rng.getrandbits(8) for _ in range(rng.choice([1, BS - 1, BS, 2 * BS + 7]))))
        stats['damage_' + kind] += 1
        before = B.file_sizes()
        twin = [open(A.levels[x][0], 'rb').read() for x in range(nlev)]
        d = {'damaged_level': l, 'damaged_split': i, 'damage': kind, 'recorded': recorded, 'files_before_fix': before}
        # check (read only) on the damaged parity: must terminate normally; cut data is reported as errors
        rc, out, lg = B.run(['check'])
        stats['commands'] += 1
        if rc not in (0, 1):
            viol('damage_check', 'check on a parity with a damaged split (%s) ended with rc=%d: %s' % (kind, rc, out[-300:]), d)
            return False
        if rc == 1:
            stats['damage_detected_by_check'] += 1
        # a fix that cannot restore the recorded size of the split (less room than recorded) must refuse, not renumber
        lines = []
        psz = [sum(r) for r in recorded]
        refuse = kind in ('delete', 'empty', 'cut_aligned', 'cut_unaligned') and rng.random() < 0.3
        saved_limit = B.limit
        if refuse:
            # a limit whose per-split value for (i, l) is below the recorded size
            L2 = next((L for L in range(max(1, rec // 2 - BS), 0, -1) if py_parity_limit(L, i, l) < rec), None)
            if L2 is None:
                refuse = False
            else:
                B.limit = L2
                ln = [chsize_line((BS, 0, [(recorded[x][y], before[x][y], py_parity_limit(L2, y, x)) for y in range(nsplit[x])], psz[x])) for x in range(nlev)]
                pr = [parse_chsize_out(o) for o in run_lines(model, ln, shards=1)]
                first_err = next((x for x in range(nlev) if pr[x]['kind'] == 'err'), None)
                if first_err is None:
                    # the damaged split is the last used one: with less room fix lays the parity out differently and does not record it
                    # (known finding F-C17-fix-relayout-not-recorded, harness/py/c17_repro_fix_relayout.py).  Driven: fix must do what the
                    # model says; if check then fails while the files hold the model's new layout, that is exactly the finding.
                    stats['fix_relayout_cases'] += 1
                    rc, out, lg = B.run(['fix'])
                    stats['commands'] += 1
                    want = [[x[0] for x in q['splits']] for q in pr]
                    got = B.file_sizes()
                    if rc != 0:
                        B.limit = saved_limit
                        viol('relayout_fix', 'fix under limit %d failed rc=%d although the model predicts the layout %s: %s' % (L2, rc, want, out[-300:]), dict(d, model_lines=ln), drift=True)
                        return False
                    rc2, out2, lg2 = B.run(['check'])
                    stats['commands'] += 1
                    B.limit = saved_limit
                    if rc2 == 0:
                        return True        # the layout was recorded or kept: nothing to report; the scenario ends here (limits differ)
                    relaid = any(got[x] != recorded[x] for x in range(nlev))
                    # fix may leave the tail of a re-laid split unwritten and cut (never longer than the model's size)
                    as_model = all(len(got[x]) == len(want[x]) and all(g <= w for g, w in zip(got[x], want[x])) for x in range(nlev))
                    if rc2 == 1 and relaid and as_model:
                        viol('relayout_check', 'fix under limit %d laid the parity out as %s (recorded %s) and exited 0; the content file was not updated and check reports errors' %
                             (L2, got, recorded), dict(d, model_lines=ln, fix_limit=L2, files_after_fix=got), finding_key='F-C17-fix-relayout-not-recorded')
                    else:
                        viol('relayout_check', 'check fails rc=%d after a fix under limit %d that left the files %s (recorded %s, model %s): %s' %
                             (rc2, L2, got, recorded, want, out2[-300:]), dict(d, model_lines=ln, fix_limit=L2, files_after_fix=got))
                    return False
            if refuse:
                rc, out, lg = B.run(['fix'])
                stats['commands'] += 1
                B.limit = saved_limit
                stats['restore_refused'] += 1
                if rc == 0:
                    viol('damage_refuse', 'fix succeeded although split %d of level %d (recorded %d bytes) cannot be restored under limit %d (model: %s)' %
                         (i, l, rec, L2, pr[first_err]['what']), dict(d, model_lines=ln))
                    return False
                msg = 'Failed restoring' if pr[first_err]['what'].startswith('restore') else 'Failed to allocate all'
                if msg not in out:
                    viol('damage_refuse', 'fix refused (rc=%d) but not with the outcome the model predicts (%s): %s' % (rc, pr[first_err]['what'], out[-300:]), dict(d, model_lines=ln), drift=True)
                    return False
                before = B.file_sizes()
        for x in range(nlev):
            lines.append(chsize_line((BS, 0, [(recorded[x][y], before[x][y], py_parity_limit(limit, y, x)) for y in range(nsplit[x])], psz[x])))
        pred = [parse_chsize_out(o) for o in run_lines(model, lines, shards=1)]
        rc, out, lg = B.run(['fix'])
        stats['commands'] += 1
        if any(p['kind'] == 'err' for p in pred):
            viol('damage_fix', 'model predicts that the recorded sizes cannot be restored: %s' % [p.get('what') for p in pred], dict(d, model_lines=lines), drift=True)
            return False
        if rc != 0:
            viol('damage_fix', 'fix of a %s split failed rc=%d: %s' % (kind, rc, out[-300:]), d)
            return False
        after = B.file_sizes()
        good = True
        cut_from = []              # regions cut again by parity_truncate (grown by fix but never written by it)
        for x in range(nlev):
            tr = log_trace(lg, B.levels[x])
            if tr != pred[x]['trace']:
                viol('damage_fix', 'level %d: model predicts grow attempts %s during fix, split:delta/grow tags say %s' % (x, pred[x]['trace'], tr), dict(d, model_line=lines[x]), drift=True)
                good = False
            cat = b''
            for y, p in enumerate(B.levels[x]):
                data = open(p, 'rb').read()
                r = recorded[x][y]
                if len(data) > r:
                    viol('damage_fix', 'level %d split %d has %d bytes after fix, recorded %d' % (x, y, len(data), r), d)
                    good = False
                if len(data) < r:
                    cut_from.append((x, len(cat) + len(data), len(cat) + r))
                cat += (data + bytes(max(0, r - len(data))))[:r]
            if len(cat) != len(twin[x]):
                viol('damage_fix', 'level %d: the splits hold %d bytes after fix, the single-file parity %d' % (x, len(cat), len(twin[x])), d)
                good = False
                continue
            for b in range(len(cat) // BS):
                if cat[b * BS:(b + 1) * BS] != twin[x][b * BS:(b + 1) * BS]:
                    if any(xx == x and lo <= b * BS + BS - 1 and b * BS < hi for xx, lo, hi in cut_from):
                        stats['fix_left_unwritten_tail_blocks'] += 1
                        continue
                    viol('damage_fix', 'level %d: after fix of a %s split the parity block %d read through the splits differs from the single-file parity' % (x, kind, b),
                         dict(d, files_after_fix=after))
                    good = False
                    break
            stats['damage_level_checks'] += 1
        rc, out, lg = B.run(['check'])
        stats['commands'] += 1
        zeros_missing = all(not any(twin[xx][lo:hi]) for xx, lo, hi in cut_from)
        if rc == 1 and cut_from and zeros_missing and good:
            # known finding F-C17-fix-leaves-short-split (harness/py/c17_repro_fix_short.py): the cut part of the split held zeros; fix
            # extended the file (zeros), found the parity equal, wrote nothing, and parity_truncate cut the file back to its damaged
            # length (valid_size is not raised by growth): check keeps reporting a read error until a sync --force-full regrows the file (a plain sync is refused since 03a455c)
            stats['fix_left_short_file_check_fails'] += 1
            viol('damage_recheck_short', 'fix of a %s split exited 0 but left the split file shorter than recorded (%s, recorded %s; the missing bytes are zeros) and check reports a read error' %
                 (kind, B.file_sizes(), recorded), dict(d, files_after_fix=B.file_sizes()), finding_key='F-C17-fix-leaves-short-split')
        elif rc != 0:
            viol('damage_recheck', 'check fails (rc=%d) after fix of a %s split: %s' % (rc, kind, out[-300:]), d)
            good = False
        # the next sync must find the sizes it recorded (restores what fix left cut) and change nothing else
        if good:
            good = sync_and_verify('after_damage_fix')
        return good

    steps = 0
    add_files(0)
    if not sync_and_verify('grow1'):
        return desc
    add_files(1)
    if not sync_and_verify('grow2'):
        return desc
    delete_top()
    if not sync_and_verify('shrink'):
        return desc
    # ---- family: a split is ADDED to the configuration (its recorded size is unset: parity_create takes the size of the
    #      file found on disk, 0 if it does not exist, k blocks if it was preallocated)
    if fam['add_split']:
        l = rng.randrange(nlev)
        if nsplit[l] < 8:
            newp = os.path.join(sroot, 'B', 'L%d.s%d.parity' % (l, nsplit[l]))
            kind = rng.choice(['absent', 'absent', 'prealloc_zero', 'prealloc_data', 'prealloc_misaligned'])
            kind = force.get('add', kind)
            k = 0
            if kind == 'prealloc_misaligned':
                # a preallocated file whose size is not a block multiple cannot become part of the address map:
                # parity_create must refuse it ("Error in preallocated size"), nothing is resized or recorded
                with open(newp, 'wb') as f:
                    f.write(bytes(rng.randrange(0, 3) * BS + rng.randrange(1, BS)))
                B.levels[l].append(newp)
                B.write_conf()
                szb = B.file_sizes()
                rc, out, lg = B.run(['sync'])
                stats['commands'] += 1
                stats['added_split_prealloc_misaligned'] += 1
                if rc == 0 or 'Error in preallocated size' not in out:
                    viol('add_misaligned', 'a preallocated split of %d bytes (not a block multiple) added to level %d was not refused: rc=%d %s' %
                         (os.path.getsize(newp), l, rc, out[-200:]))
                    return desc
                if B.file_sizes() != szb:
                    viol('add_misaligned', 'the refused sync changed the split files: %s -> %s' % (szb, B.file_sizes()))
                    return desc
                B.levels[l].pop()
                os.remove(newp)
                kind = 'absent'
            if kind != 'absent':
                k = rng.randrange(1, 3)
                with open(newp, 'wb') as f:
                    f.write(bytes(k * BS) if kind == 'prealloc_zero' else bytes(rng.getrandbits(8) for _ in range(k * BS)))
            B.levels[l].append(newp)
            B.write_conf()
            nsplit[l] += 1
            recorded[l].append(k * BS)
            desc['added_split'] = {'level': l, 'kind': kind, 'blocks': k}
            stats['added_split_' + kind] += 1
    add_files(2)
    if not sync_and_verify('regrow'):
        return desc
    # ---- family: a split file is lost / cut / extended; fix (whole array, so that the parity is opened for writing:
    #      parity_create + parity_chsize restoring the recorded sizes + parity_write + parity_truncate) must give back a
    #      parity whose concatenation is the twin's, with the recorded sizes, and check must pass again
    if fam['damage'] and not damage_and_fix():
        return desc
    # ---- dropped trailing splits (state.c): model predicts accept/refuse
    for l in range(nlev):
        used = max([i + 1 for i, x in enumerate(recorded[l]) if x] + [0])
        keeps = set()
        if used < nsplit[l]:
            keeps.add(rng.randrange(max(used, 1), nsplit[l]))      # drops only unused splits
        if used >= 2:
            keeps.add(used - 1)                                    # drops the last used split
        for keep in sorted(keeps):
            pl = run_lines(model, ['load %d %d %s' % (keep, nsplit[l], ' '.join(map(str, recorded[l])))], shards=1)[0]
            saved = [list(p) for p in B.levels]
            B.levels[l] = B.levels[l][:keep]
            B.write_conf()
            rc, out, lg = B.run(['check'])
            stats['commands'] += 1
            stats['dropped_split_cases'] += 1
            refused = rc != 0 and 'misses used file' in out       # refusal while reading the content file
            accepted = not refused
            want_accept = all(x == 0 for x in recorded[l][keep:])  # the rule itself (independent of the model)
            if accepted and want_accept and rc != 0:
                viol('drop_l%d_k%d' % (l, keep), 'check fails (rc=%d) after dropping only unused splits of level %d (recorded %s): %s' % (rc, l, recorded[l], out[-200:]))
            if accepted != want_accept:
                viol('drop_l%d_k%d' % (l, keep), 'configuration with only %d of the splits of level %d (recorded sizes %s) was %s' %
                     (keep, l, recorded[l], 'accepted' if accepted else 'refused: ' + out[-200:]))
            if (pl != 'refused') != accepted:
                viol('drop_l%d_k%d' % (l, keep), 'model says %s, the tool %s the configuration with %d splits (recorded %s)' %
                     (pl, 'accepted' if accepted else 'refused', keep, recorded[l]), drift=True)
            if accepted:
                stats['dropped_accepted'] += 1
            else:
                stats['dropped_refused'] += 1
                if 'misses used file' not in out:
                    chk.notes.append('scenario %d: refusal without the expected message: %s' % (idx, out[-120:]))
            B.levels = saved
            B.write_conf()
    # ---- lose a data disk, fix from split parity
    victim = rng.randrange(nd)
    saved = {n: open(os.path.join(datadirs[victim], n), 'rb').read() for n in os.listdir(datadirs[victim])}
    for n in saved:
        os.remove(os.path.join(datadirs[victim], n))
    rc, out, lg = B.run(['fix', '-d', 'd%d' % (victim + 1)])
    stats['commands'] += 1
    bad = [n for n, data in saved.items() if not os.path.exists(os.path.join(datadirs[victim], n)) or open(os.path.join(datadirs[victim], n), 'rb').read() != data]
    if rc != 0 or bad:
        viol('fix', 'fix of disk d%d from split parity: rc=%d, files not restored: %s; %s' % (victim + 1, rc, bad[:5], out[-300:]))
    else:
        stats['fix_restored_files'] += len(saved)
    rc, out, lg = B.run(['check'])
    stats['commands'] += 1
    if rc != 0:
        viol('check_after_fix', 'check fails after fix rc=%d: %s' % (rc, out[-300:]))
    # split files must still be what the content file records (fix may truncate to valid size only beyond it)
    after = B.file_sizes()
    for l in range(nlev):
        if after[l] != recorded[l]:
            viol('fix_sizes', 'level %d: after fix the split files have %s bytes, recorded %s' % (l, after[l], recorded[l]))
    stats['scenarios_completed'] += 1
    shutil.rmtree(sroot, ignore_errors=True)
    return desc



def main(tier, replay=None):
    chk = Check('C17', tier, 'proof')
    rng = chk.rng
    snap = snapshot_repo()
    regen_msgs = regen(snap)
    try:
        srcs = [s for s in TOOL_SRCS if s not in ('cmdline/snapraid.c', 'cmdline/parity.c')]
        drv = build_driver(snap, 'c17_drv.c', srcs, 'c17_drv', libs=['-lblkid'])
        tool = build_tool(snap)
    except BuildError as e:
        chk.violation('build', 'working tree does not build: ' + str(e)[:500], {'error': str(e)}, no_input=True)
        return chk.finish()

    ob = check_obligations('C17')
    proof_coverage(chk, ob, 'make -f Makefile.coq -k Props/Properties_C17.vo (coqc 8.16.1, full .vo) + Print Assumptions',
                   ['Coq 8.16.1 kernel incl. vm_compute (examples/witnesses only)',
                    'hand model coq/Split/SplitModel.v of cmdline/parity.c (split_find, read/write addressing, fill loop, chsize) and of the dropped-split rule of state.c, tied by correspondence only',
                    'harness/gen/splitc.py (parity_split_find of parity.c -> Gen/SplitProgs.v on every run: conditions and update parsed, loop frame token-recognised; '
                    '*offset is a Z, the recorded sizes are N; proved equal to SplitModel.split_find_z in Props/Properties_C17_splitc.v)',
                    'extraction (ExtrOcamlBasic only) + ocaml/C17/driver.ml', 'harness/c/c17_drv.c (#includes the working tree parity.c)',
                    'file system: ftruncate to a smaller size never fails, a file extended by ftruncate/fallocate/pwrite reads as zeros, pwrite/pread are all-or-nothing',
                    'growth oracle: fill_maximal assumes a monotone oracle (true for --test-parity-limit; a real full disk is assumed monotone); the refinement theorems hold for any oracle',
                    'python oracles in check_C17.py (prefix reconstruction, flat-file history)'])
    if regen_msgs:
        chk.notes.append('translator: ' + '; '.join(regen_msgs))
    try:
        model = build_model('Extract/Extract_C17.vo', 'ocaml/C17', 'c17_ext', 'driver.ml', 'model')
    except BuildError as e:
        chk.violation('model', 'extracted model does not build: ' + str(e)[:400], {'error': str(e)}, no_input=True)
        return chk.finish()

    scratch = mkscratch()
    env = dict(os.environ, C17_DIR=scratch)
    broken = bool(ob['failed'])
    mult = (1 if tier == 'quick' else 8) * (4 if broken else 1)

    if replay:
        rp = json.load(open(replay))['replay']
        line = rp.get('case_line')
        if line:
            print('C    :', run_lines(drv, [line], shards=1, env=env)[0])
            print('model:', run_lines(model, [line], shards=1)[0])
        else:
            print(json.dumps(rp, indent=1)[:4000])
        return 0

    stats = dict(find=0, find_inside=0, hbit=0, limit=0, chsize=0, chsize_ok=0, chsize_limit_hit=0, chsize_err=0, 
                 ops=0, ops_multi_split=0, drift=0)
    drift_cases = []

    def compare(tag, lines, oracle, nontrivial=None):
        co = run_lines(drv, lines, env=env)
        mo = run_lines(model, lines)
        nv = 0
        for ln, c, m in zip(lines, co, mo):
            v = oracle(ln, c)
            if v:
                nv += 1
                if nv <= 5:
                    chk.violation('%s_%d' % (tag, nv), 'parity.c violates the property on a concrete input: %s   [case: %s]' % (v, ln[:200]),
                                  {'driver': 'harness/c/c17_drv.c', 'case_line': ln, 'c': c, 'model': m})
            if nontrivial:
                nontrivial(ln, c)
            c = c.replace('~ ', ' ')          # C-only observation used by oracle_ops
            if c != m:
                same = c.split('|')[0] == m.split('|')[0] and any(t in ('r-1', 'r-2') for t in c.split('|')[0].split())
                if same:
                    continue      # failed resize: the tool exits, on-disk state after the failure is not modelled
                stats['drift'] += 1
                if not v:
                    drift_cases.append({'case_line': ln, 'c': c, 'model': m})
        return co

    # ---- corpus first
    cdir = os.path.join(VERIF, 'corpus', 'C17')
    corpus = []
    if os.path.isdir(cdir):
        for f in sorted(x for x in os.listdir(cdir) if x.endswith('.txt')):
            corpus += [l.strip() for l in open(os.path.join(cdir, f)) if l.strip() and not l.startswith('#')]

    def oracle_any(ln, c):
        t = ln.split()
        if t[0] == 'find':
            n = int(t[1])
            return oracle_find(list(map(int, t[2:2 + n])), int(t[2 + n]), c)
        if t[0] == 'chsize':
            n = int(t[3])
            spl = [tuple(map(int, t[4 + 3 * i:7 + 3 * i])) for i in range(n)]
            v, _ = oracle_chsize(int(t[1]), spl, int(t[4 + 3 * n]), parse_chsize_out(c))
            return v
        if t[0] == 'ops':
            return oracle_ops(int(t[1]), ln, c)
        if t[0] == 'hbit':
            v = int(t[1])
            return None if int(c) == (1 << (v.bit_length() - 1) if v else 1) else 'hbit_u64(%d) = %s' % (v, c)
        if t[0] == 'limit':
            return None if int(c) == py_parity_limit(int(t[1]), int(t[2]), int(t[3])) else 'PARITY_LIMIT%s = %s' % (tuple(t[1:]), c)
        return None
    if corpus:
        compare('corpus', corpus, oracle_any)
        chk.cov['corpus_cases'] = len(corpus)

    # ---- find
    fc = gen_find_cases(rng, 150 * mult)
    flines = ['find %d %s %d' % (len(s), ' '.join(map(str, s)), off) if s else 'find 0 %d' % off for s, off in fc]

    def nt_find(ln, c):
        stats['find'] += 1
        if not c.startswith('-1'):
            stats['find_inside'] += 1
    compare('find', flines, oracle_any, nt_find)

    # ---- hbit, limit
    hv = [0, 1, 2, 3] + [x for k in range(2, 62) for x in ((1 << k) - 1, 1 << k, (1 << k) + 1)] + [rng.randrange(1 << 62) for _ in range(50 * mult)]
    compare('hbit', ['hbit %d' % v for v in hv], oracle_any)
    stats['hbit'] = len(hv)
    lv = [(lim, s, l) for lim in [0, 1, 600, 1024, 3333333, (1 << 31) - 1, 1 << 32, (1 << 40) + 7] + [rng.randrange(1, 1 << 36) for _ in range(6 * mult)]
          for s in range(8) for l in range(6)]
    compare('limit', ['limit %d %d %d' % x for x in lv], oracle_any)
    stats['limit'] = len(lv)

    # ---- chsize
    cc = gen_chsize_cases(rng, 500 * mult)
    clines = [chsize_line(c) for c in cc]

    def nt_chsize(ln, c):
        stats['chsize'] += 1
        r = parse_chsize_out(c)
        if r and r['kind'] == 'ok':
            stats['chsize_ok'] += 1
        elif r:
            stats['chsize_err'] += 1
        if r and any(t[1] == 0 for t in r['trace']):
            stats['chsize_limit_hit'] += 1
    compare('chsize', clines, oracle_any, nt_chsize)

    # ---- histories
    oc = gen_ops_cases(rng, 400 * mult)

    def nt_ops(ln, c):
        stats['ops'] += 1
        if '|' in c and sum(1 for t in c.split('|')[1].split() if not t.startswith('0:')) > 1:
            stats['ops_multi_split'] += 1
    compare('ops', oc, oracle_any, nt_ops)

    # ---- regression of the defect repaired by /repo commit 391ce18 (unused split between two used ones made split 0
    #      "growing"; the next sync with more room moved the address map and dropped the parity of the last split).
    #      unit level: corpus/C17/hand.txt holds the case, judged by oracle_chsize like every other case.
    #      binary level: harness/py/c17_repro_midzero.py; a "fixed" finding suppresses nothing.
    try:
        import c17_repro_midzero
        rb = c17_repro_midzero.reproduce(tool, os.path.join(scratch, 'repro'))
    except Exception as e:
        rb = {'error': repr(e)}
    chk.cov['regression_midzero_split'] = rb
    if rb.get('error'):
        chk.violation('regress_midzero_run', 'the regression scenario c17_repro_midzero could not be run: %s' % rb['error'], rb, no_input=True)
    elif rb.get('defect_reproduced') or not rb.get('passed'):
        chk.violation('regress_midzero', 'split parity loses data when an unused split lies between two used ones: after sync #1 the splits have %s bytes, '
                      'sync #2 (limit lifted, one file added) exits %s and leaves %s, check exits %s (%s)' %
                      (rb.get('sizes_after_sync1'), rb.get('sync2_rc'), rb.get('sizes_after_sync2'), rb.get('check2_rc'), rb.get('check2_tail')),
                      dict(rb, how='python3 harness/py/c17_repro_midzero.py'))

    # ---- the two OPEN known findings of C17, driven deterministically on every run with exact attribution: the signature of the
    #      finding goes through finding_key (KNOWN-FINDING line while the entry is open), any other failure of the same
    #      scenario is a plain violation, and a tree where the finding is repaired passes silently
    try:
        import c17_repro_fix_relayout, c17_repro_fix_short
        r1 = c17_repro_fix_relayout.reproduce(tool, os.path.join(scratch, 'relayout'))
        chk.cov['finding_fix_relayout'] = r1
        if r1['sync1_rc'] != 0 or r1['sizes_after_sync1'] != [8192, 0]:
            chk.violation('relayout_setup', 'relayout scenario: first sync rc=%s sizes %s (expected 0, [8192, 0])' % (r1['sync1_rc'], r1['sizes_after_sync1']), r1)
        elif r1['check_after_fix_rc'] != 0 and r1['fix_rc'] == 0:
            if r1['check_after_fix_rc'] == 1 and r1['sizes_after_fix'] == [5120, 3072]:
                chk.violation('relayout', 'fix re-lays out a lost last-used split under the limits of the moment without recording the new split sizes: recorded [8192, 0], '
                              'fix --test-parity-limit=%d exits 0 with files %s, check then exits %d (%s)' % (r1['limit'], r1['sizes_after_fix'], r1['check_after_fix_rc'], r1['check_after_fix_tail']),
                              dict(r1, how='python3 harness/py/c17_repro_fix_relayout.py'), finding_key='F-C17-fix-relayout-not-recorded')
            else:
                chk.violation('relayout_other', 'relayout scenario: fix exits 0 with files %s, check exits %d (%s)' % (r1['sizes_after_fix'], r1['check_after_fix_rc'], r1['check_after_fix_tail']),
                              dict(r1, how='python3 harness/py/c17_repro_fix_relayout.py'))
        if r1['sync1_rc'] == 0 and not r1['healed']:
            chk.violation('relayout_sync', 'relayout scenario: the sync after fix exits %s (refused by the size interlock: %s, sync -F exits %s), files %s, check exits %s' %
                          (r1['sync2_rc'], r1['sync2_refused_by_interlock'], r1.get('sync2_forced_rc'), r1['sizes_after_sync2'], r1['check_after_sync2_rc']),
                          dict(r1, how='python3 harness/py/c17_repro_fix_relayout.py'))
        r2 = c17_repro_fix_short.reproduce(tool, os.path.join(scratch, 'short'))
        chk.cov['finding_fix_short'] = r2
        if r2['sync_rc'] != 0 or r2['p0_after_sync'] != 1024:
            chk.violation('short_setup', 'short-split scenario: first sync rc=%s p0 has %s bytes (expected 0, 1024)' % (r2['sync_rc'], r2['p0_after_sync']), r2)
        elif r2['check_rc'] != 0 or r2['fix_rc'] != 0:
            if r2['fix_rc'] == 0 and r2['check_rc'] == 1 and r2['p0_after_fix'] == 500 and r2['fix2_rc'] == 0 and r2['p0_after_fix2'] == 500:
                chk.violation('short', 'fix leaves a truncated split short when the missing bytes are zeros: p0 cut to 500 of 1024 bytes, fix exits 0 and p0 still has %d bytes, '
                              'check exits %d (%s)' % (r2['p0_after_fix'], r2['check_rc'], r2['check_tail']),
                              dict(r2, how='python3 harness/py/c17_repro_fix_short.py'), finding_key='F-C17-fix-leaves-short-split')
            else:
                chk.violation('short_other', 'short-split scenario: fix exits %s leaving p0 at %s bytes, check exits %s (%s)' % (r2['fix_rc'], r2['p0_after_fix'], r2['check_rc'], r2['check_tail']),
                              dict(r2, how='python3 harness/py/c17_repro_fix_short.py'))
        if r2['sync_rc'] == 0 and not r2['healed']:
            chk.violation('short_sync', 'short-split scenario: the sync after fix exits %s (refused by the size interlock: %s, sync -F exits %s), p0 has %s bytes, check exits %s' %
                          (r2['sync2_rc'], r2['sync2_refused_by_interlock'], r2.get('sync2_forced_rc'), r2['p0_after_sync2'], r2['check3_rc']),
                          dict(r2, how='python3 harness/py/c17_repro_fix_short.py'))
    except Exception as e:
        chk.violation('findings_run', 'the scenarios of the open findings could not be run: %r' % e, {'error': repr(e)}, no_input=True)

    # ---- command level
    cstats = dict(commands=0, steps=0, level_checks=0, expected_failures=0, limit_hit_mid_growth=0, levels_spanning_several_splits=0,
                  dropped_split_cases=0, dropped_accepted=0, dropped_refused=0, skip_fallocate_scenarios=0, added_split_absent=0, added_split_prealloc_zero=0, added_split_prealloc_data=0, added_split_prealloc_misaligned=0,
                  damage_delete=0, damage_empty=0, damage_cut_aligned=0, damage_cut_unaligned=0, damage_cut_zero_tail=0, damage_extend=0, damage_detected_by_check=0, restore_refused=0, fix_relayout_cases=0,
                  damage_level_checks=0, fix_left_unwritten_tail_blocks=0, sync_refused_by_size_interlock=0, fix_left_short_file_check_fails=0, fix_restored_files=0, scenarios_completed=0)
    nscen = (30 if tier == 'quick' else 250) * (2 if broken else 1)
    descs = []
    for i in range(nscen):
        try:
            descs.append(run_scenario(chk, tool, model, rng, scratch, i, cstats))
        except subprocess.TimeoutExpired:
            chk.violation('cmd_timeout_%d' % i, 'scenario %d: a snapraid command did not terminate within 120 s' % i, {'scenario': i, 'seed': chk.seed})
        if len(chk.violations) > 12:
            break

    # ---- configuration rule: at most SPLIT_MAX = 8 files per level
    try:
        croot = os.path.join(scratch, 'cfg')
        cd = os.path.join(croot, 'data', 'd1')
        os.makedirs(cd)
        open(os.path.join(cd, 'f'), 'wb').write(bytes(range(256)) * 20)
        for n, want_ok in ((8, True), (9, False)):
            arr = Array(tool, croot, 'n%d' % n, [[os.path.join(croot, 'n%d' % n, 's%d.parity' % i) for i in range(n)]], [cd], 700)
            rc, out, lg = arr.run(['sync'])
            cstats['commands'] += 1
            if want_ok and rc != 0:
                chk.violation('cfg_8_splits', 'a level with 8 split files is refused: rc=%d %s' % (rc, out[-200:]), {'splits': n, 'limit': 700})
            if not want_ok and (rc == 0 or 'Too many files' not in out):
                chk.violation('cfg_9_splits', 'a level with 9 split files is not refused: rc=%d %s' % (rc, out[-200:]), {'splits': n})
            if want_ok and rc == 0:
                szs = arr.file_sizes()[0]
                cstats['eight_splits_sizes'] = szs
                if sum(szs) != 5 * BS or any(x % BS for x in szs):
                    chk.violation('cfg_8_splits', '8 splits under limit 700: files %s do not hold the 5 parity blocks' % szs, {'splits': n, 'limit': 700})
    except Exception as e:
        chk.notes.append('config rule test not run: %r' % e)

    # ---- verdict for drift / broken obligations
    if drift_cases and not [v for v in chk.violations if not v[2]]:
        d = drift_cases[0]
        chk.violation('drift', 'MODEL-DRIFT: extracted model and parity.c disagree on %d generated cases although C satisfies the property oracles there; first: %s' % (len(drift_cases), d['case_line'][:160]),
                      {'cases': drift_cases[:10]}, no_input=True)
    if ob['failed']:
        import obname
        chk.violation('obligation', obname.obligation_text(ob, 'C17'),
                      {'theorem_files': ['coq/Props/Properties_C17.v', 'coq/Props/Properties_C17_splitc.v'], 'failed': ob['failed'], 'log_tail': ob['log'][-1500:],
                       'search': 'generators run with x%d budget, %d violations with a concrete input' % (mult, len(chk.violations))}, no_input=not chk.violations)

    ev = stats['find'] + stats['hbit'] + stats['limit'] + stats['chsize'] + stats['ops'] + cstats['level_checks']
    chk.cov.update({'evaluations': ev,
                    'distinct_nontrivial': stats['find_inside'] + stats['chsize_limit_hit'] + stats['ops_multi_split'] + cstats['levels_spanning_several_splits'],
                    'rule': 'non-trivial = find cases mapped inside a split + chsize cases where a limit is hit mid-growth + histories whose final state spans >1 split + command-level (sync, level) checks whose parity spans >1 split',
                    'unit': dict(stats, ops_not_judged_by_flat_oracle_outside_wf_hypothesis=OUTSIDE_HYP[0]), 'command_level': cstats,
                    'traces_validated_against_impl': stats['chsize'] + stats['ops'] + cstats['level_checks'],
                    'model_drift': stats['drift']})
    chk.cov['samples'] = [{'case': l} for l in flines[:2] + clines[:3] + oc[:2]] + [d for d in descs[:2]]
    chk.assumptions += ['the growth oracle is --test-parity-limit (monotone, constant over the history); real ENOSPC behaviour is not exercised',
                        'command level uses blocksize 1 KiB, 3 data disks, 1..3 parity levels, 2..4 splits per level',
                        'twin arrays share the data directories; fix is run on the split array only, after the comparison',
                        'exercised by oracle only (no theorem): fix on a parity with a lost / cut / extended split (parity_create with st_size != recorded size, '
                        'parity_truncate), --test-skip-fallocate, splits added to the configuration (preallocated or not), refusal of misaligned preallocation and of a 9th split; '
                        'the chsize decisions inside these commands are predicted by the model (sizes and grow traces)',
                        'OPEN FINDING F-C17-fix-relayout-not-recorded (driven on every run, reported through finding_key): when the LAST USED split is lost and has less room than recorded, fix lays the parity out over the next split, '
                        'reports success and does not record the new sizes; check then reports errors until a sync --force-full (harness/py/c17_repro_fix_relayout.py); '
                        'random scenarios meeting it are counted as fix_relayout_cases and end there',
                        'OPEN FINDING F-C17-fix-leaves-short-split (driven on every run, reported through finding_key): a split cut inside a region whose parity bytes are zero is extended by fix, compared equal, not written, and cut '
                        'again by parity_truncate (valid_size is not raised by growth): fix says OK, check keeps reporting a read error until a sync --force-full (a plain sync is refused by the size interlock since /repo 03a455c) '
                        '(harness/py/c17_repro_fix_short.py); counted as fix_left_short_file_check_fails',
                        'HYPOTHESIS of the flat-file oracle on ops histories = hypothesis wf of C17_split_concat: at every resize each split file has its recorded '
                        'size; parity_truncate (T) breaks it; a history is still judged after T as long as the limits are unchanged (the resize then restores the '
                        'recorded sizes), and is not judged by the flat oracle (model vs C only) from a resize that starts without wf after a limit change '
                        '(C17_split_concat_needs_wf is the witness that the statement is false there)',
                        'regression scenario of the repaired mid-zero-split defect (c17_repro_midzero) is run on every check and counts as a violation if it fails']
    return chk.finish()
