"""C18 -- include/exclude and selection filters follow the documented rules."""
import os, sys, json, time, collections, shutil, glob as globmod
from concurrent.futures import ThreadPoolExecutor
from common import *
import c18_gen as g
import c18_cmd as cm
import c18_dmg as dm

DRV_SRCS = ['cmdline/elem.c', 'cmdline/support.c', 'cmdline/unix.c', 'tommyds/tommy.c']

TRUSTED = ['Coq 8.16.1 kernel incl. vm_compute',
           'extraction (ExtrOcamlBasic only) + ocaml/C18/driver.ml',
           'harness/c/c18_drv.c (calls filter_alloc_file/filter_alloc_disk/filter_path/filter_subdir/filter_emptydir/'
           'filter_content/filter_hidden of the working tree; compiles cmdline/fnmatch.c as repo_fnmatch)',
           'harness/py/c18_gen.py reference (documented meaning of patterns and rules via Python re)',
           'hand models Filter/GlobModel.v (libc fnmatch as called by elem.c) and Filter/FilterModel.v (elem.c, state_filter), '
           'tied by unit and command-level correspondence on every run',
           'libc fnmatch of the host (glibc) in the C locale: the matcher the tool really calls (HAVE_FNMATCH=1)',
           'scan.c/state.c/check.c glue between the filter functions and the commands: observed at command level only']

ASSUMPTIONS = ['patterns and paths shorter than PATH_MAX, no NUL byte; C locale (the tool never calls setlocale)',
               'claimed pattern grammar: * ? \\c [set] [!set] [^set] ranges, ] first in a set, - last in a set, unterminated [ literal, '
               'trailing backslash never matches; POSIX classes [:x:] [=x=] [.x.] and unterminated brackets ending in a dangling - or \\ are not claimed',
               'FNM_PERIOD is never passed by elem.c: leading periods are matched by wildcards (checked against libc on every run)',
               'Windows behaviour (case folding, ^ escape, \\ separators, hidden attribute) not modelled',
               'exercised by oracle only (no Coq model): which commands accept -f -d -m -e -b and the -e/-d incompatibility (snapraid.c:1150-1190), '
               'the -d name that matches no disk (state.c:470-500), hard-link detection by inode and special files in scan.c, '
               're-sync after the configuration was edited (removal of entries that became excluded), -b block selection (check.c block_is_enabled)',
               'not reached on purpose: filter_type / *reason for disk rules (elem.c:163,248: the configuration list never holds disk rules and only the scan asks for a reason), '
               'state_skip (needs an inaccessible disk with -D), operation dry, DT_UNKNOWN / mount point / unreadable entries in scan_sub, fatal-error branches']


def hx(b):
    return b.hex() if b else '-'


def pat_features(atoms):
    """pattern classes outside the grammar on which cmdline/fnmatch.c and libc are compared"""
    f = set()
    prev = None
    in_star_run = False
    for a in atoms:
        if a.kind == 'lbr':
            f.add('unterminated')
        if a.kind == 'set':
            body = a.text[1:-1]
            if body[:1] in (b'!', b'^'):
                body = body[1:]
            if body[:1] == b']':
                f.add('rbr_first')
            if b'\\' in body:
                f.add('esc_in_set')
            if any(lo > hi for lo, hi in a.members):
                f.add('reversed_range')
        # a '*' later in a run of wildcards that began with '*'  ("**", "*?*"): cmdline/fnmatch.c refuses a '/' there
        if a.kind == 'star':
            if in_star_run:
                f.add('starstar')
            in_star_run = True
        elif a.kind != 'any':
            in_star_run = False
        prev = a
    return f


def gen_fnm_cases(rng, npat, per):
    cases = []
    for _ in range(npat):
        pn = rng.random() < 0.55
        mal = rng.random() < 0.08
        atoms = g.gen_atoms(rng, allow_slash=True, malformed=mal)
        pat = g.pat_bytes(atoms)
        feats = pat_features(atoms)
        if any(a.kind == 'fail' for a in atoms):
            feats.add('trailing_backslash')
        seen = set()
        for k in range(per):
            s = g.instantiate(rng, atoms, pn)
            while rng.random() < (0.15 if k == 0 else 0.45):
                s = g.mutate(rng, s)
            if b'\0' in s or s in seen:
                continue
            seen.add(s)
            cases.append((pn, pat, s, feats))
    return cases


def boundary_fnm_cases():
    """hand-made cases aimed at the case splits of the proofs and at the known quirks"""
    P = []
    for pn in (0, 1):
        for pat, strs in [
            (b'', [b'', b'a']), (b'*', [b'', b'a', b'.a', b'a/b', b'/']), (b'?', [b'', b'a', b'/', b'.']),
            (b'a*b', [b'ab', b'axb', b'a/b', b'axxbb', b'b']), (b'*/*', [b'a/b', b'/', b'a/b/c', b'ab']),
            (b'**', [b'a/b', b'', b'x']), (b'*?', [b'', b'a', b'/', b'a/']), (b'a**/b', [b'a/b', b'ax/b', b'a//b']),
            (b'\\*', [b'*', b'a']), (b'\\', [b'\\', b'']), (b'a\\', [b'a\\', b'a']), (b'*\\/x', [b'a/x', b'/x']),
            (b'*?\\/x', [b'ab/x']), (b'?\\/x', [b'a/x']), (b'[a-c]', [b'a', b'b', b'c', b'd', b'/', b'-']),
            (b'[!a-c]', [b'a', b'd', b'/', b'!']), (b'[^a-c]', [b'a', b'd', b'^']), (b'[]a]', [b']', b'a', b'[]a]']),
            (b'[a-]', [b'a', b'-', b'b']), (b'[-a]', [b'a', b'-']), (b'[a', [b'[a', b'a']), (b'[', [b'[', b'']),
            (b'x[', [b'x[']), (b'[c-a]', [b'a', b'b', b'c']), (b'[\\]]', [b']', b'\\']), (b'[a\\-c]', [b'-', b'b']),
            (b'[/]', [b'/']), (b'a[/]b', [b'a/b']), (b'[.]x', [b'.x']), (b'*.c', [b'.c', b'a.c', b'a/b.c', b'.c.c']),
            (b'[!]]', [b']', b'a']), (b'[]-a]', [b']', b'^', b'a', b'b']), (b'[a-\\c]', [b'b', b'\\']),
            (b'a?c', [b'abc', b'a/c', b'ac']), (b'.*', [b'.', b'.a', b'a']), (b'*.', [b'.', b'a.']),
            (b'[*]', [b'*', b'a']), (b'[?]', [b'?', b'a']), (b'\\[a]', [b'[a]', b'a']), (b'tmp', [b'tmp', b'tmp/']),
        ]:
            for s in strs:
                P.append((pn, pat, s, {'boundary'}))
    return P


CORE_EXCLUDED = {'unterminated', 'rbr_first', 'esc_in_set', 'reversed_range', 'starstar', 'boundary'}


DRIFTS = []   # (tag, what, replay): emitted only when no violation with a concrete input was found


def drift(tag, what, rep):
    DRIFTS.append((tag, what, rep))


def run_fnm(chk, drv, model, cases, stats, where):
    lines = ['fnm %d %s %s' % (pn, hx(p), hx(s)) for pn, p, s, f in cases]
    co = run_lines(drv, lines)
    mo = run_lines(model, lines)
    ndrift = 0
    for (pn, p, s, feats), c, m in zip(cases, co, mo):
        parts = c.split()
        if len(parts) != 2 or m not in ('0', '1'):
            chk.violation('fnm_crash', 'driver failure on fnm case (%s): C=%r model=%r' % (where, c, m),
                          {'pn': pn, 'pattern': p.decode('latin1'), 'string': s.decode('latin1')})
            continue
        libc, repo = parts
        ref = g.ref_match(p, s, bool(pn))
        stats['pairs'] += 1
        stats['libc_match' if libc == '1' else 'libc_nomatch'] += 1
        stats['pn%d_%s' % (pn, 'match' if libc == '1' else 'nomatch')] += 1
        core = not (feats & CORE_EXCLUDED)
        rep = {'pathname': pn, 'pattern': p.decode('latin1'), 'string': s.decode('latin1'), 'pattern_hex': hx(p), 'string_hex': hx(s),
               'libc': libc, 'cmdline_fnmatch_c': repo, 'model': m, 'reference': ref, 'classes': sorted(feats)}
        if m != libc:
            ndrift += 1
            if ndrift <= 3:
                drift('fnm_model_drift', 'MODEL-DRIFT: glob_match disagrees with the host libc fnmatch on pattern %r string %r pathname=%d '
                      '(model %s, libc %s): the model does not describe the matcher the tool calls' % (p, s, pn, m, libc), rep)
        if ref is not None and str(int(ref)) != libc and 'boundary' not in feats and 'trailing_backslash' not in feats:
            stats['ref_vs_libc'] += 1
            if stats['ref_vs_libc'] <= 3:
                chk.violation('fnm_libc_ref', 'host libc fnmatch disagrees with the documented meaning on pattern %r string %r pathname=%d '
                              '(libc %s, reference %s)' % (p, s, pn, libc, int(ref)), rep)
        if repo != libc:
            for cl in (sorted(feats & CORE_EXCLUDED) or ['core']):
                stats['repo_vs_libc_' + cl] += 1
            if core:
                stats['repo_core_disagree'] += 1
                if stats['repo_core_disagree'] <= 3:
                    chk.violation('fnm_repo', 'cmdline/fnmatch.c disagrees with the documented meaning (and with libc and the model) on pattern %r '
                                  'string %r pathname=%d: returns %s, expected %s' % (p, s, pn, 'match' if repo == '1' else 'no match',
                                                                                      'match' if libc == '1' else 'no match'), rep)
        elif core:
            stats['repo_core_agree'] += 1


def gen_unit_rules(rng, n):
    """rule lists x paths for the direct calls of filter_path / filter_subdir / filter_emptydir"""
    out = []
    for _ in range(n):
        tree = g.gen_tree(rng, maxdepth=3, fan=3)
        if not tree:
            continue
        nr = rng.choice([0, 1, 1, 2, 3, 4, 6])
        rules = []
        for _ in range(nr):
            txt = g.gen_rule_text(rng, tree)
            if b'\0' in txt or not txt:
                continue
            rules.append((rng.random() < 0.45, txt))
        disk = rng.choice([b'd1', b'd2'])
        drule = None
        if rng.random() < 0.15:
            drule = rng.choice([b'd1', b'd?', b'x*', b'*'])
        for sub, k in rng.sample(tree, min(len(tree), 6)):
            if b'\0' in sub:
                continue
            for kind in ('p', 's', 'e'):
                out.append((kind, disk, sub, rules, drule))
    return out


def ref_unit(kind, disk, sub, rules, drule):
    """the documentation's answer for one direct call; None = no claim; 'bad i' = rule i rejected"""
    refs = []
    for i, (incl, txt) in enumerate(rules):
        try:
            refs.append(g.RefRule(incl, txt))
        except ValueError:
            return 'bad %d' % (i + (1 if drule is not None and i >= len(rules) // 2 else 0))
    if drule is not None:
        return None
    r = g.ref_decide(refs, sub, kind != 'p', default_include=(kind == 's'))
    return None if r is None else str(int(r))


def run_unit_filters(chk, drv, model, cases, stats):
    lines = []
    for kind, disk, sub, rules, drule in cases:
        toks = [('i' if i else 'e') + hx(t) for i, t in rules]
        if drule is not None:
            toks.insert(len(toks) // 2, 'D' + hx(drule))
        lines.append('flt %s %s %s %s' % (kind, hx(disk), hx(sub), ' '.join(toks)))
    co = run_lines(drv, lines)
    mo = run_lines(model, lines)
    ndrift = bad = 0
    for case, line, c, m in zip(cases, lines, co, mo):
        kind, disk, sub, rules, drule = case
        ref = ref_unit(*case)
        stats['flt_calls'] += 1
        stats['flt_' + (c if c in ('0', '1') else 'rejected')] += 1
        rep = {'call': {'p': 'filter_path', 's': 'filter_subdir', 'e': 'filter_emptydir'}[kind], 'disk': disk.decode('latin1'),
               'sub': sub.decode('latin1'), 'rules': [[('include' if i else 'exclude'), t.decode('latin1')] for i, t in rules],
               'disk_rule': drule.decode('latin1') if drule else None, 'driver_line': line, 'C': c, 'model': m, 'reference': ref}
        if ref is not None and c != ref:
            bad += 1
            if bad <= 3:
                chk.violation('flt_rule', '%s(%r) under rules %s returns %s, the documented rules give %s' %
                              (rep['call'], sub, rep['rules'], c, ref), rep)
        elif c != m:
            ndrift += 1
            if ndrift <= 3:
                drift('flt_model_drift', 'MODEL-DRIFT: FilterModel disagrees with elem.c on %s(%r) rules %s: model %s, C %s' %
                      (rep['call'], sub, rep['rules'], m, c), rep)
        if ref is not None:
            stats['flt_with_reference'] += 1


def run_parse(chk, drv, model, rng, stats, n):
    texts = set()
    for _ in range(n):
        k = rng.random()
        if k < 0.5:
            comps = []
            for _ in range(rng.randint(1, 4)):
                comps.append(rng.choice([b'a', b'.', b'..', b'...', b'', b'.a', b'a.', b'*', b'b c', b'\\.', b'[.]', b'x.y', b'....', b'?']))
            t = b'/'.join(comps)
            if rng.random() < 0.4:
                t = b'/' + t
            if rng.random() < 0.3:
                t = t + b'/'
        else:
            t = g.gen_rule_text(rng, [(b'a/b.c', 'f'), (b'tmp/x', 'f'), (b'.h/y', 'f')])
        if t and b'\0' not in t:
            texts.add(t)
    texts = sorted(texts)
    lines = ['parse %s' % hx(t) for t in texts]
    co = run_lines(drv, lines)
    mo = run_lines(model, lines)
    for t, c, m in zip(texts, co, mo):
        stats['parse_calls'] += 1
        try:
            r = g.RefRule(True, t)
            ref = 'ok 0%d%d %s' % (r.kind in ('PATHFILE', 'PATHDIR'), r.kind in ('DIR', 'PATHDIR'),
                                   hx(t[:-1] if r.kind in ('DIR', 'PATHDIR') else t))
        except ValueError:
            ref = 'none'
        stats['parse_' + ('rejected' if c == 'none' else 'accepted')] += 1
        rep = {'rule_text': t.decode('latin1'), 'C': c, 'model': m, 'reference': ref}
        if c != ref:
            stats['parse_bad'] += 1
            if stats['parse_bad'] <= 4:
                chk.violation('parse', 'filter_alloc_file(%r): C gives %s, the documented forms give %s' % (t, c, ref), rep)
        elif c != m:
            drift('parse_model_drift', 'MODEL-DRIFT: filter_parse(%r) = %s but filter_alloc_file = %s' % (t, m, c), rep)


# ------------------------------------------------------------------------------------------------------------
# command level

def run_scenario(tool, model, drv, sc, base):
    """returns (problems, counters).  problem = (tag, what, replay, no_input)"""
    root = os.path.join(base, 's%d' % sc.idx)
    os.makedirs(root)
    problems = []
    cnt = collections.Counter()
    desc = sc.describe()

    def bad(tag, what, extra=None, no_input=False):
        rep = dict(desc)
        rep.update(extra or {})
        problems.append((tag, what, rep, no_input))
    try:
        cm.materialize(root, sc)
        phases = [sc.rules] + ([sc.rules2] if sc.rules2 is not None else [])
        for ph, rules in enumerate(phases):
            # phase 1: the configuration is edited (rules added / removed) and sync runs again: what the new rules exclude
            # must leave the array, what they admit must enter it
            cm.write_conf(root, sc, rules)
            rc, out = cm.run_tool(tool, root, ['sync', '-v'] + (['-E'] if ph else []))
            if ph == 0 and sc.bad_rule is not None:
                cnt['conf_rejected_expected'] += 1
                if rc == 0 or b'Invalid' not in out:
                    bad('cmd_parse', 'configuration rule %r must be rejected (documented forms) but sync exit=%d' % (sc.rules[sc.bad_rule][1], rc),
                        {'output': out.decode('latin1')[-400:]})
                return problems, cnt
            if rc != 0:
                bad('cmd_sync', 'sync failed (exit %d) on a valid configuration (phase %d)' % (rc, ph), {'output': out.decode('latin1')[-600:], 'phase': ph})
                return problems, cnt
            said = cm.parse_verbose(out)
            log = os.path.join(root, 'list.log')
            rc, out = cm.run_tool(tool, root, ['list'], log=log)
            lg = cm.parse_log(log)
            c_files = set(lg.get('file', []))
            c_sym = set(lg.get('link_symlink', []))
            c_hard = dict(lg.get('hardlink_to', {}))
            # expected by the documentation, and by the model
            ref = cm.expected_scan(sc, root, cm.ref_decider(sc, root, rules), rules)
            lines, keys = cm.model_lines_scan(sc, root, rules)
            mo = run_lines(model, lines, shards=1)
            co = run_lines(drv, lines, shards=1)
            mtab = dict(zip(keys, mo))
            ctab = dict(zip(keys, co))
            mod = cm.expected_scan(sc, root, cm.table_decider(mtab), rules)
            if ph:
                # the copy of the content file written on the first data disk by the first sync is met by the second scan
                own = (b'content', root.encode() + b'/' + sc.disks[0] + b'/content')
                ref.msgs.add(own)
                mod.msgs.add(own)
            cnt['scan_entries'] += len(keys)
            cnt['scan_entries_skipped'] += sum(1 for k in keys if ctab[k] != '0')
            cnt['listed_files'] += len(c_files)
            cnt['listed_links'] += len(c_sym)
            cnt['listed_hardlinks'] += len(c_hard)
            cnt['verbose_messages'] += len(said)
            cnt['verbose_messages_for_rule'] += sum(1 for m in said if len(m) == 3)
            cnt['verbose_messages_special_file'] += sum(1 for m in said if m[0] == b'special file')
            if ph:
                cnt['resync_with_edited_rules'] += 1
                cnt['resync_left_array'] += len(prev_listed - (c_files | c_sym | set(c_hard)))
                cnt['resync_entered_array'] += len((c_files | c_sym | set(c_hard)) - prev_listed)
            prev_listed = c_files | c_sym | set(c_hard)
            if (c_files, c_sym, c_hard) != (ref.files, ref.symlinks, ref.hardlinks):
                got_all = c_files | c_sym | set(c_hard)
                exp_all = ref.files | ref.links
                bad('cmd_list', 'after sync%s the array holds %s but the documented rules give %s (difference: %s; hard links %s vs %s)' %
                    (' with the edited rules %s' % [[('include' if i else 'exclude'), t] for i, t in rules] if ph else '',
                     cm.fmt(got_all), cm.fmt(exp_all), cm.fmt(got_all ^ exp_all), cm.fmt(set(c_hard)), cm.fmt(set(ref.hardlinks))),
                    {'listed': cm.fmt(got_all), 'expected': cm.fmt(exp_all), 'phase': ph})
                return problems, cnt
            if said != ref.msgs:
                bad('cmd_verbose', 'sync -v names the wrong entry or rule: printed but not expected %s; expected but not printed %s' %
                    (sorted(said - ref.msgs)[:4], sorted(ref.msgs - said)[:4]), {'phase': ph})
            if mod.key() != ref.key() or mod.msgs != ref.msgs:
                bad('cmd_model_drift', 'MODEL-DRIFT: the model walk gives %s / messages %s, the binary and the reference %s / %s' %
                    (cm.fmt(mod.files | mod.links | mod.dirs), sorted(mod.msgs - ref.msgs)[:3], cm.fmt(ref.files | ref.links | ref.dirs),
                     sorted(ref.msgs - mod.msgs)[:3]), no_input=True)
            elif mtab != ctab:
                dk = [k for k in keys if mtab[k] != ctab[k]]
                bad('cmd_model_drift', 'MODEL-DRIFT: scan decisions of the model and of elem.c (unit driver) differ on %s' % cm.fmt(dk), no_input=True)
            # the stale temporary content copy is replaced and renamed by the save
            t0 = sc.trees[sc.disks[0]]
            if (b'content.tmp', 'f') in t0:
                t0.remove((b'content.tmp', 'f'))
        ref_files, ref_links, ref_dirs = ref.files, ref.links, ref.dirs
        elems = [(d, s, 'f') for d, s in sorted(ref_files)] + [(d, s, 'l') for d, s in sorted(ref.symlinks)] + \
                [(d, s, 'h') for d, s in sorted(ref.hardlinks)] + [(d, s, 'd') for d, s in sorted(ref_dirs)]
        sizes = {}
        for d, s in ref_files:
            sizes[(d, s)] = os.path.getsize(os.path.join(root.encode(), d, s))

        has_blocks = any(v > 0 for v in sizes.values())
        pnames = [b'parity', b'2-parity']

        def unmatched_disk_option(dpat):
            return [p for p in dpat if not any(g.ref_match(p, n, False) for n in sc.disks + pnames)]

        # ---- check -v -f/-d : which files are processed
        fpat, dpat = sc.sel[0]
        if unmatched_disk_option(dpat):
            # state.c:470-500: a -d option that selects no disk at all is an error
            rc, out = cm.run_tool(tool, root, ['check'] + [x for p in fpat for x in ('-f', p)] + [x for p in dpat for x in ('-d', p)])
            cnt['disk_option_unmatched'] += 1
            if rc == 0 or b"doesn't match any" not in out:
                bad('cmd_disk_unmatched', 'check -d %s: no disk has such a name, the command must refuse; exit %d' % (dpat, rc),
                    {'output': out.decode('latin1')[-400:]})
        elif fpat or dpat:
            args = ['check', '-v']
            for p in fpat:
                args += ['-f', p]
            for p in dpat:
                args += ['-d', p]
            log = os.path.join(root, 'check.log')
            rc, out = cm.run_tool(tool, root, args, log=log)
            lg = cm.parse_log(log)
            got = set(lg.get('status_correct', []))
            exp_ref = set()
            noclaim = False
            for d, s, k in elems:
                if k == 'f' and sizes[(d, s)] > 0:
                    r = cm.ref_selected(sc, fpat, dpat, d, s, False)
                    if r is None:
                        noclaim = True
                    elif r:
                        exp_ref.add((d, s))
            sl = [cm.sel_line(fpat, dpat, 0, 0, k, 1, 0, d, s) for d, s, k in elems]
            so = run_lines(model, sl, shards=1)
            exp_mod = set((d, s) for (d, s, k), o in zip(elems, so) if k == 'f' and o == '0' and sizes[(d, s)] > 0)
            cnt['check_selections'] += 1
            cnt['check_selected_files'] += len(got)
            cnt['check_unselected_files'] += len([1 for d, s, k in elems if k == 'f']) - len(got)
            if rc != 0:
                bad('cmd_check', 'check %s failed with exit %d' % (args, rc), {'output': out.decode('latin1')[-400:]})
            elif not noclaim and got != exp_ref:
                bad('cmd_check_sel', 'check -f %s -d %s processed %s, the documented selection is %s' % (fpat, dpat, cm.fmt(got), cm.fmt(exp_ref)),
                    {'processed': cm.fmt(got), 'expected': cm.fmt(exp_ref)})
            elif got != exp_mod:
                bad('cmd_check_model_drift', 'MODEL-DRIFT: state_filter model selects %s, check processed %s' % (cm.fmt(exp_mod), cm.fmt(got)), no_input=True)

        # ---- everything lost, fix with a selection: what is recreated, and nothing else
        fpat, dpat = sc.sel[1]
        if unmatched_disk_option(dpat):
            dpat = [p for p in dpat if p not in unmatched_disk_option(dpat)]
        if not has_blocks:
            # fix returns at once on an array without any data block (nothing to do with the filters)
            cnt['fix_skipped_empty_array'] += 1
            return problems, cnt
        cm.wipe_data(root, sc)
        args = ['fix']
        for p in fpat:
            args += ['-f', p]
        for p in dpat:
            args += ['-d', p]
        log = os.path.join(root, 'fix.log')
        rc, out = cm.run_tool(tool, root, args, log=log)
        lg = cm.parse_log(log)
        got = set(lg.get('status_recovered', []))
        exp_ref = set()
        noclaim = False
        for d, s, k in elems:
            r = cm.ref_selected(sc, fpat, dpat, d, s, k == 'd')
            if r is None:
                noclaim = True
            elif r:
                exp_ref.add((d, s))
        sl = [cm.sel_line(fpat, dpat, 0, 0, k, 0, 0, d, s) for d, s, k in elems]
        so = run_lines(model, sl, shards=1) if elems else []
        exp_mod = set((d, s) for (d, s, k), o in zip(elems, so) if o == '0')
        present = cm.fs_present(root, sc)
        exp_present = set((d, s) for d, s in exp_ref if (d, s) not in ref_dirs)
        # a selected hard link whose file is not selected cannot be recreated (its target does not exist): no claim on it
        loose = set((d, s) for (d, s), to in ref.hardlinks.items() if (d, to) not in exp_ref)
        if loose:
            cnt['fix_hardlinks_without_claim'] += len(loose)
            got, exp_ref, exp_mod, present, exp_present = got - loose, exp_ref - loose, exp_mod - loose, present - loose, exp_present - loose
        cnt['fix_selections'] += 1
        cnt['fix_recreated'] += len(got)
        cnt['fix_left_alone'] += len(elems) - len(got)
        if rc != 0 and not loose:
            bad('cmd_fix', 'fix %s failed with exit %d' % (args, rc), {'output': out.decode('latin1')[-400:]})
        elif not noclaim and got != exp_ref:
            bad('cmd_fix_sel', 'fix -f %s -d %s recreated %s, the documented selection is %s' % (fpat, dpat, cm.fmt(got), cm.fmt(exp_ref)),
                {'recreated': cm.fmt(got), 'expected': cm.fmt(exp_ref)})
        elif not noclaim and present != exp_present:
            bad('cmd_fix_written', 'after fix -f %s -d %s the disks hold %s, the selection is %s: something outside the selection was written '
                'or something selected is missing' % (fpat, dpat, cm.fmt(present), cm.fmt(exp_present)))
        elif got != exp_mod:
            bad('cmd_fix_model_drift', 'MODEL-DRIFT: state_filter model selects %s, fix recreated %s' % (cm.fmt(exp_mod), cm.fmt(got)), no_input=True)

        # ---- fix -m : only what is missing
        if loose:
            rc = 0
        if rc == 0 and elems:
            # restore everything, then lose a subset
            rc2, out2 = cm.run_tool(tool, root, ['fix'])
            import random
            r2 = random.Random(sc.rngstate)
            lost = set(e for e in elems if r2.random() < 0.4)
            for d, s, k in sorted(lost, key=lambda e: -len(e[1])):
                p = os.path.join(root.encode(), d, s)
                if k == 'd':
                    if os.path.isdir(p):
                        os.rmdir(p)
                elif os.path.lexists(p):
                    os.remove(p)
            # the symlinks that stay are put in every state a present link can have: untouched (valid or dangling), re-targeted to
            # something that exists, re-targeted to nothing: -m selects what is MISSING, a present link is never rewritten
            link_now = {}
            for d, s, k in elems:
                if k != 'l' or (d, s, k) in lost:
                    continue
                p = os.path.join(root.encode(), d, s)
                if not os.path.islink(p):
                    continue
                st = r2.random()
                if st < 0.3:
                    os.remove(p)
                    os.symlink(b'no/such/place-%d' % len(link_now), p)
                    cnt['fix_missing_links_retargeted_dangling'] += 1
                elif st < 0.55:
                    os.remove(p)
                    os.symlink(root.encode() + b'/conf', p)
                    cnt['fix_missing_links_retargeted_valid'] += 1
                else:
                    cnt['fix_missing_links_untouched_' + ('valid' if os.path.exists(p) else 'dangling')] += 1
                link_now[(d, s)] = os.readlink(p)
            log = os.path.join(root, 'fixm.log')
            rc3, out3 = cm.run_tool(tool, root, ['fix', '-m'], log=log)
            link_after = {(d, s): (os.readlink(os.path.join(root.encode(), d, s)) if os.path.islink(os.path.join(root.encode(), d, s)) else None)
                          for d, s in link_now}
            lg = cm.parse_log(log)
            got = set(lg.get('status_recovered', []))
            exp = set((d, s) for d, s, k in lost)
            sl = [cm.sel_line([], [], 1, 0, k, 0 if (d, s, k) in lost else 1, 0, d, s) for d, s, k in elems]
            so = run_lines(model, sl, shards=1)
            exp_mod = set((d, s) for (d, s, k), o in zip(elems, so) if o == '0')
            cnt['fix_missing_runs'] += 1
            cnt['fix_missing_recreated'] += len(got)
            if rc2 != 0 or rc3 != 0:
                bad('cmd_fixm', 'fix / fix -m failed with exit %d / %d' % (rc2, rc3), {'output': out3.decode('latin1')[-400:]})
            elif got != exp:
                bad('cmd_fixm_sel', 'fix -m recreated %s, missing were %s' % (cm.fmt(got), cm.fmt(exp)), {'lost': cm.fmt(exp), 'recreated': cm.fmt(got)})
            elif link_after != link_now:
                ch = sorted(k for k in link_now if link_now[k] != link_after[k])
                bad('cmd_fixm_link', 'fix -m rewrote the symbolic links %s, which are present on the disk (not missing): %s' %
                    (cm.fmt(ch), [(link_now[k], link_after[k]) for k in ch][:3]), {'lost': cm.fmt(exp)})
            elif got != exp_mod:
                bad('cmd_fixm_model_drift', 'MODEL-DRIFT: state_filter model (-m) selects %s, fix -m recreated %s' % (cm.fmt(exp_mod), cm.fmt(got)), no_input=True)
        # ---- -e : silently corrupt some files, let scrub mark the blocks bad, then check -e must look at exactly those files
        nonempty = sorted(k for k, v in sizes.items() if v > 0)
        if rc == 0 and nonempty:
            import random
            r3 = random.Random(sc.rngstate + 1)
            rc4, out4 = cm.run_tool(tool, root, ['fix'])
            hit = set(k for k in nonempty if r3.random() < 0.35) or {nonempty[0]}
            for d, s in hit:
                p = os.path.join(root.encode(), d, s)
                st = os.lstat(p)
                with open(p, 'r+b') as f:
                    f.seek(st.st_size - 1)
                    b = f.read(1)
                    f.seek(st.st_size - 1)
                    f.write(bytes([b[0] ^ 0x55]))
                os.utime(p, ns=(st.st_atime_ns, st.st_mtime_ns))
            rc5, out5 = cm.run_tool(tool, root, ['scrub', '-p', 'full'])
            # bad marks are per stripe: a file that shares a stripe with a corrupted block of the other disk also "has a bad block".
            # the tool's own view (-e alone) gives e_has_bad; the corrupted files must be exactly the recoverable ones
            log = os.path.join(root, 'checke0.log')
            rc6, out6 = cm.run_tool(tool, root, ['check', '-e', '-v'], log=log)
            lg = cm.parse_log(log)
            rec_all = set(lg.get('status_recoverable', []))
            cor_all = set(lg.get('status_correct', []))
            fpat = sc.sel[0][0][:1]
            args = ['check', '-e', '-v'] + [x for p in fpat for x in ('-f', p)]
            log = os.path.join(root, 'checke.log')
            rc7, out7 = cm.run_tool(tool, root, args, log=log)
            lg = cm.parse_log(log)
            got = set(lg.get('status_recoverable', [])) | set(lg.get('status_correct', [])) | set(lg.get('status_unrecoverable', []))
            hasbad = rec_all | cor_all
            exp = set()
            noclaim = False
            for d, s in hasbad:
                r = cm.ref_selected(sc, fpat, [], d, s, False)
                if r is None:
                    noclaim = True
                elif r:
                    exp.add((d, s))
            sl = [cm.sel_line(fpat, [], 0, 1, k, 1, 1 if (d, s) in hasbad else 0, d, s) for d, s, k in elems]
            so = run_lines(model, sl, shards=1)
            exp_mod = set((d, s) for (d, s, k), o in zip(elems, so) if k == 'f' and o == '0' and sizes[(d, s)] > 0)
            cnt['check_error_runs'] += 1
            cnt['check_error_selected'] += len(got)
            cnt['check_error_unselected'] += len(nonempty) - len(got)
            cnt['check_error_files_without_bad_block'] += len(nonempty) - len(hasbad)
            if rc4 != 0 or b'marked as bad' not in out5:
                bad('cmd_scrub', 'restore/scrub before the -e test did not behave (fix exit %d, scrub exit %d)' % (rc4, rc5),
                    {'output': out5.decode('latin1')[-400:]}, no_input=True)
            elif rec_all != hit:
                bad('cmd_check_err', 'check -e reports %s as recoverable, the silently corrupted files are %s' % (cm.fmt(rec_all), cm.fmt(hit)),
                    {'corrupted': cm.fmt(hit)})
            elif not noclaim and got != exp:
                bad('cmd_check_err_sel', 'check -e -f %s looked at %s; the files with bad blocks are %s, of which the selection holds %s' %
                    (fpat, cm.fmt(got), cm.fmt(hasbad), cm.fmt(exp)), {'corrupted': cm.fmt(hit)})
            elif got != exp_mod:
                bad('cmd_check_err_model_drift', 'MODEL-DRIFT: state_filter model (-e) selects %s, check -e processed %s' % (cm.fmt(exp_mod), cm.fmt(got)), no_input=True)
    except Exception as e:   # harness failure must not pass silently
        import traceback
        bad('cmd_harness', 'harness error in scenario: %s' % traceback.format_exc()[-800:], no_input=True)
    finally:
        shutil.rmtree(root, ignore_errors=True)
    return problems, cnt


def run_refusals(tool, model, base, rng, thorough):
    """rule texts the documentation does not allow (configuration and command line), selection options on commands that
    do not take them, -e with -d: every one must be refused, and nothing on disk may change.  -> (problems, counters)"""
    import c18_dmg as dm
    root = os.path.join(base, 'refuse')
    problems = []
    cnt = collections.Counter()
    for x in ('d1/a', 'd2', 'p', 'q', 'c'):
        os.makedirs(os.path.join(root, x))
    for nm, txt in (('d1/a/x.c', b'x' * 700), ('d1/y', b'y' * 1500), ('d2/z.c', b'z' * 100)):
        open(os.path.join(root, nm), 'wb').write(txt)
    base_conf = 'blocksize 1\nparity %s/p/parity\n2-parity %s/q/parity2\ncontent %s/c/content\ndata d1 %s/d1\ndata d2 %s/d2\n' % ((root,) * 5)
    open(os.path.join(root, 'conf'), 'w').write(base_conf)
    rc, out = cm.run_tool(tool, root, ['sync'])
    if rc != 0:
        return [('refuse_setup', 'sync failed on the plain array of the refusal family', {'output': out.decode('latin1')[-300:]}, True)], cnt

    def snap():
        d = dm.snapshot(root)
        d['c/content'] = open(os.path.join(root, 'c/content'), 'rb').read()
        return d
    before = snap()

    def expect_refusal(tag, args, needle, why, conf_extra=None):
        if conf_extra is not None:
            open(os.path.join(root, 'conf'), 'wb').write(base_conf.encode() + conf_extra)
        rc, out = cm.run_tool(tool, root, args)
        if conf_extra is not None:
            open(os.path.join(root, 'conf'), 'w').write(base_conf)
        after = snap()
        cnt['refusals'] += 1
        cnt['refusals_' + tag] += 1
        rep = {'command': [a.decode('latin1') if isinstance(a, bytes) else a for a in args],
               'configuration_lines_added': conf_extra.decode('latin1') if conf_extra else None, 'output': out.decode('latin1')[-400:]}
        if rc == 0 or needle not in out:
            problems.append(('refuse_' + tag, '%s: %s must be refused (%s); exit %d' % (' '.join(rep['command']), rep['configuration_lines_added'] or '', why, rc), rep, False))
        elif after != before:
            problems.append(('refuse_' + tag, '%s is refused but changed %s' % (' '.join(rep['command']), sorted(k for k in set(before) | set(after) if before.get(k) != after.get(k))), rep, False))

    # ---- rule texts: the reference (documented forms) and the model decide which are rejected
    texts = [b'..', b'.', b'...', b'a/b', b'a/b/', b'./a', b'/a/../b', b'/a//b', b'//', b'a//', b'/.', b'/./', b'/a/.', b'/a/...', b'*/x', b'../x.c',
             b'/..', b'x/./', b'tmp/../', b'/a/./b/']
    rng.shuffle(texts)
    texts = texts if thorough else texts[:10]
    mo = run_lines(model, ['parse %s' % hx(t) for t in texts], shards=1)
    for t, m in zip(texts, mo):
        try:
            g.RefRule(True, t)
            rejected = False
        except ValueError:
            rejected = True
        if not rejected:
            continue
        if m != 'none':
            problems.append(('refuse_model_drift', 'MODEL-DRIFT: filter_parse accepts %r, the documented forms do not' % t, {'rule_text': t.decode('latin1')}, True))
        kw = rng.choice([b'exclude', b'include'])
        expect_refusal('config_rule', [rng.choice(['sync', 'list', 'check', 'diff'])], b"Invalid '" + kw + b"' specification",
                       'not one of FILE, DIR/, /PATH/FILE, /PATH/DIR/', conf_extra=kw + b' ' + t + b'\n')
        expect_refusal('option_f', [rng.choice(['check', 'fix']), '-f', t], b'Invalid filter specification', 'not one of the documented pattern forms')
    for kw in (b'exclude', b'include'):
        expect_refusal('config_empty_rule', ['list'], b"Empty '" + kw + b"' specification", 'a rule without a pattern', conf_extra=kw + b'\n')
    expect_refusal('option_d', ['check', '-d', b'd1/a'], b'Invalid filter specification', 'a disk name holds no slash')
    expect_refusal('option_d', ['fix', '-d', b'nodisk'], b"doesn't match any", 'no disk has such a name')
    # ---- selection options belong to check and fix only (-d also to up/down); -e excludes -d
    for cmd, opt, needle in (('sync', ['-f', b'*.c'], b'You cannot use -f'), ('scrub', ['-f', b'a/'], b'You cannot use -f'),
                             ('sync', ['-d', b'd1'], b'You cannot use -d'), ('scrub', ['-d', b'd1'], b'You cannot use -d'),
                             ('sync', ['-m'], b'You cannot use -m'), ('status', ['-m'], b'You cannot use -m'),
                             ('sync', ['-e'], b'You cannot use -e'), ('list', ['-e'], b'You cannot use -e'),
                             ('list', ['-f', b'*.c'], b'You cannot use -f'), ('diff', ['-d', b'd1'], b'You cannot use -d'),
                             ('check', ['-e', '-d', b'd1'], b'simultaneously'), ('fix', ['-b', '-d', b'd2'], b'simultaneously')):
        expect_refusal('misplaced_option', opt + [cmd], needle, 'the manual allows this option only with check and fix')
    shutil.rmtree(root, ignore_errors=True)
    return problems, cnt


FINDING_CONTENT = 'C18-content-path-compared-textually'


def replay_content_witness(tool, base):
    """witness of C18_content_excluded_refuted on the real binary: a content file on a data disk, spelled
    <data dir>/./content in the configuration, ends up in the array.  -> (reproduced, detail)"""
    import subprocess
    root = os.path.join(base, 'witness')
    for d in ('d1/a', 'd2', 'p', 'c'):
        os.makedirs(os.path.join(root, d))
    open(os.path.join(root, 'd1/a/x'), 'w').write('x\n')
    open(os.path.join(root, 'd2/y'), 'w').write('y\n')
    out = {}
    for name, spelled in (('canonical', '%s/d1/content' % root), ('dot', '%s/d1/./content' % root)):
        for f in ('p/parity', 'c/content', 'd1/content'):
            try:
                os.remove(os.path.join(root, f))
            except FileNotFoundError:
                pass
        open(os.path.join(root, 'conf'), 'w').write(
            'blocksize 1\nparity %s/p/parity\ncontent %s/c/content\ncontent %s\ndata d1 %s/d1\ndata d2 %s/d2\n' % (root, root, spelled, root, root))
        rcs = [cm.run_tool(tool, root, ['sync'])[0] for _ in range(3)]
        log = os.path.join(root, 'w.log')
        cm.run_tool(tool, root, ['list'], log=log)
        files = set(cm.parse_log(log).get('file', []))
        out[name] = {'sync_exit_codes': rcs, 'array': cm.fmt(files), 'content_line': 'content ' + spelled.replace(root, '<root>')}
    shutil.rmtree(root, ignore_errors=True)
    rep = (b'd1', b'content') in set((d.encode(), s.encode()) for d, s in (x.split(':', 1) for x in out['dot']['array']))
    ok_canon = 'd1:content' not in out['canonical']['array'] and out['canonical']['sync_exit_codes'] == [0, 0, 0]
    return rep, ok_canon, out


def load_corpus():
    cases = []
    d = os.path.join(VERIF, 'corpus', 'C18')
    for p in sorted(globmod.glob(os.path.join(d, '*.json'))):
        try:
            j = json.load(open(p))
        except Exception:
            continue
        for c in j.get('fnm', []):
            cases.append((int(c[0]), c[1].encode('latin1'), c[2].encode('latin1'), {'boundary'}))
    return cases


def main(tier, replay=None):
    chk = Check('C18', tier, 'proof')
    del DRIFTS[:]
    thorough = tier == 'thorough'
    snap = snapshot_repo()
    regen_msgs = regen(snap)
    try:
        drv = build_driver(snap, 'c18_drv.c', DRV_SRCS, 'c18_drv', libs=['-lblkid'])
        tool = build_tool(snap)
    except BuildError as e:
        chk.violation('build', 'working tree does not build: ' + str(e)[:500], {'error': str(e)}, no_input=True)
        return chk.finish()

    ob = check_obligations('C18')
    proof_coverage(chk, ob, 'make -f Makefile.coq -k Props/Properties_C18.vo (coqc 8.16.1, full .vo) + Print Assumptions', TRUSTED)
    chk.assumptions = ASSUMPTIONS
    try:
        model = build_model('Extract/Extract_C18.vo', 'ocaml/C18', 'c18_ext', 'driver.ml', 'model')
    except BuildError as e:
        chk.violation('model_build', 'extracted model does not build: ' + str(e)[:500], {'error': str(e)}, no_input=True)
        return chk.finish()

    stats = collections.Counter()
    rng = chk.rng

    # ---- replay of a recorded input
    if replay:
        j = json.load(open(replay))['replay']
        if 'pattern_hex' in j:
            p = bytes.fromhex(j['pattern_hex']) if j['pattern_hex'] != '-' else b''
            s_ = bytes.fromhex(j['string_hex']) if j['string_hex'] != '-' else b''
            run_fnm(chk, drv, model, [(j['pathname'], p, s_, set(j.get('classes', [])) - {'boundary'})], stats, 'replay')
        elif 'driver_line' in j:
            t = j['driver_line'].split()
            rules = [(i == 'include', x.encode('latin1')) for i, x in j['rules']]
            run_unit_filters(chk, drv, model, [(t[1], j['disk'].encode('latin1'), j['sub'].encode('latin1'), rules,
                                                j['disk_rule'].encode('latin1') if j.get('disk_rule') else None)], stats)
        elif 'rule_text' in j:
            t = j['rule_text'].encode('latin1')
            for exe in (drv, model):
                print(exe, run_lines(exe, ['parse %s' % hx(t)], shards=1))
        elif j.get('kind') == 'damaged-array selection':
            lay = dm.Layout.from_seed(j['seed'], j.get('idx', 0))
            problems, cnt = dm.run_damage_scenario(tool, model, lay, mkscratch('snapverif.c18cmd.'))
            for tag, what, rep, noinp in problems:
                if noinp and 'model_drift' in tag:
                    drift(tag, what, rep)
                else:
                    chk.violation(tag, what, rep, no_input=noinp)
        elif 'trees' in j:
            sc = cm.Scenario.from_desc(j)
            problems, cnt = run_scenario(tool, model, drv, sc, mkscratch('snapverif.c18cmd.'))
            for tag, what, rep, noinp in problems:
                chk.violation(tag, what, rep, no_input=noinp)
        for tag, what, rep in DRIFTS:
            chk.violation(tag, what, rep, no_input=True)
        chk.cov['evaluations'] = 1
        return chk.finish()

    # ---- corpus and boundary cases first
    fixed = load_corpus() + boundary_fnm_cases()
    run_fnm(chk, drv, model, fixed, stats, 'corpus/boundary')
    stats['fixed_cases'] = len(fixed)

    # ---- generated (pattern, string) pairs
    npat, per = (40000, 5) if thorough else (12000, 4)
    cases = gen_fnm_cases(rng, npat, per)
    run_fnm(chk, drv, model, cases, stats, 'generated')

    # ---- pattern forms
    run_parse(chk, drv, model, rng, stats, 6000 if thorough else 1500)

    # ---- direct calls of filter_path / filter_subdir / filter_emptydir
    ucases = gen_unit_rules(rng, 6000 if thorough else 1500)
    run_unit_filters(chk, drv, model, ucases, stats)

    # ---- command level
    base = mkscratch('snapverif.c18cmd.')
    nsc = 200 if thorough else 48
    scs = [cm.Scenario(rng, i) for i in range(nsc)]
    ccnt = collections.Counter()
    nprob = 0
    with ThreadPoolExecutor(max_workers=min(NCPU, 12)) as ex:
        for (problems, cnt), sc in zip(ex.map(lambda s: run_scenario(tool, model, drv, s, base), scs), scs):
            ccnt.update(cnt)
            for tag, what, rep, noinp in problems:
                if noinp and 'model_drift' in tag:
                    drift('%s_%d' % (tag, sc.idx), what, rep)
                    continue
                nprob += 1
                if nprob <= 4:
                    chk.violation('%s_%d' % (tag, sc.idx), what, rep, no_input=noinp)
    ccnt['scenarios'] = nsc

    # ---- selections on damaged arrays: nothing outside the selection is written (byte snapshots incl. every parity file)
    lays = [dm.Layout(rng, i) for i in range(30 if thorough else 8)]
    ndmg = 0
    with ThreadPoolExecutor(max_workers=min(NCPU, 8)) as ex:
        for (problems, cnt), lay in zip(ex.map(lambda l: dm.run_damage_scenario(tool, model, l, base), lays), lays):
            ccnt.update(cnt)
            for tag, what, rep, noinp in problems:
                if noinp and 'model_drift' in tag:
                    drift('%s_%d' % (tag, lay.idx), what, rep)
                    continue
                ndmg += 1
                if ndmg <= 4:
                    chk.violation('%s_%d' % (tag, lay.idx), what, rep, no_input=noinp)

    # ---- refusals: rejected rule texts in the configuration and on the command line, misplaced selection options
    problems, cnt = run_refusals(tool, model, base, rng, thorough)
    ccnt.update(cnt)
    for tag, what, rep, noinp in problems[:6]:
        if noinp and 'model_drift' in tag:
            drift(tag, what, rep)
        else:
            chk.violation(tag, what, rep, no_input=noinp)

    # ---- the refuted theorem's witness on the real binary
    rep, ok_canon, wout = replay_content_witness(tool, base)
    chk.cov['content_witness'] = {'reproduced': rep, 'detail': wout}
    if not ok_canon:
        chk.violation('content_canonical', 'a content file on a data disk, configured with its plain path, is not skipped by sync: %s' % wout['canonical'], wout)
    if rep:
        what = ("the tool's own content file is NOT skipped when the configuration spells its path differently from <data dir><sub> "
                "(witness: 'content <root>/d1/./content'): it enters the array and every later sync ends with a file error "
                "(exit codes %s); elem.c:341-364 compares text (C18_content_excluded_refuted)" % wout['dot']['sync_exit_codes'])
        if any(k.get('key') == FINDING_CONTENT and k.get('property') == 'C18' and k.get('status') == 'open' for k in chk.kf):
            chk.violation('content_witness', what, wout, finding_key=FINDING_CONTENT)
        else:
            chk.notes.append('FINDING (not registered in known_findings.json, key %s): %s' % (FINDING_CONTENT, what))
    else:
        chk.notes.append('the witness of C18_content_excluded_refuted no longer reproduces on the binary (content /d1/./content is skipped): '
                         'the refuted theorem describes a stale model')

    # ---- model drift: reported when the C side satisfied the reference everywhere (else the concrete inputs above say more)
    if not any(not v[2] for v in chk.violations):
        for tag, what, rep in DRIFTS[:6]:
            chk.violation(tag, what, rep, no_input=True)
    elif DRIFTS:
        chk.notes.append('%d model/C disagreements not listed separately (concrete violating inputs were found)' % len(DRIFTS))

    # ---- obligations
    if ob['failed']:
        found = any(not v[2] for v in chk.violations)
        for fl in ob['failed']:
            chk.violation('obligation', 'proof obligation failed at %s: %s' % (fl['where'], fl['error'][:300]), fl, no_input=not found)
    if ob['axioms']:
        chk.violation('axioms', 'Print Assumptions reports axioms: %s' % ob['axioms'], {'axioms': ob['axioms']}, no_input=True)

    # ---- coverage
    repo_classes = {k[len('repo_vs_libc_'):]: v for k, v in stats.items() if k.startswith('repo_vs_libc_')}
    if repo_classes:
        chk.notes.append('cmdline/fnmatch.c (the fallback used where libc has no fnmatch, e.g. MinGW) differs from libc/model outside the core grammar, '
                         'by pattern class: %s' % json.dumps(repo_classes, sort_keys=True))
    chk.cov['evaluations'] = stats['pairs'] + stats['flt_calls'] + stats['parse_calls'] + ccnt['scan_entries']
    chk.cov['distinct_nontrivial'] = min(stats['libc_match'], stats['libc_nomatch']) + min(stats['flt_0'], stats['flt_1']) + \
        min(ccnt['scan_entries_skipped'], ccnt['scan_entries'] - ccnt['scan_entries_skipped'])
    chk.cov['rule'] = ('distinct_nontrivial = for each layer the size of the smaller outcome class: (pattern,string) pairs that match / do not match, '
                       'direct filter calls that include / exclude, tree entries kept / skipped by sync')
    chk.cov['fnm'] = {k: v for k, v in sorted(stats.items()) if not k.startswith(('flt_', 'parse_'))}
    chk.cov['filters'] = {k: v for k, v in sorted(stats.items()) if k.startswith(('flt_', 'parse_'))}
    chk.cov['command_level'] = dict(sorted(ccnt.items()))
    samples = []
    for pn, p, s, f in cases[:4]:
        samples.append({'fnm': {'pathname': pn, 'pattern': p.decode('latin1'), 'string': s.decode('latin1')}})
    for kind, disk, sub, rules, drule in ucases[:3]:
        samples.append({'filter_call': kind, 'sub': sub.decode('latin1'), 'rules': [[i, t.decode('latin1')] for i, t in rules]})
    for sc in scs[:3]:
        samples.append({'scenario': sc.describe()})
    chk.cov['samples'] = samples
    if regen_msgs:
        chk.notes.append('translator: ' + '; '.join(regen_msgs))
    return chk.finish()
