"""C19 -- move, copy and import shortcuts never accept unverified data.

Scenarios with DECOYS (files sharing name, size and time-stamp with a synced file, but not its content) on other disks,
on the same disk after a rename, in `fix -i` / --test-import-content directories and as duplicates inside the array; with
zero and non-zero nanoseconds, partially hashed and provisional (REP) sources; sync, sync -h, sync -N.
Judges (all independent of the tool's own bookkeeping):
  * the harness computes the hash of every block itself (--test-force-murmur3 + its own MurmurHash3): a block recorded BLK
    must carry the hash of the bytes on disk  ->  a decoy can never be `synced` under inherited hashes;
  * a sync that meets a decoy under inherited hashes must fail (exit status, error: tag) and leave the blocks un-synced;
    with -h not a single parity byte may change; with -N nothing is inherited and the sync succeeds;
  * C06's map and parity oracles after every sync;
  * after fix, a lost file is back with exactly its recorded bytes or is reported -- never decoy bytes;
and the model tie of check_C11 (scan model + sync loop + pre-hash model predict content and exit status of every sync)."""
import os, sys, json, shutil, random
from common import *
from arraylib import *
from c11_lib import *
import c11_model

MSIZES = [1, 1024, 1025, 2048, 2500, 3072, 4100]


class Scn:
    def __init__(self, chk, binary, shim, model, rng, cfg):
        self.chk, self.rng, self.cfg, self.model = chk, rng, cfg, model
        self.w = World(binary, shim, rng, nd=cfg['nd'], np_=cfg['np'], order=cfg['order'], fake_uuid=cfg['uuid'], multi=False, where=cfg['where'], murmur=True)
        self.ncmd = self.nmodel = 0
        self.stats = {}
        self.pending_drift = None
        self.obs = None
        self.trusted = set()     # (disk, sub) whose identity (inode/path + size + time-stamp) is unchanged by design: not re-read
        self.ok = True

    def bad(self, tag, what, **kw):
        self.ok = False
        self.chk.violation(tag, what, {'config': self.cfg, 'history': self.w.log, **kw})

    def drift(self, tag, what, **kw):
        self.ok = False
        self.chk.violation(tag, 'MODEL-DRIFT: ' + what, {'config': self.cfg, 'history': self.w.log, **kw}, no_input=True)

    def count(self, k):
        self.stats[k] = self.stats.get(k, 0) + 1

    # -------------------------------------------------------------------------------------------------
    def sync(self, *opts, nocopy=False, prehash=False, nokill=False, real_opts=(), untied=False):
        """a sync with the model tie; returns (Result, content after) or (None, None) after a violation"""
        w = self.w
        if self.model and self.ok and c11_model.flush_drift(self):     # the previous sync passed every oracle: MODEL-DRIFT
            return None, None
        w.sync_store()
        st0 = w.content()
        lst = w.listing()
        if self.model and not untied:
            r = c11_model.sync_with_model(self, st0, lst, list(opts), nocopy=nocopy, prehash=prehash, nokill=nokill, real_opts=real_opts)
            if r is False:
                return None, None
        else:
            # options the sync model does not cover (-F, -R): judged by the oracles only
            r = w.run('sync', *(list(opts) + (['-N'] if nocopy else []) + (['-h'] if prehash else []) + list(real_opts))); self.ncmd += 1
        st = w.content()
        return r, st

    def judge(self, st, what):
        """oracles that must hold after EVERY sync, successful or not"""
        w, a = self.w, self.w.arr
        if st is None:
            return True
        errs = a.check_map(st)
        perr, n = a.check_parity(st)
        for e in (errs + perr)[:2]:
            self.bad('c06_oracle', 'after %s: %s' % (what, e))
            return False
        he = [e for e in w.hash_errors(st) if not any(e.startswith('%s:%s ' % t) for t in self.trusted)]
        if he:
            self.bad('unverified_blk', 'after %s: %s' % (what, he[0]), errors=he[:5])
            return False
        return True

    def all_blk(self, st):
        return all(b[0] == 'BLK' for dd in st['disks'].values() for f in dd['files'] for b in f['blocks']) and not any(dd['deleted'] for dd in st['disks'].values())

    def entry(self, st, d, sub):
        for f in st['disks'].get(d, {'files': []})['files']:
            if f['sub'].decode('latin1') == sub:
                return f
        return None

    def plant(self, d, sub, like_d, like_sub, decoy=True):
        """a file with the size and time-stamp of (like_d, like_sub): its true copy, or a decoy with other content"""
        w = self.w
        src = w.p(like_d, like_sub)
        s = os.stat(src)
        data = open(src, 'rb').read()
        if decoy:
            # every byte differs from the source (a random tail could equal a 1-byte last block by chance, and that block
            # would then be verified and legitimately BLK: seed 22 of the first sweep)
            data = bytes((x ^ w.rng.randint(1, 255)) for x in data)
        w.write(d, sub, data, s.st_mtime_ns)
        w.log.append(['plant-decoy' if decoy else 'plant-copy', d, sub, 'like', like_d, like_sub])

    def base_tree(self, nsec_zero):
        """a few synced files; returns (disk, sub) of the one that will be imitated"""
        w, rng = self.w, self.rng
        for i in range(rng.randint(1, 3)):
            w.write('d%d' % rng.randint(1, w.arr.nd), rng.choice(['f0', 'dx/f1', 'f2']), rng.randbytes(rng.choice(MSIZES)))
        sub = rng.choice(['a', 'da/a', 'da/in/a'])
        w.write('d1', sub, rng.randbytes(0 if self.cfg.get('empty_source') else rng.choice(MSIZES)), w.stamp(zero_ns=nsec_zero))
        w.log.append(['source', 'd1', sub, 'nsec0' if nsec_zero else 'nsec'])
        return 'd1', sub

    # ------------------------------------------------------------------------------------------------- scenarios
    def copy_decoy(self, variant, nsec_zero, same_path, decoy):
        """a decoy (or a true copy) of a synced file appears on another disk"""
        w, a = self.w, self.w.arr
        sd, ssub = self.base_tree(nsec_zero)
        r, st = self.sync()
        if r is None or not self.judge(st, 'the initial sync'):
            return
        if r.rc != 0:
            return self.bad('sync_fails', 'the initial sync fails: %s' % r.err[-200:])
        td = 'd2'
        other_name = self.cfg.get('other_name', False)
        tsub = ssub if same_path else self.rng.choice(['other/', 'zz/', '']) + ssub.rsplit('/', 1)[-1]
        if other_name:       # same size and time-stamp, ANOTHER name: never a copy
            tsub = self.rng.choice(['other/', '']) + 'q' + ssub.rsplit('/', 1)[-1]
        if (td, tsub) == (sd, ssub) or os.path.lexists(w.p(td, tsub)):
            tsub = 'other2/' + ssub.rsplit('/', 1)[-1]
            same_path = False
        self.plant(td, tsub, sd, ssub, decoy=decoy)
        # the rule of the property statement / DESIGN: name (or, with zero nanoseconds, path) + size + time-stamp of a fully hashed file
        expect_copy = ((tsub == ssub) or not nsec_zero) and not other_name and not self.cfg.get('empty_source')     # a file without blocks has no hashes to inherit
        r = w.run('diff'); self.ncmd += 1
        cnt = counters(r)
        if r.rc != 2 or cnt['copied'] != (1 if expect_copy else 0) or cnt['added'] != (0 if expect_copy else 1):
            return self.bad('copy_rule', 'a file with the %s, size and time-stamp (nanoseconds %s) of a synced file on another disk is reported %s (expected %s)'
                            % ('path' if tsub == ssub else 'name', 'zero' if nsec_zero else 'non-zero', cnt, 'copied' if expect_copy else 'added'))
        self.count('copy_detected' if expect_copy else 'copy_not_detected')
        must_fail = expect_copy and decoy
        if variant == 'nocopy':
            r, st = self.sync(nocopy=True)
            if r is None or not self.judge(st, 'sync -N'):
                return
            if r.rc != 0 or not self.all_blk(st):
                return self.bad('nocopy_fails', 'sync --force-nocopy exits %d / leaves unsynced blocks with a %s present' % (r.rc, 'decoy' if decoy else 'copy'))
            return self.final_check()
        before = a.snapshot_all()['parity'] if variant == 'prehash' else None
        combo, ropts, untied, rng_opts = '', [], False, []
        if variant == 'prehash':
            # -h -N is refused by the option validation: a refusal changes nothing
            snap0 = a.snapshot_all()
            rr = w.run('sync', '-h', '-N'); self.ncmd += 1
            snap1 = a.snapshot_all()
            if rr.rc == 0 or snap0['parity'] != snap1['parity'] or snap0['content'] != snap1['content']:
                return self.bad('prehash_nocopy_accepted', 'sync -h -N exits %d (the two options exclude each other) or changed parity/content' % rr.rc)
            if self.rng.random() < 0.3:       # -D belongs to fix/check: with sync it is a refusal too, also next to -h
                rr = w.run('sync', '-h', '-D'); self.ncmd += 1
                snap1 = a.snapshot_all()
                if rr.rc == 0 or snap0['parity'] != snap1['parity'] or snap0['content'] != snap1['content']:
                    return self.bad('prehash_forcedevice_accepted', 'sync -h -D exits %d (-D is not a sync option) or changed parity/content' % rr.rc)
            # every option the tool accepts together with -h: the hashing phase must run, and stop everything, under each of them
            combos = ['-F', '', '-R', '-F -U', '-B', '-U', '-F -B', '-S', '-R -U', '-F', '-S -B', '']
            combo = combos[(self.cfg.get('i', 0) // 12) % len(combos)] if 'i' in self.cfg else self.rng.choice(combos)
            # something else is pending in other stripes: a sync that went on would have parity to write
            w.write(td, 'zzz_first', self.rng.randbytes(self.rng.choice(MSIZES)))
            for o_ in combo.split():
                if o_ == '-B':
                    rng_opts += ['-B', str(self.rng.randint(1, 6))]
                elif o_ == '-S':
                    rng_opts += ['-S', str(self.rng.randint(0, 3))]
                else:
                    ropts.append(o_)
            untied = '-F' in ropts or '-R' in ropts
            self.count('prehash_with_' + (combo.replace(' ', '') or 'nothing'))
        r, st = self.sync(*rng_opts, prehash=(variant == 'prehash'), real_opts=ropts, untied=untied)
        if r is None or not self.judge(st, 'sync' + (' -h ' + combo if variant == 'prehash' else '')):
            return
        f = self.entry(st, td, tsub)
        if must_fail and rng_opts:
            # a range: the hashing phase looks only at the blocks of the range; the decoy stops the sync when one of its blocks is inside
            start = int(rng_opts[rng_opts.index('-S') + 1]) if '-S' in rng_opts else 0
            end = start + int(rng_opts[rng_opts.index('-B') + 1]) if '-B' in rng_opts else 10**9
            if f is None or not any(start <= b[1] < end for b in f['blocks']):
                if f is not None and any(b[0] == 'BLK' for b in f['blocks'] if not (start <= b[1] < end)):
                    return self.bad('decoy_blk', 'blocks of %s:%s outside the synced range became BLK' % (td, tsub))
                self.count('prehash_decoy_outside_range')
                return
        if must_fail:
            self.count('decoy_refused_' + variant)
            tags = [t for t in r.tag('error:') if ':%s:%s:' % (td, tsub) in t and 'Unexpected data change' in t]
            if r.rc == 0 or not tags:
                return self.bad('decoy_accepted', 'sync%s exits %d with error tags %s although %s:%s carries inherited hashes that are not the hashes of its data'
                                % (' -h ' + combo if variant == 'prehash' else '', r.rc, r.tag('error:')[:2], td, tsub))
            if f is None or any(b[0] == 'BLK' for b in f['blocks']):
                return self.bad('decoy_blk', 'after the refused sync %s:%s has blocks recorded as synced: %s' % (td, tsub, f and [b[0] for b in f['blocks']]))
            if variant == 'prehash':
                after = a.snapshot_all()['parity']
                if any((before[k] or b'') != (after[k] or b'') for k in before):
                    return self.bad('prehash_parity', 'sync -h %s met a decoy in the hashing phase (exit %d) but parity bytes changed' % (combo, r.rc))
                # nothing may have become BLK in this run
            if variant == 'plain' and self.cfg.get('i', 0) % 4 == 0:
                # OBSERVATION (not a C19 violation: nothing is recorded as synced, and what fix takes from the duplicate does match the
                # recorded -- inherited -- hash): after the refused sync the provisional hashes are in the content file, and check / fix
                # take them for the truth about the user's distinct, never synced file
                mine = open(w.p(td, tsub), 'rb').read()
                theirs = open(w.p(sd, ssub), 'rb').read()
                rc_ = w.run('check'); self.ncmd += 1
                rf = w.run('fix'); self.ncmd += 1
                now = open(w.p(td, tsub), 'rb').read() if os.path.isfile(w.p(td, tsub)) else None
                self.count('obs_fix_after_refused_copy')
                if now == theirs and now != mine:
                    self.count('obs_fix_overwrote_unsynced_file_with_the_source_of_its_inherited_hashes')
                    self.obs = 'after a sync refused a decoy copy (%s:%s, inherited REP hashes saved), check exits %d calling the file recoverable and a plain fix exits %d and OVERWRITES the user\'s distinct unsynced file with the bytes of %s:%s' % (td, tsub, rc_.rc, rf.rc, sd, ssub)
                return
            # a second attempt must not accept it either: the provisional hashes survived the refused sync, now LOADED from the
            # content file (the COPY flag of the first scan is gone); with -h again, and another change pending in other
            # stripes, still no parity byte may change
            again_h = variant == 'prehash'
            if again_h:
                w.write(td, 'zzz_pending', self.rng.randbytes(self.rng.choice(MSIZES)))
                st_l = w.content()
                fl = self.entry(st_l, td, tsub)
                if fl is not None and all(b[0] == 'REP' for b in fl['blocks']):
                    self.count('loaded_rep_prehash')
                before = a.snapshot_all()['parity']
            r, st = self.sync(prehash=again_h)
            if r is None or not self.judge(st, 'the second sync'):
                return
            if again_h:
                after = a.snapshot_all()['parity']
                if any((before[k] or b'') != (after[k] or b'') for k in before):
                    return self.bad('prehash_parity_2', 'a second sync -h met the decoy (provisional hashes loaded from the content file) in the hashing phase, exit %d, but parity bytes changed' % r.rc)
            f = self.entry(st, td, tsub)
            if r.rc == 0 or f is None or any(b[0] == 'BLK' for b in f['blocks']):
                return self.bad('decoy_accepted_2', 'the second sync exits %d and records %s' % (r.rc, f and [b[0] for b in f['blocks']]))
            # way out 1: --force-nocopy; way out 2: the file really becomes the copy; way out 3: the file goes away
            k = self.rng.random()
            if k < 0.4:
                r, st = self.sync(nocopy=True)
            elif k < 0.6:
                os.unlink(w.p(td, tsub)); w.log.append(['delete', td, tsub])
                r, st = self.sync()
            else:
                self.plant(td, tsub, sd, ssub, decoy=False)
                r, st = self.sync()
            if r is None or not self.judge(st, 'the recovery sync'):
                return
            if r.rc != 0 or not self.all_blk(st):
                return self.bad('recovery_fails', 'after removing the cause the sync exits %d' % r.rc)
        else:
            if rng_opts and r.rc == 0:
                r, st = self.sync()           # the range left work: finish it
                if r is None or not self.judge(st, 'the completing sync'):
                    return
            if r.rc != 0 or not self.all_blk(st):
                return self.bad('sync_fails', 'sync%s exits %d / leaves unsynced blocks although every file can be read and verified' % (' -h ' + combo if variant == 'prehash' else '', r.rc),
                                err=r.err[-400:])
        return self.final_check()

    def final_check(self):
        r = self.w.run('check'); self.ncmd += 1
        if r.rc != 0 or r.tag('error:'):
            self.bad('check_errors', 'check after the final successful sync exits %d: %s' % (r.rc, r.tag('error:')[:2]))

    def rename_decoy(self, nsec_zero):
        """same disk: a synced file is renamed into another directory (same name) and its bytes are replaced in place with the
        time-stamp put back.  With usable inodes this is `the same file` (inode, size, time-stamp: trusted by the property's own
        words); without them the renamed file is a new path whose hashes are inherited from the old record -> must be verified"""
        w, a = self.w, self.w.arr
        sd, ssub = self.base_tree(nsec_zero)
        r, st = self.sync()
        if r is None or not self.judge(st, 'the initial sync'):
            return
        if self.cfg['uuid']:          # a second sync makes the fake UUIDs "recorded": inodes become usable
            w.write('d2', 'filler', self.rng.randbytes(10))
            r, st = self.sync()
            if r is None:
                return
        tsub = 'moved/' + ssub.rsplit('/', 1)[-1]
        w.op(['rename', sd, ssub, tsub])
        q = w.p(sd, tsub)
        s = os.stat(q)
        old = open(q, 'rb').read()
        with open(q, 'r+b') as fh:
            fh.write(bytes([old[0] ^ 0x3C]) + old[1:])
        os.utime(q, ns=(s.st_atime_ns, s.st_mtime_ns))
        w.log.append(['rewrite-in-place-keeping-mtime', sd, tsub])
        usable = w.inodes_usable(w.content(), sd)
        if not usable:
            a.store[(sd, tsub)] = []          # a new path for the tool: the only version it can ever sync is the rewritten one
            a.note_version(sd, tsub)
        rd = w.run('diff'); self.ncmd += 1
        cd = counters(rd)
        want = {'moved': 1} if usable else ({'copied': 1, 'removed': 1} if not nsec_zero else {'added': 1, 'removed': 1})
        if rd.rc != 2 or any(cd[k] != v for k, v in want.items()):
            return self.bad('rename_classified', 'a file renamed into another directory (inodes %s, nanoseconds %s) is classified %s, expected %s'
                            % ('usable' if usable else 'not usable', 'zero' if nsec_zero else 'non-zero', cd, want))
        r, st = self.sync()
        if r is None:
            return
        f = self.entry(st, sd, tsub)
        if usable:
            self.count('rename_trusted_by_inode')
            self.trusted.add((sd, tsub))
            if not self.judge(st, 'sync'):
                return
            if r.rc != 0:
                return self.bad('sync_fails', 'sync exits %d after a rename with usable inodes' % r.rc)
        else:
            if not self.judge(st, 'sync'):
                return
            inherited = not nsec_zero      # name match needs non-zero nanoseconds, the path changed
            if inherited:
                self.count('rename_decoy_refused')
                if r.rc == 0 or f is None or f['blocks'][0][0] == 'BLK':
                    return self.bad('decoy_accepted', 'sync exits %d and records %s for a renamed file whose first block no longer matches the hashes inherited from its old name'
                                    % (r.rc, f and [b[0] for b in f['blocks']]))
            else:
                self.count('rename_not_inherited')
                if r.rc != 0 or not self.all_blk(st):
                    return self.bad('sync_fails', 'sync exits %d' % r.rc)
                self.final_check()

    def partial_source(self, decoy):
        """the source of a would-be copy is only partially hashed (its own sync was interrupted with -B): nothing may be inherited"""
        w, a = self.w, self.w.arr
        w.write('d1', 'big', self.rng.randbytes(self.rng.choice([2500, 3072, 4100])), w.stamp(zero_ns=False))
        r, st = self.sync('-B', '1')
        if r is None or not self.judge(st, 'sync -B 1'):
            return
        f = self.entry(st, 'd1', 'big')
        states = [b[0] for b in f['blocks']]
        if r.rc != 0 or states[0] != 'BLK' or 'BLK' in states[1:]:
            return self.bad('partial', 'sync -B 1 exits %d and leaves %s' % (r.rc, states))
        self.plant('d2', 'big', 'd1', 'big', decoy=decoy)
        r = w.run('diff'); self.ncmd += 1
        cnt = counters(r)
        if cnt['copied'] != 0 or cnt['added'] != 1:
            return self.bad('copy_partial_source', 'hashes of a partially hashed file (%s) are inherited: %s' % (states, cnt))
        self.count('partial_source_not_inherited')
        r, st = self.sync()
        if r is None or not self.judge(st, 'sync'):
            return
        if r.rc != 0 or not self.all_blk(st):
            return self.bad('sync_fails', 'sync exits %d' % r.rc)
        self.final_check()

    def rep_source(self):
        """the source itself carries provisional (REP) hashes: a copy whose sync did not reach it.  A decoy imitating it inherits
        them (REP files are `fully hashed`) and must still be verified"""
        w, a = self.w, self.w.arr
        if a.nd < 3:
            return
        w.write('d1', 'pad', self.rng.randbytes(2048), w.stamp(zero_ns=False))
        w.write('d1', 'orig', self.rng.randbytes(self.rng.choice([1024, 2048, 2500])), w.stamp(zero_ns=False))
        w.write('d2', 'pad2', self.rng.randbytes(3072), w.stamp(zero_ns=False))
        r, st = self.sync()
        if r is None or not self.judge(st, 'the initial sync') or r.rc != 0:
            return
        self.plant('d2', 'orig', 'd1', 'orig', decoy=False)       # true copy: REP
        r, st = self.sync('-B', '1')                               # stops before the stripes of d2:orig (allocated after pad2)
        if r is None or not self.judge(st, 'sync -B 1'):
            return
        f = self.entry(st, 'd2', 'orig')
        if f is None or any(b[0] != 'REP' for b in f['blocks']):
            return                                                 # layout did not produce the situation
        os.unlink(w.p('d1', 'orig')); w.log.append(['delete', 'd1', 'orig'])
        self.plant('d3', 'orig', 'd2', 'orig', decoy=True)
        r = w.run('diff'); self.ncmd += 1
        cnt = counters(r)
        if cnt['copied'] != 1:
            return                                                 # (the removed d1:orig is still in the stamp set and comes first: also fine)
        self.count('rep_source_inherited')
        r, st = self.sync()
        if r is None or not self.judge(st, 'sync'):
            return
        f = self.entry(st, 'd3', 'orig')
        if r.rc == 0 or f is None or any(b[0] == 'BLK' for b in f['blocks']):
            return self.bad('decoy_accepted', 'a decoy inheriting the provisional hashes of an unverified copy is recorded %s, exit %d' % (f and [b[0] for b in f['blocks']], r.rc))

    def samesec(self, rec_zero, new, how):
        """a same-name same-size rewrite whose new time-stamp lies in the SAME second as the recorded one: recorded nanoseconds
        {0, x} against new nanoseconds {0, equal, other}; in place (same inode: found by inode when usable, else by path)
        or delete + create (other inode: found by path).  Any difference in the nanoseconds is a change: the file must be
        read again and end up recorded with the hashes of its new bytes"""
        w, a, rng = self.w, self.w.arr, self.rng
        sec = w.stamp() // 10**9
        rec_ns = 0 if rec_zero else rng.randint(1, 999999999)
        size = rng.choice([1024, 2048, 2500, 3072])
        w.write('d1', 'f', rng.randbytes(size), sec * 10**9 + rec_ns)
        w.write('d2', 'pad', rng.randbytes(1500))
        w.log.append(['recorded-nsec', rec_ns])
        r, st = self.sync()
        if r is None or not self.judge(st, 'the initial sync') or r.rc != 0:
            return
        if self.cfg['uuid']:
            w.write('d2', 'filler', rng.randbytes(10))
            r, st = self.sync()
            if r is None:
                return
        new_ns = {'zero': 0, 'equal': rec_ns, 'other': rng.choice([n for n in (1, 500000000, 999999999) if n != rec_ns])}[new]
        q = w.p('d1', 'f')
        data = bytes((x ^ rng.randint(1, 255)) for x in open(q, 'rb').read())
        changed = new_ns != rec_ns
        m = sec * 10**9 + new_ns
        if changed:
            if how == 'recreate':
                os.unlink(q)
            w.write('d1', 'f', data, m)
        else:
            # same path, size and time-stamp: identity by the property's own words (with usable inodes a new inode is a `restore`)
            usable = w.inodes_usable(w.content(), 'd1')
            if how == 'recreate':
                old = open(q, 'rb').read()
                os.rename(q, q + '.old')
                with open(q, 'wb') as fh:
                    fh.write(old)
                os.unlink(q + '.old')
                os.utime(q, ns=(m, m))
                w.log.append(['restored-from-backup-same-stamp-new-inode', 'd1', 'f'])
            else:
                with open(q, 'r+b') as fh:
                    fh.write(data)
                os.utime(q, ns=(m, m))
                self.trusted.add(('d1', 'f'))
                w.log.append(['rewrite-in-place-same-stamp', 'd1', 'f'])
            r = w.run('diff'); self.ncmd += 1
            cnt = counters(r)
            self.count('samesec_equal_' + how)
            exp_restore = 1 if (how == 'recreate' and usable) else 0
            if r.rc != (2 if exp_restore else 0) or cnt['restored'] != exp_restore or cnt['updated']:
                return self.bad('samesec_equal', 'diff exits %d with %s for d1:f with unchanged size and time-stamp (s and ns), %s inode, inodes %s'
                                % (r.rc, cnt, 'new' if how == 'recreate' else 'same', 'usable' if usable else 'not usable'))
            r, st = self.sync()
            if r is None or not self.judge(st, 'sync'):
                return
            if r.rc != 0 or not self.all_blk(st):
                return self.bad('sync_fails', 'sync exits %d' % r.rc)
            if how == 'recreate':
                self.final_check()
            return
        w.log.append(['samesec', how, 'recorded', rec_ns, 'new', new_ns])
        self.count('samesec_%s_%s' % ('rec0' if rec_zero else 'recx', new))
        r = w.run('diff'); self.ncmd += 1
        cnt = counters(r)
        if r.rc != 2 or cnt['updated'] != 1:
            return self.bad('samesec_unseen', 'd1:f was rewritten (same size) with a time-stamp in the same second, nanoseconds %d -> %d (%s): diff exits %d with %s; '
                                              'the file would keep its hashes and parity without being read' % (rec_ns, new_ns, how, r.rc, cnt))
        r, st = self.sync()
        if r is None or not self.judge(st, 'sync'):
            return
        if r.rc != 0 or not self.all_blk(st):
            return self.bad('sync_fails', 'sync exits %d' % r.rc)
        self.final_check()

    def uuidflip(self, to_fake):
        """the recorded UUID and the reported one differ (empty -> non-empty when --test-fake-uuid appears, non-empty -> unsupported
        when it disappears): recorded inodes mean nothing.  Two files of equal size and time-stamp exchange their inode numbers
        (names and bytes stay): nothing changed for the tool -- in particular nothing may be `moved` and inherit the other file's
        hashes and parity"""
        w, a, rng = self.w, self.w.arr, self.rng
        w.fake_uuid = not to_fake
        size = rng.choice([1024, 2048, 2500])
        m = w.stamp(zero_ns=rng.random() < 0.3)
        A, B = rng.randbytes(size), rng.randbytes(size)
        w.write('d1', 'a', A, m); w.write('d1', 'b', B, m)
        w.write('d2', 'pad', rng.randbytes(1500))
        for _ in range(2):          # the second sync makes a fake UUID `recorded`
            w.write('d2', 'filler', rng.randbytes(10))
            r, st = self.sync()
            if r is None or not self.judge(st, 'the initial syncs') or r.rc != 0:
                return
        w.fake_uuid = to_fake
        pa, pb, pt = w.p('d1', 'a'), w.p('d1', 'b'), w.p('d1', 't.swap')
        os.rename(pa, pt); os.rename(pb, pa); os.rename(pt, pb)
        for q, data in ((pa, A), (pb, B)):
            with open(q, 'r+b') as fh:
                fh.write(data)
            os.utime(q, ns=(m, m))
        w.log.append(['inodes-of-a-and-b-exchanged', 'uuid', 'empty->fake' if to_fake else 'fake->none'])
        self.count('uuidflip_' + ('to_fake' if to_fake else 'to_none'))
        r = w.run('diff'); self.ncmd += 1
        cnt = counters(r)
        if r.rc != 0 or cnt['moved'] or cnt['restored']:
            return self.bad('uuid_inodes_trusted', 'the recorded UUID of d1 is %s and the disk now reports %s, yet recorded inodes are used: diff exits %d with %s after '
                                                   'two files of equal size and time-stamp exchanged their inode numbers'
                            % ((('empty', 'a UUID') if to_fake else ('a UUID', 'none')) + (r.rc, cnt)))
        r, st = self.sync()
        if r is None or not self.judge(st, 'sync'):
            return
        if r.rc != 0:
            return self.bad('sync_fails', 'sync exits %d' % r.rc)
        self.final_check()

    def rehash(self, what, decoy):
        """a hash migration in progress (`rehash`: every block waits to be re-hashed with the new kind): a file under rehash is not a
        stable source for copy detection; pre-hash, sync and the import/search fetch of fix use the PREVIOUS hash kind for such
        blocks.  The sync loop of the model does not cover rehash: these runs are judged by the oracles (check, parity, bytes)"""
        w, a, rng = self.w, self.w.arr, self.rng
        size = rng.choice([2048, 2500, 3072])
        w.write('d1', 'a', rng.randbytes(size), w.stamp(zero_ns=False))
        w.write('d2', 'pad', rng.randbytes(size if what != 'copy' else 1000))     # copy: the new file shares stripes with blocks waiting for a rehash
        r, st = self.sync()
        if r is None or not self.judge(st, 'the initial sync') or r.rc != 0:
            return
        w.murmur = False                      # from now on the tool prefers its default hash: the array is migrated
        r = w.run('rehash'); self.ncmd += 1
        st = w.content()
        if r.rc != 0 or st['prevhash'] is None or not all(i and i['rehash'] for i in st['info']):
            return self.bad('rehash_cmd', 'rehash exits %d, previous hash %s' % (r.rc, st['prevhash']))
        self.count('rehash_' + what)
        if what == 'copy':
            self.plant('d2', 'a', 'd1', 'a', decoy=decoy)
            st0, lst = w.content(), w.listing()
            pred = c11_model.predict_scan(self, st0, lst) if self.model else None
            r = w.run('diff'); self.ncmd += 1
            cnt = counters(r)
            if cnt['copied'] != 0 or cnt['added'] != 1:
                return self.bad('copy_under_rehash', 'hashes of a file whose blocks wait for a rehash are inherited: %s' % cnt)
            if pred and not pred['aborted'] and pred['counters'] != cnt:
                c11_model.note_drift(self, 'drift_diff', 'the scan model predicts %s, the real diff reports %s (source under rehash)' % (pred['counters'], cnt), request=pred['request'][:6000])
            r = w.run('sync', *(['-h'] if rng.random() < 0.5 else []), '--force-empty', '--force-zero'); self.ncmd += 1
            st = w.content()
            if r.rc != 0 or not self.all_blk(st):
                return self.bad('sync_fails', 'sync during a hash migration exits %d' % r.rc, err=r.err[-300:])
            for e in (a.check_map(st) + a.check_parity(st)[0])[:1]:
                return self.bad('c06_oracle', 'after a sync during a hash migration: %s' % e)
            return self.final_check()
        # fix with an import directory while the blocks still carry hashes of the previous kind
        vic, oth = open(w.p('d1', 'a'), 'rb').read(), open(w.p('d2', 'pad'), 'rb').read()
        m = os.stat(w.p('d1', 'a')).st_mtime_ns
        imp = os.path.join(a.root, 'import')
        dec = bytes((x ^ rng.randint(1, 255)) for x in vic)
        for n, data in (('a', dec), ('zz/a', vic)):
            q = os.path.join(imp, n)
            os.makedirs(os.path.dirname(q), exist_ok=True)
            open(q, 'wb').write(data)
            mm = m if (what == 'import_stamp' or data is dec) else m + 7 * 10**9
            os.utime(q, ns=(mm, mm))
        os.unlink(w.p('d1', 'a')); os.unlink(w.p('d2', 'pad'))
        w.log.append(['lose', 'd1:a', 'd2:pad', what])
        r = w.run('fix', *(['-i', imp] if what == 'import_stamp' else ['--test-import-content', imp])); self.ncmd += 1
        for (d, sub, wantb) in (('d1', 'a', vic), ('d2', 'pad', oth)):
            q = w.p(d, sub)
            got = open(q, 'rb').read() if os.path.isfile(q) else None
            if got != wantb or r.rc != 0:
                return self.bad('fix_rehash', 'fix (%s) during a hash migration exits %d and %s:%s is %s' % (what, r.rc, d, sub, 'missing' if got is None else ('the DECOY' if got == dec else 'restored' if got == wantb else 'wrong')),
                                tags=(r.tag('status:') + r.tag('unrecoverable:'))[:6])

    def past_import(self, how):
        """fix must not fill a lost, never hashed (CHG) block with imported / duplicate data that only matches the PAST hash kept in the
        block (the hash of the deleted file it was allocated over): OLD synced, then moved out of the array (import directory) or
        elsewhere inside it (duplicate search); NEW (same size and time-stamp, other bytes) allocated over OLD's positions and
        recorded by a partial sync that does not reach its stripes; NEW lost; fix with the import available"""
        w, a, rng = self.w, self.w.arr, self.rng
        size = rng.choice([1024, 2048, 1500])
        m = w.stamp(zero_ns=rng.random() < 0.3)
        w.write('d1', 'AAA', rng.randbytes(2048))
        w.write('d1', 'OLD', rng.randbytes(size), m)
        w.write('d2', 'KEEP', rng.randbytes(6 * 1024))
        r, st = self.sync()
        if r is None or not self.judge(st, 'the initial sync') or r.rc != 0:
            return
        old = open(w.p('d1', 'OLD'), 'rb').read()
        imp = os.path.join(a.root, 'import')
        if how == 'dup':
            dst = w.p('d2', 'elsewhere/OLDCOPY')
        else:
            dst = os.path.join(imp, 'sub', 'OLD')
        os.makedirs(os.path.dirname(dst), exist_ok=True)
        open(dst, 'wb').write(old); os.utime(dst, ns=(m, m))
        os.unlink(w.p('d1', 'OLD'))
        new = bytes((x ^ rng.randint(1, 255)) for x in old)
        w.write('d1', 'NEW', new, m)
        w.log.append(['OLD-moved-to', how, 'NEW-over-its-blocks'])
        r, st = self.sync('-S', '4', nokill=True)    # ONE sync, beyond the stripes of NEW: it stays CHG with the past hash of OLD (a second load would clear it)
        if r is None or not self.judge(st, 'sync -S 4'):
            return
        f = self.entry(st, 'd1', 'NEW')
        if r.rc != 0 or f is None or any(b[0] != 'CHG' or b[2] in (b'\x00' * 16, b'\xff' * 16) for b in f['blocks']):
            return                                   # the layout did not produce the situation
        self.count('past_import_' + how)
        os.unlink(w.p('d1', 'NEW')); w.log.append(['lose', 'd1:NEW'])
        opts = {'dup': [], 'stamp': ['-i', imp], 'content': ['--test-import-content', imp]}[how]
        r = w.run('fix', *opts); self.ncmd += 1
        q = w.p('d1', 'NEW')
        got = open(q, 'rb').read() if os.path.isfile(q) else None
        if got is not None and got != new:
            return self.bad('fix_past_hash', 'fix %s (exit %d) recreates d1:NEW, a never synced file, with %s: data that only matches the PAST hash of its blocks was accepted'
                            % (' '.join(opts[:1]), r.rc, 'the bytes of the file that occupied its blocks before' if got == old else 'wrong bytes'), tags=(r.tag('status:') + r.tag('hash_import'))[:6])
        if got is None and r.rc == 0:
            return self.bad('fix_silent', 'fix exits 0 although d1:NEW could not be restored')

    def import_decoy(self, how, with_true, decoy_first):
        """fix with import directories / duplicates: two files of one stripe range are lost with one parity, so parity alone
        cannot help; a true copy (any name) may be used, a decoy (same name, size, time-stamp) never"""
        w, a, rng = self.w, self.w.arr, self.rng
        size = rng.choice([1024, 2048, 2500, 3072])
        m = w.stamp(zero_ns=rng.random() < 0.3)
        w.write('d1', 'vic', rng.randbytes(size), m)
        w.write('d2', 'other', rng.randbytes(size), w.stamp())
        if a.nd > 2:
            w.write('d3', 'third', rng.randbytes(100), w.stamp())
        r, st = self.sync()
        if r is None or not self.judge(st, 'the initial sync') or r.rc != 0:
            return
        vic = open(w.p('d1', 'vic'), 'rb').read()
        oth = open(w.p('d2', 'other'), 'rb').read()
        decoy = bytes([vic[0] ^ 0x77]) + rng.randbytes(size - 1)
        if how == 'dup':
            base = os.path.join(a.root, 'd%d' % a.nd)     # duplicates inside the array (search_array); not synced
            names = ['zdup/vic', 'zdup/keep']
        else:
            base = os.path.join(a.root, 'import')
            names = ['vic', 'sub/vic']
        os.makedirs(os.path.join(base, os.path.dirname(names[1])), exist_ok=True)
        plan = [(decoy, 'decoy')] + ([(vic, 'true')] if with_true else [])
        if not decoy_first:
            plan.reverse()
        for (data, kind), n in zip(plan, names):
            q = os.path.join(base, n)
            os.makedirs(os.path.dirname(q), exist_ok=True)
            open(q, 'wb').write(data)
            # search.c matches size + time-stamp, import.c matches content: give the true copy another time-stamp for `content`
            os.utime(q, ns=(m, m) if how != 'content' or kind == 'decoy' else (m + 5 * 10**9, m + 5 * 10**9))
            w.log.append(['import-file', how, n, kind])
        os.unlink(w.p('d1', 'vic')); os.unlink(w.p('d2', 'other'))
        w.log.append(['lose', 'd1:vic', 'd2:other'])
        opts = {'dup': [], 'stamp': ['-i', os.path.join(a.root, 'import')], 'content': ['--test-import-content', os.path.join(a.root, 'import')]}[how]
        r = w.run('fix', *opts); self.ncmd += 1
        self.count('fix_%s_%s' % (how, 'true+decoy' if with_true else 'decoy_only'))
        for (d, sub, want) in (('d1', 'vic', vic), ('d2', 'other', oth)):
            q = w.p(d, sub)
            got = open(q, 'rb').read() if os.path.isfile(q) else None
            if got is not None and got != want:
                which = 'the DECOY' if got == decoy else 'bytes that are neither the recorded version nor the decoy'
                if r.rc == 0 or not os.path.exists(q + '.unrecoverable'):
                    return self.bad('fix_wrong_bytes', 'fix %s (exit %d) restores %s:%s with %s' % (' '.join(opts[:1]), r.rc, d, sub, which), tags=r.tag('status:')[:6])
            if with_true and (got != want or r.rc != 0):
                return self.bad('fix_ignores_copy', 'fix %s exits %d and does not restore %s:%s although a true copy was offered' % (' '.join(opts[:1]), r.rc, d, sub),
                                tags=(r.tag('status:') + r.tag('unrecoverable:'))[:6], err=r.err[-300:])
        if not with_true and r.rc == 0:
            return self.bad('fix_decoy_only', 'fix exits 0 although two blocks per stripe are lost with one parity and only a decoy is offered')
        if not with_true:
            self.count('decoy_not_used_by_fix')


def configs(rng, n):
    out = []
    kinds = ['copy', 'copy', 'copy', 'rename', 'partial', 'import', 'import', 'rep', 'samesec', 'samesec', 'uuidflip', 'rehash', 'past_import']
    for i in range(n):
        k = kinds[i % len(kinds)]
        out.append({'kind': k, 'nd': 3 if k == 'rep' or rng.random() < 0.3 else 2, 'np': 1 if k == 'import' else (2 if k == 'past_import' else rng.choice([1, 2])), 'order': rng.choice(ORDERS),
                    'uuid': rng.random() < 0.5, 'where': 'tmpfs', 'seed': rng.getrandbits(32), 'i': i,
                    'variant': ['plain', 'prehash', 'nocopy'][(i // len(kinds) + i) % 3] if k == 'copy' else rng.choice(['stamp', 'content', 'dup']),
                    'nsec_zero': rng.random() < 0.4, 'same_path': rng.random() < 0.5, 'decoy': rng.random() < 0.8,
                    'with_true': rng.random() < 0.5, 'decoy_first': rng.random() < 0.5, 'other_name': k == 'copy' and rng.random() < 0.2,
                    'rec_zero': rng.random() < 0.5, 'new': rng.choice(['zero', 'zero', 'equal', 'other']), 'how': rng.choice(['inplace', 'recreate']), 'to_fake': rng.random() < 0.6,
                    'empty_source': k == 'copy' and rng.random() < 0.08, 'rehash_what': rng.choice(['copy', 'copy', 'import_stamp', 'import_content'])})
    return out


def run_one(chk, binary, shim, model, cfg):
    S = Scn(chk, binary, shim, model, random.Random(cfg['seed']), cfg)
    try:
        k = cfg['kind']
        if k == 'copy':
            S.copy_decoy(cfg['variant'], cfg['nsec_zero'], cfg['same_path'], cfg['decoy'])
        elif k == 'rename':
            S.rename_decoy(cfg['nsec_zero'])
        elif k == 'partial':
            S.partial_source(cfg['decoy'])
        elif k == 'rep':
            S.rep_source()
        elif k == 'import':
            S.import_decoy(cfg['variant'], cfg['with_true'], cfg['decoy_first'])
        elif k == 'samesec':
            S.samesec(cfg['rec_zero'], cfg['new'], cfg['how'])
        elif k == 'uuidflip':
            S.uuidflip(cfg['to_fake'])
        elif k == 'rehash':
            S.rehash(cfg['rehash_what'], cfg['decoy'])
        elif k == 'past_import':
            S.past_import(cfg['variant'])
        if S.model and S.ok:
            c11_model.flush_drift(S)
    finally:
        shutil.rmtree(S.w.arr.root, ignore_errors=True)
    return S


def main(tier, replay=None):
    chk = Check('C19', tier, 'proof')
    snap = snapshot_repo()
    regen(snap)
    try:
        binary = build_tool(snap)
        shim = build_shim(snap)
    except BuildError as e:
        chk.violation('build', 'working tree does not build: ' + str(e)[:500], {'error': str(e)}, no_input=True)
        return chk.finish()
    ob = check_obligations('C19')
    proof_coverage(chk, ob, 'make -f Makefile.coq -k Props/Properties_C19.vo (coqc 8.16.1) + Print Assumptions', c11_model.TRUSTED)
    try:
        model = c11_model.build()
    except BuildError as e:
        model = None
        chk.violation('model_build', 'the scan model does not build: %s' % str(e)[-600:], {'error': str(e)[-3000:]}, no_input=True)
    rng = chk.rng
    if replay:
        cfgs = [json.load(open(replay))['replay']['config']]
    else:
        cfgs = configs(rng, 160 if tier == 'quick' else 800)
    import concurrent.futures as cf
    stats, ncmd, nmodel, samples = {}, 0, 0, []
    with cf.ThreadPoolExecutor(max_workers=min(8, NCPU)) as ex:
        for S in ex.map(lambda c: run_one(chk, binary, shim, model, c), cfgs):
            ncmd += S.ncmd; nmodel += S.nmodel
            if S.obs and not any(n.startswith('OBSERVATION') for n in chk.notes):
                chk.notes.append('OBSERVATION (C05/C12 territory, C19 holds by its letter): ' + S.obs)
            for k, v in S.stats.items():
                stats[k] = stats.get(k, 0) + v
            if len(samples) < 4 and S.cfg['kind'] not in [s['config']['kind'] for s in samples]:
                samples.append({'config': S.cfg, 'history': S.w.log[:14]})
    refused = sum(v for k, v in stats.items() if 'refused' in k or k == 'decoy_not_used_by_fix')
    chk.cov.update({'evaluations': ncmd, 'distinct_nontrivial': refused,
                    'rule': 'decoy scenarios (copy detection across disks by name/path with zero/non-zero nanoseconds, rename + in-place rewrite on the same disk with and without usable inodes, '
                            'partially hashed and provisional (REP) sources, import directories by time-stamp (-i) and by content, duplicates inside the array) x sync / sync -h / sync -N / fix; '
                            'non-trivial = scenarios in which a decoy carried inherited hashes or was offered to fix and had to be refused',
                    'scenarios': len(cfgs), 'outcomes': stats, 'model_predictions_compared': nmodel, 'traces_validated_against_impl': nmodel})
    chk.cov['samples'] = samples
    chk.notes.append('identity by inode (or, without usable inodes, by path) + size + time-stamp is trusted by the property statement itself: a same-size rewrite in place with restored time-stamp is not re-read (scenario `rename` with usable inodes documents it)')
    if ob['failed'] and not chk.violations:
        chk.violation('obligation', 'proof obligation of C19 no longer checks: %s' % ob['failed'][0],
                      {'theorem_file': 'coq/Props/Properties_C19.v', 'failed': ob['failed'], 'log_tail': ob['log'][-1500:]}, no_input=True)
    chk.assumptions += c11_model.ASSUMPTIONS
    return chk.finish()
