"""C20 -- reports and derived views (list, dup, status, pool) reflect the recorded state; names of arbitrary bytes
survive every output."""
import os, sys, json, re, subprocess, stat, shutil, time
from common import *
from c20_tree import *
import c20_content as c20c

FLAGS = ['--test-skip-device', '--test-skip-self', '--no-warnings', '--test-force-order-alpha']
KEY_ZEROSUB = 'F-C20-status-zerosubsecond-raw'
KEY_STDOUT = 'F-C20-stdout-newline'
KEY_DIRFILE = 'F-C20-pool-dir-replaced-by-file'
KEY_CLOCK = 'F-C20-status-new-mark-counted-as-second'


SHIM = [None]


def steer(now):
    """a clock value for a status run: not earlier than `now`, and = 3 mod 8, so that no recorded time (a multiple of 8) is
    a whole number of days away from it: ages and the future-date warning do not depend on sub-second races"""
    while now % 8 != 3:
        now += 1
    return now


def tool(exe, tree, args, log=None, now=None):
    """run the real binary (with the clock set to `now` through the time shim when given); returns (rc, stdout, log, stderr)"""
    cmd = [exe] + FLAGS + ['-c', tree.conf]
    lp = None
    if log:
        lp = os.path.join(tree.root, log)
        if os.path.exists(lp):
            os.remove(lp)
        cmd += ['-l', lp]
    env = dict(os.environ, TZ='UTC', LC_ALL='C')
    if now is not None:
        env.update(LD_PRELOAD=SHIM[0], VSHIM_TIME=str(now))
    r = subprocess.run(cmd + args, stdout=subprocess.PIPE, stderr=subprocess.PIPE, env=env, cwd=tree.root)
    lb = open(lp, 'rb').read() if lp and os.path.exists(lp) else b''
    return r.returncode, r.stdout, lb, r.stderr


def log_section(logb, prefixes):
    return b''.join(l + b'\n' for l in logb.split(b'\n')[:-1] if l.startswith(prefixes))


class Ctx:
    def __init__(self, chk, exe, model, name):
        self.chk, self.exe, self.model, self.name = chk, exe, model, name
        self.evals = 0
        self.kinds = set()
        self.samples = []
        self.flagsets = set()
        self.last_pool_err = b''

    def m(self, lines):
        return run_lines(self.model, lines, shards=1 if len(lines) < 64 else None)

    def bad(self, step, what, detail, drift=False):
        tag = '%s_%s' % (self.name, step)
        rep = dict(detail, scenario=self.name, step=step, seed=self.chk.seed, how='./vcheck C20 --tier %s (VERIF_SEED=%d) regenerates this tree' % (self.chk.tier, self.chk.seed))
        if drift:
            self.chk.violation('drift_' + tag, 'MODEL-DRIFT: ' + what, rep, no_input=True)
        else:
            self.chk.violation(tag, what, rep)


# ---------------------------------------------------------------------------------------------------------
def verify_list(cx, tree, step):
    rc, out, logb, err = tool(cx.exe, tree, ['list'], 'list.log')
    walked = [(n, ) + walk_disk(d) for n, d in tree.disks]
    if rc != 0:
        cx.bad(step, 'list exits %d on a synced array' % rc, {'stderr': err[-500:].decode('latin1')})
        return walked
    exp_f = set((n.encode(), sub, size, sec, nsec, ino) for n, fs, ls in walked for sub, size, sec, nsec, ino, data in fs)
    exp_l = set((kind, n.encode(), sub, to) for n, fs, ls in walked for kind, sub, to in ls)
    recs = parse_records(cx.m(['parselog ' + hx(logb)])[0])
    got_f = [r[1:] for r in recs if r[0] == 'F']
    got_l = [r[1:] for r in recs if r[0] == 'L']
    nbad = sum(1 for r in recs if r[0] == 'X')
    cx.evals += len(got_f) + len(got_l)
    cx.kinds.add('list')
    if nbad or set(got_f) != exp_f or len(got_f) != len(exp_f) or set(got_l) != exp_l or len(got_l) != len(exp_l):
        miss = sorted(exp_f - set(got_f))[:3] + sorted(exp_l - set(got_l))[:3]
        extra = sorted(set(got_f) - exp_f)[:3] + sorted(set(got_l) - exp_l)[:3]
        cx.bad(step, 'list -l does not print exactly the files and links of the tree (as read back by the model parser): %d unparsable lines, missing %r, unexpected %r'
               % (nbad, miss, extra), {'missing': repr(miss), 'unexpected': repr(extra)})
        return walked
    # exact bytes, order included: model printer on the harness's state
    csec = log_section(logb, (b'file:', b'link_', b'summary:'))
    mo = cx.m(['listlog ' + ' '.join(state_tokens(walked))])[0]
    if mo != 'ok ' + hx(csec):
        cx.bad(step + '_log', 'the list model prints other log lines than list.c for a tree on which list.c is right', {'model': mo[:2000], 'c': hx(csec)[:2000]}, drift=True)
    # stdout: record stream between "Listing...\n" and the trailer
    k = out.find(b'Listing...\n')
    mt = re.search(rb'\n\n +\d+ files, for \d+ GB\n +\d+ links\n$', out)
    if k < 0 or not mt:
        cx.bad(step + '_stdout', 'list stdout has no Listing.../trailer frame', {'stdout': out[-300:].decode('latin1')})
        return walked
    sec = out[k + 11:mt.start() + 1]
    exp_t = []
    for n, fs, ls in walked:
        for sub, size, s_, ns_, ino, data in sorted(fs):
            exp_t.append(('F', size) + date_tokens(s_) + (sub,))
        for kind, sub, to in sorted(ls, key=lambda x: x[1]):
            exp_t.append(('K', kind, sub, to))
    got_t = parse_trecs(cx.m(['parseterm ' + hx(sec)])[0])
    cx.evals += len(exp_t)
    cx.kinds.add('list_stdout')
    if got_t is not None and got_t != exp_t and sorted(got_t) == sorted(exp_t):
        cx.bad(step + '_stdout_order', 'list stdout shows exactly the files and links of the tree but not in the modelled order (per disk: files by path, then links by path)',
               {'first_difference': repr(next((a, b) for a, b in zip(got_t, exp_t) if a != b))}, drift=True)
    elif got_t != exp_t:
        d = None
        if got_t is not None:
            d = next(((a, b) for a, b in zip(got_t, exp_t) if a != b), ('length', len(got_t), len(exp_t)))
        # is the byte stream itself what the format says?  then the reader (model) is wrong, else the C output
        toks = []
        for r in exp_t:
            toks += (['F', str(r[1]), hx(r[2]), hx(r[3]), hx(r[4])] if r[0] == 'F' else ['K', r[1], hx(r[2]), hx(r[3])])
        pr = cx.m(['termlist ' + ' '.join(toks)])[0]
        if pr == 'ok ' + hx(sec):
            cx.bad(step + '_stdout', 'the stdout of list is not read back unambiguously by the model reader although it has the modelled format: first difference %r' % (d,),
                   {'stdout_hex': hx(sec)[:4000], 'first_difference': repr(d)}, drift=True)
            cx.chk.violation('stdout_framing', 'stdout of list is ambiguous for names with newline: %r' % (d,), {'stdout_hex': hx(sec)[:4000]}, finding_key=KEY_STDOUT)
        else:
            cx.bad(step + '_stdout', 'the stdout of list does not render the files and links of the tree: first difference %r' % (d,),
                   {'stdout_hex': hx(sec)[:4000], 'first_difference': repr(d)})
    else:
        toks = []
        for r in exp_t:
            toks += (['F', str(r[1]), hx(r[2]), hx(r[3]), hx(r[4])] if r[0] == 'F' else ['K', r[1], hx(r[2]), hx(r[3])])
        pr = cx.m(['termlist ' + ' '.join(toks)])[0]
        if pr != 'ok ' + hx(sec):
            cx.bad(step + '_stdout', 'the list stdout model prints other bytes than list.c', {'model': pr[:2000], 'c': hx(sec)[:2000]}, drift=True)
    if len(cx.samples) < 4:
        cx.samples.append({'cmd': 'list', 'files': len(exp_f), 'links': len(exp_l), 'first_log_line': csec.split(b'\n')[0].decode('latin1')})
    return walked


def verify_list_variants(cx, tree, step, walked):
    """the other renderings of list: verbose (seconds and nanoseconds, wider link padding), --test-fmt disk (disk:path through
    esc_shell_multi) and --test-fmt path (disk directory + path).  The byte stream is read by the model reader and rebuilt from
    the model printer (for -v the 13 extra spaces of a link line are inserted by the harness: exercised by oracle only)"""
    dirs = {n: os.fsencode(d) + b'/' for n, d in tree.disks}
    for mode, args in (('verbose', ['-v', 'list']), ('fmtdisk', ['--test-fmt', 'disk', 'list']), ('fmtpath', ['--test-fmt', 'path', 'list'])):
        rc, out, logb, err = tool(cx.exe, tree, args)
        k = out.find(b'Listing...\n')
        mt = re.search(rb'\n\n +\d+ files, for \d+ GB\n +\d+ links\n$', out)
        if rc != 0 or k < 0 or not mt:
            cx.bad('%s_%s' % (step, mode), 'list %s exits %d or prints no frame' % (' '.join(args), rc), {'stdout': out[-300:].decode('latin1')})
            continue
        sec = out[k + 11:mt.start() + 1]
        exp_t = []
        for n, fs, ls in walked:
            pre = (n.encode() + b':') if mode == 'fmtdisk' else dirs[n] if mode == 'fmtpath' else b''
            for sub, size, s_, ns_, ino, data in sorted(fs):
                d1, d2 = date_tokens(s_)
                if mode == 'verbose':
                    d2 += b':%02u.%09u' % (time.gmtime(s_).tm_sec, ns_)
                exp_t.append(('F', size, d1, d2, pre + sub))
            for kind, sub, to in sorted(ls, key=lambda x: x[1]):
                exp_t.append(('K', kind, pre + sub, pre + to))
        got_t = parse_trecs(cx.m(['parseterm ' + hx(sec)])[0])
        cx.evals += len(exp_t)
        cx.kinds.add('list_' + mode)
        if got_t != exp_t:
            d = None if got_t is None else next(((a, b) for a, b in zip(got_t, exp_t) if a != b), ('length', len(got_t), len(exp_t)))
            cx.bad('%s_%s' % (step, mode), 'list %s does not render the files and links of the tree (read by the model reader): first difference %r' % (' '.join(args), d),
                   {'stdout_hex': hx(sec)[:4000], 'first_difference': repr(d)})
            continue
        pr = cx.m(['termlist ' + ' '.join(['F', str(r[1]), hx(r[2]), hx(r[3]), hx(r[4])] if r[0] == 'F' else ['K', r[1], hx(r[2]), hx(r[3])]) for r in exp_t])
        parts = []
        for r, o in zip(exp_t, pr):
            b = unhx(o[3:])
            if mode == 'verbose' and r[0] == 'K':
                b = b.replace(b' ' * 18, b' ' * 31, 1)
            parts.append(b)
        if b''.join(parts) != sec:
            cx.bad('%s_%s_bytes' % (step, mode), 'list %s prints other bytes than the modelled format' % ' '.join(args), {'stdout_hex': hx(sec)[:3000]}, drift=(mode != 'verbose'))
    # dup with the disk:path rendering
    rc, out, logb, err = tool(cx.exe, tree, ['--test-fmt', 'disk', 'dup'], 'dup.log')
    dups = [r[1:] for r in parse_records(cx.m(['parselog ' + hx(logb)])[0]) if r[0] == 'D']
    k = out.find(b'Comparing...\n')
    mt = re.search(rb'\n\n +\d+ duplicates, for \d+ GB\n(There are duplicates!|No duplicates)\n$', out)
    if k >= 0 and mt and dups:
        names = sorted(set([(r[0], r[1]) for r in dups] + [(r[2], r[3]) for r in dups]))
        esc = dict(zip(names, [unhx(o[3:]) for o in cx.m(['escmulti %s,3a,%s' % (hx(d), hx(nm)) for d, nm in names])]))
        sizes = {(n.encode(), f[0]): f[1] for n, fs, ls in walked for f in fs}
        exp = b''.join(b'%12d %s = %s\n' % (sizes[(d, nm)], esc[(d, nm)], esc[(d2, nm2)]) for d, nm, d2, nm2, sz in dups)
        cx.evals += len(dups)
        cx.kinds.add('dup_fmtdisk')
        if out[k + 13:mt.start() + 1] != exp:
            cx.bad(step + '_dup_fmtdisk', 'dup --test-fmt disk stdout is not "%12u <esc disk:name> = <esc disk:name>" for the reported pairs', {'stdout_hex': hx(out[k + 13:mt.start() + 1])[:3000]})


def content_order(old, new):
    """order of disk->filelist after a further sync: the recorded files keep their order, new ones are appended in scan order"""
    res = []
    for (n, ofs, ols), (n2, nfs, nls) in zip(old, new):
        cur = {f[0]: f for f in nfs}
        oldsubs = [f[0] for f in ofs if f[0] in cur]
        seen = set(oldsubs)
        res.append((n, [cur[x] for x in oldsubs] + [f for f in nfs if f[0] not in seen], nls))
    return res


def verify_dup(cx, tree, step, walked, unhashed=frozenset()):
    rc, out, logb, err = tool(cx.exe, tree, ['dup'], 'dup.log')
    if rc != 0:
        cx.bad(step, 'dup exits %d' % rc, {'stderr': err[-500:].decode('latin1')})
        return
    # oracle: groups of identical contents among non-empty files all of whose blocks are hashed
    bycontent = {}
    sizes = {}
    for n, fs, ls in walked:
        for sub, size, s_, ns_, ino, data in fs:
            sizes[(n.encode(), sub)] = size
            if size == 0 or any((n, sub, i) in unhashed for i in range(len(blocks_of(data)))):
                continue
            bycontent.setdefault(data, []).append((n.encode(), sub))
    exp_groups = set(frozenset(g) for g in bycontent.values() if len(g) > 1)
    recs = [r for r in parse_records(cx.m(['parselog ' + hx(logb)])[0])]
    dups = [r[1:] for r in recs if r[0] == 'D']
    parent = {}

    def find(x):
        parent.setdefault(x, x)
        while parent[x] != x:
            parent[x] = parent[parent[x]]
            x = parent[x]
        return x
    for d, nm, d2, nm2, sz in dups:
        parent[find((d, nm))] = find((d2, nm2))
    groups = {}
    for x in list(parent):
        groups.setdefault(find(x), set()).add(x)
    got_groups = set(frozenset(g) for g in groups.values())
    cx.evals += len(dups) + len(exp_groups)
    cx.kinds.add('dup' + ('_partial' if unhashed else ''))
    wrong_size = [r for r in dups if sizes.get((r[2], r[3])) != r[4]]
    if got_groups != exp_groups or len(dups) != sum(len(g) - 1 for g in exp_groups) or wrong_size or any(r[0] == 'X' for r in recs):
        cx.bad(step, 'dup does not report exactly the groups of identical non-empty fully hashed files: %d groups expected, %d reported, %d lines, only-expected %r, only-reported %r'
               % (len(exp_groups), len(got_groups), len(dups), [sorted(g) for g in (exp_groups - got_groups)][:2], [sorted(g) for g in (got_groups - exp_groups)][:2]),
               {'expected_groups': repr(sorted(map(sorted, exp_groups)))[:3000], 'reported': repr(dups)[:3000]})
        return
    csec = log_section(logb, (b'dup:',))
    mo = cx.m(['duplog ' + ' '.join(state_tokens(walked, unhashed))])[0]
    if mo != 'ok ' + hx(csec):
        cx.bad(step + '_log', 'the dup model reports other pairs/lines than dup.c on a tree where dup.c is right', {'model': mo[:2000], 'c': hx(csec)[:2000]}, drift=True)
    # stdout: "%12llu %s = %s\n" with esc_shell'ed names
    k = out.find(b'Comparing...\n')
    mt = re.search(rb'\n\n +\d+ duplicates, for \d+ GB\n(There are duplicates!|No duplicates)\n$', out)
    if k >= 0 and mt:
        sec = out[k + 13:mt.start() + 1]
        names = sorted(set([r[1] for r in dups] + [r[3] for r in dups]))
        esc = dict(zip(names, [unhx(o[3:]) for o in cx.m(['escshell ' + hx(nm) for nm in names])]))
        exp = b''.join(b'%12d %s = %s\n' % (sizes[(d, nm)], esc[nm], esc[nm2]) for d, nm, d2, nm2, sz in dups)
        if sec != exp:
            cx.bad(step + '_stdout', 'dup stdout is not "%12u <esc name> = <esc name>" for the reported pairs', {'stdout_hex': hx(sec)[:3000], 'expected_hex': hx(exp)[:3000]})
    if len(cx.samples) < 8:
        cx.samples.append({'cmd': 'dup', 'groups': len(exp_groups), 'lines': len(dups), 'largest_group': max([len(g) for g in exp_groups] + [0]), 'unhashed_blocks': len(unhashed)})


def status_fields(cx, logb):
    recs = parse_records(cx.m(['parselog ' + hx(logb)])[0])
    summ, blocks = {}, []
    info_new = 0
    info_count = None
    for r in recs:
        if r[0] != 'O':
            continue
        f = r[1]
        if f[0] == b'summary' and len(f) >= 3 and f[1].startswith(b'has_'):
            summ.setdefault(f[1].decode(), []).append([x.decode('latin1') for x in f[2:]])
        elif f[0] == b'block' and len(f) == 7:
            blocks.append((int(f[1]), int(f[2]), f[3] == b'used', f[4] == b'unsynced', f[5] == b'bad', f[6] == b'rehash'))
        elif f[0] == b'block_noinfo' and len(f) == 4:
            blocks.append((int(f[1]), None, f[2] == b'used', f[3] == b'unsynced', False, False))
        elif f[0] == b'info_time' and len(f) == 4 and f[3] == b'new':
            info_new += int(f[2])
        elif f[0] == b'info_count':
            info_count = int(f[1])
    return summ, blocks, info_new, info_count


def status_vs_content(cx, tree, step, out, logb, now0, now1):
    """every counter and tag of status against the content file decoded by harness/py/content.py, and against the
    extracted counting model run on that decoded state"""
    try:
        st = c20c.load(os.path.join(tree.root, 'content'))
        e = c20c.expected(st)
    except Exception as ex:
        cx.bad(step + '_content', 'the content file cannot be decoded by the independent decoder: %r' % ex, {}, drift=True)
        return None
    lines = [l.decode('latin1') for l in logb.split(b'\n')]
    got_blocks = [l for l in lines if l.startswith(('block:', 'block_noinfo:'))]
    got_it = [l for l in lines if l.startswith('info_time:')]
    got_ic = [l for l in lines if l.startswith('info_count:')]
    summ = {}
    for l in lines:
        if l.startswith('summary:has_'):
            f = l.split(':')
            summ[f[1]] = [int(x) for x in f[2:]]
    want = {'has_unsynced': [len(e['unsynced'])], 'has_unscrubbed': [len(e['unscrubbed'])], 'has_rehash': [len(e['rehash'])], 'has_bad': e['has_bad']}
    cx.evals += len(got_blocks) + len(got_it) + 4
    cx.kinds.add('status_content_' + step)
    cx.flagsets.update(e['flag_combinations'])
    probs = []
    for k, v in want.items():
        if summ.get(k) != v:
            probs.append('summary:%s is %s, the content file records %s' % (k, summ.get(k), v))
    if got_blocks != e['block_lines']:
        d = next(((a, b) for a, b in zip(got_blocks, e['block_lines']) if a != b), ('count', len(got_blocks), len(e['block_lines'])))
        probs.append('per-stripe tag %r, recorded %r' % d[:2] if d[0] != 'count' else 'per-stripe tags: %d lines for %d stripes' % d[1:])
    if e['count'] and (got_it != e['info_time_lines'] or got_ic != ['info_count:%d' % e['count']]):
        d = next(((a, b) for a, b in zip(got_it, e['info_time_lines']) if a != b), (len(got_it), len(e['info_time_lines'])))
        probs.append('info_time/info_count tags differ: %r vs recorded %r (info_count %s, recorded %d)' % (d[0], d[1], got_ic, e['count']))
    txt = out.decode('latin1')
    if e['count']:
        mt = re.search(r'The oldest block was scrubbed (\d+) days ago, the median (\d+), the newest (\d+)\.', txt)
        ok_days = set([c20c.days(e['timemap'], now0), c20c.days(e['timemap'], now1)])
        if not mt or tuple(int(x) for x in mt.groups()) not in ok_days:
            probs.append('scrub ages printed %s, recorded times give %s' % (mt.groups() if mt else None, sorted(ok_days)))
        if e['unscrubbed']:
            pc = (len(e['unscrubbed']) * 100 + e['blockmax'] - 1) // e['blockmax']
            if ('%u%% of the array is not scrubbed.' % pc) not in txt:
                probs.append('text does not say "%d%% of the array is not scrubbed" although %d stripes are recorded as just synced' % (pc, len(e['unscrubbed'])))
        elif 'The full array was scrubbed at least one time.' not in txt:
            probs.append('text does not say the full array was scrubbed although no stripe is recorded as just synced')
        if e['bad'] and ('In the array there are %u errors!' % len(e['bad'])) not in txt:
            probs.append('text does not announce %d errors' % len(e['bad']))
        if (not e['bad']) and 'DANGER!' in txt:
            probs.append('text announces errors although no stripe is recorded bad')
        if bool(e['rehash']) != ('You have a rehash in progress' in txt):
            probs.append('rehash-in-progress text does not match the %d stripes recorded for rehash' % len(e['rehash']))
        if bool(e['unsynced']) != ('The array is NOT fully synced' in txt):
            probs.append('sync-in-progress text does not match the %d unsynced stripes' % len(e['unsynced']))
    # the summary tags that are functions of the content file, the table, the graph, the list of bad stripes
    se, rows = c20c.summary_expected(st)
    got_s = {}
    for l in lines:
        if l.startswith('summary:') and not l.startswith('summary:has_'):
            f = l.split(':')
            got_s[':'.join(f[1:-1])] = f[-1]
    for k, v in se.items():
        if k not in got_s:
            if not (k in ('parity_size', 'parity_size_max', 'hash', 'prev_hash') and not got_s):
                probs.append('summary:%s is missing (recorded %s)' % (k, v))
        elif got_s[k] != str(v):
            probs.append('summary:%s is %s, the content file gives %s' % (k, got_s[k], v))
    cx.evals += len(se)
    for fc, ff, ef, name in rows:
        pat = r'^ *%d +%d +%d +\S+ +\d+ +\S+ +\S+%s$' % (fc, ff, ef, (' ' + re.escape(name)) if name is not None else '')
        if not re.search(pat, txt, re.M):
            probs.append('no table row "%d files, %d fragmented, %d excess fragments" for %s' % (fc, ff, ef, name or 'the total'))
    if e['count']:
        tl = txt.split('\n')
        gr = c20c.graph_expected(e['timemap'])
        try:
            k = next(i for i, l in enumerate(tl) if re.match(r'^ *\d+%\|', l))
            if tl[k:k + 15] != gr:
                d = next((a, b) for a, b in zip(tl[k:k + 15], gr) if a != b)
                probs.append('graph row %r, the recorded times give %r' % d)
        except StopIteration:
            probs.append('no graph printed')
        newest = e['timemap'][-1] & ~1                    # the recorded time, without the not-yet-scrubbed mark
        if (newest > now0) != ('You have scrub dates in the future' in txt):
            probs.append('scrub-dates-in-the-future warning %s although the newest recorded time is %d and the clock of the run %d'
                         % ('printed' if 'You have scrub dates in the future' in txt else 'missing', newest, now0))
        if e['bad']:
            bl = c20c.bad_line_expected(e['bad'], len(e['bad']), e['has_bad'][1], e['has_bad'][2])
            if bl not in tl:
                probs.append('list of bad stripes %r, recorded %r' % (next((l for l in tl if l.startswith('They are from block')), None), bl))
    free_known = any(m['free'] for m in st['maps']) or any(L['free'] for L in st['levels'].values())
    if free_known == ('Free space info will be valid after the first sync' in txt):
        probs.append('free-space warning does not match the recorded free block counts')
    if probs:
        cx.bad(step + '_content', 'status does not report the recorded state (content file decoded independently): ' + '; '.join(probs[:4]),
               {'problems': probs[:20], 'recorded_flag_combinations(bad,rehash,justsynced)': repr(e['flag_combinations']),
                'content_hex': open(os.path.join(tree.root, 'content'), 'rb').read().hex()[:20000], 'command': 'status -G -l status.log'})
        return e
    mo = cx.m([e['model_line']])[0]
    wm = 'ok %d %d %d %d %d %d %d' % (e['has_bad'][0], e['has_bad'][1], e['has_bad'][2], len(e['rehash']), e['count'], len(e['unsynced']), len(e['unscrubbed']))
    if mo != wm:
        cx.bad(step + '_content_model', 'the status counting model run on the decoded content disagrees with status.c and the decoded counters: model %s, recorded %s' % (mo, wm),
               {'model': mo, 'recorded': wm, 'case_line': e['model_line'][:4000]}, drift=True)
    return e


def verify_status(cx, tree, step, exp):
    """exp: dict(unsynced=set of positions, unscrubbed=set, bad=set, blockmax=int) implied by the history, or None"""
    now0 = now1 = steer(int(time.time()) + 2)            # the clock of this status run, set through the time shim
    rc, out, logb, err = tool(cx.exe, tree, ['-G', 'status'], 'status.log', now=now0)
    e = status_vs_content(cx, tree, step, out, logb, now0, now1)
    if exp is None:
        if e is not None and len(cx.samples) < 12:
            cx.samples.append({'cmd': 'status', 'step': step, 'stripes': e['blockmax'], 'has_bad': e['has_bad'], 'unscrubbed': len(e['unscrubbed']),
                               'rehash': len(e['rehash']), 'unsynced': len(e['unsynced']), 'flag_combinations': repr(e['flag_combinations'])})
        return e
    summ, blocks, info_new, info_count = status_fields(cx, logb)
    cx.evals += len(blocks)
    cx.kinds.add('status_' + step)
    try:
        got = {k: [int(x) for x in v[-1]] for k, v in summ.items()}
        c_un, c_us, c_rh, c_bad = got['has_unsynced'][0], got['has_unscrubbed'][0], got['has_rehash'][0], got['has_bad']
    except Exception as e:
        cx.bad(step, 'status -l has no has_unsynced/has_unscrubbed/has_rehash/has_bad summary (%s)' % e, {'log_tail': logb[-600:].decode('latin1')})
        return
    bad = sorted(exp['bad'])
    e_bad = [len(bad), bad[0] if bad else 0, bad[-1] if bad else 0]
    e_us = c_us if exp['unscrubbed'] is None else len(exp['unscrubbed'])
    if (c_un, c_us, c_rh, c_bad) != (len(exp['unsynced']), e_us, 0, e_bad) or len(blocks) != exp['blockmax']:
        cx.bad(step, 'status reports unsynced=%d unscrubbed=%d rehash=%d bad=%s over %d stripes; the tree history implies unsynced=%d unscrubbed=%d rehash=0 bad=%s over %d'
               % (c_un, c_us, c_rh, c_bad, len(blocks), len(exp['unsynced']), e_us, e_bad, exp['blockmax']),
               {'per_stripe': repr(blocks)[:3000], 'expected': repr({k: sorted(v) if isinstance(v, set) else v for k, v in exp.items()})[:3000]})
        return
    uns_dump = set(b[0] for b in blocks if b[3] and b[2])
    inv_only = set(b[0] for b in blocks if b[3] and not b[2])
    if uns_dump != exp['unsynced'] or set(b[0] for b in blocks if b[4]) != exp['bad'] or inv_only != exp.get('invalid_only', set()):
        cx.bad(step, 'the per-stripe dump of status marks other stripes unsynced/bad than the history implies', {'per_stripe': repr(blocks)[:3000]})
        return
    # the model's counting loop on the dumped stripes (justsynced bit from the expectation; cross-checked with info_time)
    known = exp['unscrubbed'] is not None
    infos = ','.join(str(0 if t is None else (t | (1 if b else 0) | (2 if rh else 0) | (4 if known and i in exp['unscrubbed'] else 0))) for i, t, u, un, b, rh in blocks)
    da = ','.join('1' if u else '0' for i, t, u, un, b, rh in blocks)
    db = ','.join('4' if un else '0' for i, t, u, un, b, rh in blocks)
    mo = cx.m(['status %d %s %s;%s' % (len(blocks), infos, da, db)])[0]
    cnt = sum(1 for b in blocks if b[1] is not None)
    want = 'ok %d %d %d %d %d %d %d' % (c_bad[0], c_bad[1], c_bad[2], c_rh, cnt, c_un, c_us if known else 0)
    if mo != want or info_new != c_us or (info_count is not None and info_count != cnt):
        cx.bad(step + '_model', 'the status counting model disagrees with status.c on its own per-stripe dump: model %s, C %s (info_time new=%d, info_count=%s)' % (mo, want, info_new, info_count),
               {'model': mo, 'c': want}, drift=True)
    if len(cx.samples) < 12:
        cx.samples.append({'cmd': 'status', 'step': step, 'stripes': len(blocks), 'unsynced': c_un, 'unscrubbed': c_us, 'bad': c_bad})


def pool_walk(pool):
    links, regs, dirs = {}, set(), set()
    pb = os.fsencode(pool)
    for root, ds, fs in os.walk(pb):
        for n in ds + fs:
            p = os.path.join(root, n)
            rel = os.path.relpath(p, pb)
            st = os.lstat(p)
            if stat.S_ISLNK(st.st_mode):
                links[rel] = (os.readlink(p), st.st_mtime_ns)
            elif stat.S_ISDIR(st.st_mode):
                dirs.add(rel)
            else:
                regs.add(rel)
    return links, regs, dirs


def verify_pool(cx, tree, step, walked, foreign, share=None, replay=None, missing_key=None):
    rc, out, logb, err = tool(cx.exe, tree, ['pool'], 'pool.log')
    cx.last_pool_err = err + out
    if rc != 0:
        cx.bad(step, 'pool exits %d' % rc, {'stderr': err[-500:].decode('latin1')})
        return
    exp = {}
    for (n, fs, ls), (dn, ddir) in zip(walked, tree.disks):
        base = (os.fsencode(share) + b'/' + dn.encode() + b'/') if share else os.fsencode(ddir) + b'/'
        for sub, size, s_, ns_, ino, data in fs:
            exp.setdefault(sub, (base + sub, s_ * 10 ** 9 + ns_))
        for kind, sub, to in ls:
            exp.setdefault(sub, (base + sub, None))
    links, regs, dirs = pool_walk(tree.pool)
    cx.evals += len(exp)
    cx.kinds.add('pool_' + step)
    probs = []
    for sub, (target, mt) in exp.items():
        if sub not in links:
            probs.append('no link for %r' % sub)
        elif links[sub][0] != target:
            probs.append('link %r -> %r instead of %r' % (sub, links[sub][0], target))
        elif mt is not None and mt // 10 ** 9 != 0 and links[sub][1] != mt:
            probs.append('link %r has mtime %d, file %d' % (sub, links[sub][1], mt))
        elif not share and not os.path.lexists(links[sub][0]):
            probs.append('link %r dangles' % sub)
    for sub in links:
        if sub not in exp:
            probs.append('stale link %r kept' % sub)
    for f in foreign:
        if f not in regs:
            probs.append('foreign file %r removed' % f)
    need = set()
    for sub in list(exp) + list(foreign):
        d = os.path.dirname(sub)
        while d:
            need.add(d)
            d = os.path.dirname(d)
    for d in dirs - need:
        probs.append('empty directory %r kept' % d)
    if probs and missing_key and all(p_.startswith('no link for') for p_ in probs):
        # the one shape registered (or to be registered) as a known finding: a recorded file has no link after this run
        cx.chk.violation('%s_%s' % (cx.name, step), 'pool after a recorded directory was replaced by a FILE of the same name (pool still holds the directory with the links of the previous run): '
                         + '; '.join(probs[:4]) + " (symlink() hits the old pool directory: 'Duplicate pooling' warning; the stale links and the directory are removed only "
                         'at the end of the run, so the file gets its link only at the NEXT pool run)',
                         dict(replay or {}, problems=probs[:20], pool_stderr=cx.last_pool_err.decode('latin1')[-300:]), finding_key=missing_key)
    elif probs:
        cx.bad(step, 'pool directory is not "one symlink per recorded file/link, stale ones and empty directories removed, foreign files kept": ' + '; '.join(probs[:4]),
               dict(replay or {}, problems=probs[:20], pool_stderr=cx.last_pool_err.decode('latin1')[-300:]))
    if len(cx.samples) < 12:
        cx.samples.append({'cmd': 'pool', 'step': step, 'links': len(links), 'foreign_kept': len(regs), 'dirs': len(dirs)})


# ---------------------------------------------------------------------------------------------------------
def scenario_main(cx, rng, ndisks, per_byte, nextra, share=None):
    root = mkscratch('c20.')
    tree = Tree(root, ndisks, share=share)
    names = gen_names(rng, per_byte, nextra)
    rng.shuffle(names)
    blobs = [bytes(rng.getrandbits(8) for _ in range(sz)) for sz in (1, 700, 1024, 1025, 3000, 2048)]
    blobs.append(blobs[4][:2048] + b'X' * 952)          # same first blocks as blobs[4], other tail
    blobs.append(blobs[2][:1023] + bytes([blobs[2][1023] ^ 1]))   # one bit from blobs[2]
    dirs = [b'', b'', b'sub/', b'd\nir:\\/', b'deep/er/', b' s/']
    now = 1700000000
    used = set()
    for i, nm in enumerate(names):
        di = rng.randrange(ndisks)
        sub = rng.choice(dirs) + nm
        if sub in used or len(nm) > 200:
            continue
        used.add(sub)
        r = rng.random()
        if r < 0.45:
            data = rng.choice(blobs)                    # duplicate groups of any size, across disks
        elif r < 0.55:
            data = b''
        else:
            data = bytes(rng.getrandbits(8) for _ in range(rng.choice([5, 1024, 1500, 2049])))
        nsec = rng.choice([1, 999999999, rng.randrange(1, 10 ** 9)])
        if rng.random() < 0.15:
            nsec = 0                                    # zero sub-second stamps: logged by status with the (escaped) name
        tree.write(di, sub, data, (now - rng.randrange(0, 10 ** 9)) * 10 ** 9 + nsec)
        if rng.random() < 0.12:
            ln = sub + b'.l\nnk'
            if ln not in used:
                used.add(ln)
                tree.symlink(di, ln, rng.choice([nm, b'../x y', b'/abs:olute\n', b'12345678901234 -> q']))
        if rng.random() < 0.08:
            hl = sub + b'.h:ard'
            if hl not in used:
                used.add(hl)
                tree.hardlink(di, hl, sub)
    rc, out, logb, err = tool(cx.exe, tree, ['sync'])
    if rc != 0:
        cx.bad('sync', 'sync of a tree with adversarial names exits %d' % rc, {'stderr': err[-800:].decode('latin1')})
        return
    walked = verify_list(cx, tree, 'list1')
    verify_list_variants(cx, tree, 'list1', walked)
    verify_dup(cx, tree, 'dup1', walked)
    # allocation of the first sync: per disk, files in scan order, consecutive positions
    pos = {}
    ndisk = []
    for n, fs, ls in walked:
        p = 0
        for sub, size, s_, ns_, ino, data in fs:
            for i in range(len(blocks_of(data))):
                pos[(n, sub, i)] = p
                p += 1
        ndisk.append(p)
    bm = max(ndisk)
    verify_status(cx, tree, 'fresh', {'unsynced': set(), 'unscrubbed': set(range(bm)), 'bad': set(), 'blockmax': bm})
    check_zerosub_log(cx, 'zerosub_main', open(os.path.join(tree.root, 'status.log'), 'rb').read(), walked, {})
    # pool with pre-existing contents
    pb = os.fsencode(tree.pool)
    os.makedirs(os.path.join(pb, b'stale dir/in\nner'))
    os.symlink(b'/nowhere', os.path.join(pb, b'stale dir/in\nner/old'))
    os.symlink(b'/nowhere', os.path.join(pb, b'old:top'))
    os.makedirs(os.path.join(pb, b'keep'))
    open(os.path.join(pb, b'keep/foreign.txt'), 'wb').write(b'mine')
    os.makedirs(os.path.join(pb, b'empty/dir'))
    first = walked[0][1][0][0]
    os.makedirs(os.path.dirname(os.path.join(pb, first)), exist_ok=True)
    os.symlink(b'/wrong/target', os.path.join(pb, first))          # an existing link with the wrong target
    foreign = [b'keep/foreign.txt']
    verify_pool(cx, tree, 'pool1', walked, foreign, share)
    # new files (duplicates of recorded ones among them), partial sync
    new = [(0, b'new\n1', blobs[4]), (ndisks - 1, b'new:2', blobs[4]), (0, b'zz new3', bytes(rng.getrandbits(8) for _ in range(2500))),
           (ndisks - 1, b'zz new4', blobs[5])]
    for di, sub, data in new:
        tree.write(di, sub, data, (now + 5) * 10 ** 9 + 7)
    newpos = {}
    nd2 = list(ndisk)
    walked2 = [(n, ) + walk_disk(d) for n, d in tree.disks]
    newset = set((tree.disks[di][0], sub) for di, sub, data in new)
    for k, (n, fs, ls) in enumerate(walked2):
        for sub, size, s_, ns_, ino, data in fs:
            if (n, sub) in newset:
                for i in range(len(blocks_of(data))):
                    newpos[(n, sub, i)] = nd2[k]
                    nd2[k] += 1
    bm2 = max(nd2)
    limit = min(ndisk) + 2
    rc, out, logb, err = tool(cx.exe, tree, ['sync', '-B', str(limit)])
    if rc != 0:
        cx.bad('sync_partial', 'sync -B %d exits %d' % (limit, rc), {'stderr': err[-800:].decode('latin1')})
        return
    unhashed = frozenset(k for k, p in newpos.items() if p >= limit)
    unsynced = set(p for p in newpos.values() if p >= limit)
    verify_status(cx, tree, 'partial', {'unsynced': unsynced, 'unscrubbed': set(range(bm)) | set(p for p in newpos.values() if p < limit), 'bad': set(), 'blockmax': bm2})
    walked2 = content_order(walked, verify_list(cx, tree, 'list2'))
    verify_dup(cx, tree, 'dup2', walked2, unhashed)
    rc, out, logb, err = tool(cx.exe, tree, ['sync'])
    if rc != 0:
        cx.bad('sync2', 'second sync exits %d' % rc, {'stderr': err[-800:].decode('latin1')})
        return
    verify_status(cx, tree, 'synced2', {'unsynced': set(), 'unscrubbed': set(range(bm2)), 'bad': set(), 'blockmax': bm2})
    verify_dup(cx, tree, 'dup3', walked2)
    # delete the file with the highest positions (its stripes hold nothing else) and one in the middle of another disk;
    # a sync limited to stripe 0 leaves their blocks DELETED: unsynced only where another disk still has a file block
    allpos = dict(pos)
    allpos.update(newpos)
    top = max(allpos, key=lambda k: allpos[k])
    others = sorted(set((n, sub) for (n, sub, i), p in allpos.items() if n != top[0] and p >= 2 and p < min(nd2) - 2))
    victims = [(top[0], top[1])] + ([rng.choice(others)] if others else [])
    for n, sub in victims:
        os.remove(tree.path([x[0] for x in tree.disks].index(n), sub))
    delpos = {}
    for (n, sub, i), p in allpos.items():
        if (n, sub) in victims:
            delpos.setdefault(p, set()).add(n)
    valid = set(p for (n, sub, i), p in allpos.items() if (n, sub) not in victims)
    rc, out, logb, err = tool(cx.exe, tree, ['sync', '-B', '1'])
    if rc != 0:
        cx.bad('sync_partial_del', 'sync -B 1 after deletions exits %d' % rc, {'stderr': err[-800:].decode('latin1')})
        return
    # stripes that hold nothing but deleted blocks are not kept in the content file (state_write), so none is invalid-only
    bm3 = max(valid) + 1
    verify_status(cx, tree, 'deleted', {'unsynced': set(p for p in delpos if p >= 1 and p in valid), 'unscrubbed': None, 'bad': set(), 'blockmax': bm3,
                                        'invalid_only': set()})
    rc, out, logb, err = tool(cx.exe, tree, ['sync'])
    verify_status(cx, tree, 'synced3', {'unsynced': set(), 'unscrubbed': None, 'bad': set(), 'blockmax': bm3})
    walked3 = content_order(walked2, verify_list(cx, tree, 'list3'))
    verify_dup(cx, tree, 'dup4', walked3)
    pos = {k: v for k, v in pos.items() if (k[0], k[1]) not in victims}
    bm2 = bm3
    # scrub everything, then silent corruption of two recorded blocks, scrub again
    rc, out, logb, err = tool(cx.exe, tree, ['scrub', '-p', '100', '-o', '0'])
    verify_status(cx, tree, 'scrubbed', {'unsynced': set(), 'unscrubbed': set(), 'bad': set(), 'blockmax': bm2})
    cands = [(n, sub, i) for (n, sub, i) in pos if i >= 0]
    rng.shuffle(cands)
    badpos = set()
    for n, sub, i in cands[:3]:
        p = tree.path([x[0] for x in tree.disks].index(n), sub)
        st = os.stat(p)
        b = bytearray(open(p, 'rb').read())
        b[i * BLOCK] ^= 0x40
        with open(p, 'r+b') as f:
            f.write(b)
        os.utime(p, ns=(st.st_atime_ns, st.st_mtime_ns))
        badpos.add(pos[(n, sub, i)])
    rc, out, logb, err = tool(cx.exe, tree, ['scrub', '-p', '100', '-o', '0'])
    verify_status(cx, tree, 'corrupted', {'unsynced': set(), 'unscrubbed': set(), 'bad': badpos, 'blockmax': bm2})
    # remove recorded files (one whole directory), sync, pool again: their links and the emptied directory go
    return tree, walked2, foreign


def scenario_pool_rerun(cx, rng, ndisks=2, share=None):
    root = mkscratch('c20p.')
    tree = Tree(root, ndisks, share=share)
    now = 1600000000
    for di in range(ndisks):
        for k, nm in enumerate([b'a\nb', b'only/in\\dir/x:y', b'keep/k%d' % di, b'sp ace%d' % di]):
            tree.write(di, nm if di == 0 or k >= 2 else nm + b'%d' % (di + 1), bytes([65 + k]) * (500 * (k + 1)), (now + k) * 10 ** 9 + 5 + di)
    tree.symlink(0, b'keep/l\nnk', b'a\nb')
    moved_ns = (now + 9) * 10 ** 9 + 123
    tree.write(0, b'keep/moved:m', b'M' * 1700, moved_ns)
    # names starting with a dot, at the top, inside dot directories and inside ordinary ones
    dot_ns = (now + 20) * 10 ** 9 + 77
    for k, nm in enumerate([b'.profile', b'.cache/deep/blob', b'sub/.keep', b'.config/app.ini', b'.config/stay', b'..twodots', b'.d/.e/.f']):
        tree.write(0, nm, bytes([97 + k]) * (300 + k), dot_ns + k)
    tree.symlink(0, b'.hidden link', b'.profile')
    rc, out, logb, err = tool(cx.exe, tree, ['sync'])
    walked = [(n, ) + walk_disk(d) for n, d in tree.disks]
    pb = os.fsencode(tree.pool)
    os.makedirs(os.path.join(pb, b'only/in\\dir'))
    open(os.path.join(pb, b'only/in\\dir/notes'), 'wb').write(b'foreign')
    # a pre-existing link at the path of a recorded file, with the file's time stamp but another target
    wl = os.path.join(pb, b'sp ace0')
    os.symlink(b'/somewhere/else', wl)
    st0 = os.lstat(tree.path(0, b'sp ace0'))
    os.utime(wl, ns=(st0.st_mtime_ns, st0.st_mtime_ns), follow_symlinks=False)
    verify_pool(cx, tree, 'first', walked, [b'only/in\\dir/notes'], share)
    os.remove(os.path.join(pb, b'only/in\\dir/notes'))
    # rebalancing: the file goes to another data disk, same relative path, same time stamp
    os.makedirs(os.path.dirname(tree.path(ndisks - 1, b'keep/moved:m')), exist_ok=True)
    os.rename(tree.path(0, b'keep/moved:m'), tree.path(ndisks - 1, b'keep/moved:m'))
    os.makedirs(os.path.dirname(tree.path(ndisks - 1, b'.config/app.ini')), exist_ok=True)
    os.rename(tree.path(0, b'.config/app.ini'), tree.path(ndisks - 1, b'.config/app.ini'))      # dot directory, moved with its time stamp
    os.remove(tree.path(0, b'.profile'))
    os.remove(tree.path(0, b'.hidden link'))
    shutil.rmtree(tree.path(0, b'.cache'))
    shutil.rmtree(tree.path(0, b'.d'))
    os.remove(tree.path(0, b'sub/.keep'))
    assert os.lstat(tree.path(ndisks - 1, b'keep/moved:m')).st_mtime_ns == moved_ns
    shutil.rmtree(tree.path(0, b'only'))
    os.remove(tree.path(0, b'keep/l\nnk'))
    p = tree.path(ndisks - 1, b'keep/k%d' % (ndisks - 1))
    open(p, 'wb').write(b'changed')
    os.utime(p, ns=((now + 50) * 10 ** 9 + 1, (now + 50) * 10 ** 9 + 1))
    rc, out, logb, err = tool(cx.exe, tree, ['sync'])
    if rc != 0:
        cx.bad('pool_sync', 'sync after deletions exits %d' % rc, {'stderr': err[-800:].decode('latin1')})
        return
    walked = verify_list(cx, tree, 'list_after_delete')
    verify_pool(cx, tree, 'rerun', walked, [], share)
    # the share prefix changes between two pool runs: every link must follow
    share2 = '/other/prefix' if share else '/srv/new share'
    tree.write_conf(share2)
    verify_pool(cx, tree, 'reshare', walked, [], share2)
    tree.write_conf(share)
    verify_pool(cx, tree, 'unshare', walked, [], share)


def corrupt_block(tree, di, sub, blk):
    p = tree.path(di, sub)
    st = os.stat(p)
    with open(p, 'r+b') as f:
        f.seek(blk * BLOCK)
        c = f.read(1)
        f.seek(blk * BLOCK)
        f.write(bytes([c[0] ^ 0x21]))
    os.utime(p, ns=(st.st_atime_ns, st.st_mtime_ns))


def scenario_status_flags(cx, rng):
    """info words with every combination of bad x rehash x justsynced: produced by the tool itself (sync, silent corruption,
    scrub -p new; rehash; partial scrub) and installed into the content file; status against the decoded content"""
    root = mkscratch('c20f.')
    tree = Tree(root, 2)
    t0 = 1500000000
    for di in range(2):
        for k in range(3):
            tree.write(di, b'old%d' % k, bytes(rng.getrandbits(8) for _ in range((k + 2) * BLOCK - (7 if k == 1 else 0))), (t0 + k) * 10 ** 9 + 1 + di)
    M = ['--test-force-murmur3']
    rc, out, logb, err = tool(cx.exe, tree, M + ['sync'])
    if rc != 0:
        cx.bad('flags_sync', 'sync exits %d' % rc, {'stderr': err[-600:].decode('latin1')})
        return
    verify_status(cx, tree, 'f_synced', None)
    tool(cx.exe, tree, M + ['scrub', '-p', '100', '-o', '0'])
    for di in range(2):
        for k in range(2):
            tree.write(di, b'new%d' % k, bytes(rng.getrandbits(8) for _ in range((k + 3) * BLOCK)), (t0 + 100 + k) * 10 ** 9 + 3 + di)
    tool(cx.exe, tree, M + ['sync'])
    verify_status(cx, tree, 'f_second_sync', None)
    # silent corruption of an old (scrubbed) block and of two just synced blocks, found by `scrub -p new`: bad AND just synced
    corrupt_block(tree, 0, b'new0', 1)
    corrupt_block(tree, 1, b'new1', 2)
    rc, out, logb, err = tool(cx.exe, tree, M + ['scrub', '-p', 'new'])
    e = verify_status(cx, tree, 'f_scrub_new', None)
    if e is not None and (True, False, True) not in e['flag_combinations']:
        cx.chk.notes.append('scrub -p new on a silently corrupted just-synced block did not leave a bad+justsynced info word (combinations %r)' % (e['flag_combinations'],))
    corrupt_block(tree, 0, b'old2', 0)
    tool(cx.exe, tree, M + ['scrub', '-p', '100', '-o', '0'])
    verify_status(cx, tree, 'f_scrub_all', None)
    # hash migration: every used stripe is marked for rehash, a partial scrub clears some of the marks
    rc, out, logb, err = tool(cx.exe, tree, ['rehash'])
    verify_status(cx, tree, 'f_rehash', None)
    tree.write(0, b'third', bytes(rng.getrandbits(8) for _ in range(2 * BLOCK)), (t0 + 200) * 10 ** 9 + 9)
    tool(cx.exe, tree, ['sync'])
    verify_status(cx, tree, 'f_rehash_sync', None)
    tool(cx.exe, tree, ['scrub', '-p', '40', '-o', '0'])
    verify_status(cx, tree, 'f_rehash_scrub', None)
    cx.chk.cov['status_flag_combinations_produced_by_the_tool_itself'] = sorted(cx.flagsets)
    # a file alone on its stripes goes away (stripes without any block and without info word, below recorded bad ones),
    # then a longer file fills the hole and continues above the big one: a fragmented file
    rnd = lambda n: bytes(rng.getrandbits(8) for _ in range(n))
    tree.write(0, b'mid', rnd(5 * BLOCK), (t0 + 300) * 10 ** 9 + 1)
    tree.write(0, b'zbig', rnd(112 * BLOCK), (t0 + 301) * 10 ** 9)
    tool(cx.exe, tree, ['sync'])
    verify_status(cx, tree, 'f_big', None)
    os.remove(tree.path(0, b'mid'))
    tool(cx.exe, tree, ['sync'])
    e = verify_status(cx, tree, 'f_hole', None)
    tree.write(0, b'frag', rnd(9 * BLOCK), (t0 + 302) * 10 ** 9 + 2)
    tool(cx.exe, tree, ['sync'])
    verify_status(cx, tree, 'f_fragmented', None)
    se, rows = c20c.summary_expected(c20c.load(os.path.join(tree.root, 'content')))
    cx.chk.cov['status_fragmented_files_excess_fragments_reached'] = [se['fragmented_file_count'], se['excess_fragment_count']]
    cx.chk.cov['status_stripes_without_info_below_blockmax'] = 0 if e is None else sum(1 for l in e['block_lines'] if l.startswith('block_noinfo'))
    verify_dup(cx, tree, 'f_dup_unique', [(n, ) + walk_disk(d) for n, d in tree.disks])
    # installed states: all eight combinations (and a missing info) spread over the stripes, times spread over a year
    cpath = os.path.join(tree.root, 'content')
    st = c20c.load(cpath)
    now = int(time.time())
    for variant in range(6):
        infos = []
        for i in range(st['blockmax']):
            c = (i + 3 * variant) % 9
            if st['info'][i] is None:
                infos.append(None)                      # (a used stripe without info word makes the tool abort at load: not a status matter)
            elif variant >= 3:                          # the bad range at the ends: {0}, {0, last used}, {last used}
                lastu = max(k for k in range(st['blockmax']) if st['info'][k] is not None)
                isbad = (i == 0 and variant in (3, 4)) or (i == lastu and variant in (4, 5))
                infos.append({'time': (now - 86400 * (i % 11) - 8 * i) & ~7, 'bad': isbad, 'rehash': False, 'justsynced': i % 3 == 0})
            elif variant == 2:                          # more than 100 bad stripes, some scrub dates in the future
                infos.append({'time': (now + (86400 * 3 if i % 5 == 0 else -86400 * (i % 30)) - 8 * i) & ~7, 'bad': i % 9 != 4, 'rehash': False, 'justsynced': i % 7 == 0})
            else:
                c %= 8
                infos.append({'time': (now - ((i * 53 + 17 * variant) % 400) * 86400 - 8 * i) & ~7, 'bad': bool(c & 1), 'rehash': bool(c & 2), 'justsynced': bool(c & 4)})
        if not c20c.install_info(cpath, infos):
            cx.chk.notes.append('info record of the content file could not be located: installed-state status cases skipped')
            break
        verify_status(cx, tree, 'f_installed%d' % variant, None)
    missing = [c for c in [(b, r, j) for b in (False, True) for r in (False, True) for j in (False, True)] if c not in cx.flagsets]
    if missing:
        cx.chk.notes.append('status flag combinations (bad, rehash, justsynced) not exercised: %r' % missing)


def snapshot_disks(tree):
    """every entry of every data disk (directories and symlinks included): type, inode, size, mtime, ctime, content"""
    snap = {}
    for n, d in tree.disks:
        for root, ds, fs in os.walk(os.fsencode(d)):
            for p in [root] + [os.path.join(root, x) for x in ds + fs]:
                st = os.lstat(p)
                if stat.S_ISLNK(st.st_mode):
                    c = os.readlink(p)
                elif stat.S_ISREG(st.st_mode):
                    with open(p, 'rb') as f:
                        c = f.read()
                else:
                    c = None
                snap[p] = (stat.S_IFMT(st.st_mode), st.st_ino, st.st_size, st.st_mtime_ns, st.st_ctime_ns, c)
    return snap


STALE_VARIANTS = [
    # name, disks, first generation [(disk, sub, kind)], removed afterwards, second generation
    ('file_to_dir', 1, [(0, b'a', 'f'), (0, b'c', 'f')], [(0, b'a')], [(0, b'a/b', 'f')]),
    ('two_disks', 2, [(0, b'a', 'f'), (1, b'c', 'f')], [(0, b'a')], [(0, b'a/x', 'f'), (1, b'a/y', 'f')]),
    ('two_disks_rev', 2, [(1, b'a', 'f'), (0, b'c', 'f')], [(1, b'a')], [(1, b'a/x', 'f'), (0, b'a/y', 'f')]),
    ('other_disk', 2, [(0, b'a', 'f'), (1, b'c', 'f')], [(0, b'a')], [(1, b'a/y', 'f')]),
    ('depth2', 1, [(0, b'a/b', 'f'), (0, b'a/keep', 'f')], [(0, b'a/b')], [(0, b'a/b/c', 'f'), (0, b'a/b/d\ne/f', 'f')]),
    ('link_to_dir', 2, [(0, b'c', 'f'), (0, b'l', 'l'), (1, b'k', 'f')], [(0, b'l')], [(0, b'l/f', 'f'), (1, b'l/g', 'f')]),
    ('dir_to_file', 2, [(0, b'a/b', 'f'), (0, b'a/c/d', 'f'), (1, b'k', 'f')], [(0, b'a')], [(1, b'a', 'f')]),
    ('two_levels', 1, [(0, b'a', 'f'), (0, b'z', 'f')], [(0, b'a')], [(0, b'a/b/c/d', 'f'), (0, b'a/b2', 'f')]),
]


def scenario_pool_stale_dir(cx):
    """regression family of the repaired finding F-C20-pool-stale-link-followed: a recorded file (or link) is replaced by a
    directory of the same name, possibly on another disk or on two disks; the pool still holds the link of the previous run.
    After the next pool run: exactly one link per recorded file with the right target and time, nothing created or changed
    inside any data disk, no 'Duplicate pooling' warning"""
    now = 1600000000
    for vi, (name, nd, gen1, removed, gen2) in enumerate(STALE_VARIANTS):
        root = mkscratch('c20s.')
        tree = Tree(root, nd)
        for k, (di, sub, kind) in enumerate(gen1):
            if kind == 'f':
                tree.write(di, sub, bytes([65 + k]) * (600 + k), (now + k) * 10 ** 9 + 11 + k)
            else:
                tree.symlink(di, sub, b'c')
        for di in range(nd):                               # (a file that stays on every disk: the all-files-missing interlock of sync)
            tree.write(di, b'stay%d' % di, b'S' * 500, (now + 30 + di) * 10 ** 9 + 3)
        rc, out, logb, err = tool(cx.exe, tree, ['sync'])
        walked = [(n, ) + walk_disk(d) for n, d in tree.disks]
        verify_pool(cx, tree, 'stale_%s_first' % name, walked, [])
        for di, sub in removed:
            if os.path.isdir(tree.path(di, sub)) and not os.path.islink(tree.path(di, sub)):
                shutil.rmtree(tree.path(di, sub))
            else:
                os.remove(tree.path(di, sub))
        for k, (di, sub, kind) in enumerate(gen2):
            tree.write(di, sub, bytes([97 + k]) * (700 + k), (now + 50 + k) * 10 ** 9 + 13 + k)
        rc, out, logb, err = tool(cx.exe, tree, ['sync'])
        if rc != 0:
            cx.bad('stale_%s_sync' % name, 'sync after replacing a file by a directory exits %d' % rc, {'stderr': err[-800:].decode('latin1')})
            continue
        walked = [(n, ) + walk_disk(d) for n, d in tree.disks]
        before = snapshot_disks(tree)
        recipe = {'scenario': 'pool_stale_dir', 'variant': name, 'disks': nd,
                  'steps': ['write ' + ', '.join('d%d/%s%s' % (di + 1, sub.decode('latin1'), ' (symlink)' if kd == 'l' else '') for di, sub, kd in gen1), 'sync', 'pool',
                            'remove ' + ', '.join('d%d/%s' % (di + 1, sub.decode('latin1')) for di, sub in removed),
                            'write ' + ', '.join('d%d/%s' % (di + 1, sub.decode('latin1')) for di, sub, kd in gen2), 'sync', 'pool']}
        verify_pool(cx, tree, 'stale_%s_second' % name, walked, [], replay=recipe, missing_key=KEY_DIRFILE if name == 'dir_to_file' else None)
        after = snapshot_disks(tree)
        cx.evals += len(after)
        cx.kinds.add('pool_stale_dir')
        changed = sorted(set(before) ^ set(after)) + sorted(p for p in before if p in after and before[p] != after[p])
        if changed:
            def descr(p):
                if p not in before:
                    return 'created ' + repr(os.path.relpath(p, os.fsencode(tree.root)))
                if p not in after:
                    return 'removed ' + repr(os.path.relpath(p, os.fsencode(tree.root)))
                names = ('type', 'inode', 'size', 'mtime', 'ctime', 'content')
                return 'changed %s of %r' % ('/'.join(nm for nm, a, b in zip(names, before[p], after[p]) if a != b), os.path.relpath(p, os.fsencode(tree.root)))
            cx.chk.violation('pool_stale_%s_disk' % name, 'pool writes inside a data disk when a recorded %s was replaced by a directory of the same name (the pool link of the previous run is '
                             'followed): %s' % ('link' if name == 'link_to_dir' else 'file', '; '.join(descr(p) for p in changed[:4])), dict(recipe, changed=[descr(p) for p in changed[:20]]))
        if b'Duplicate pooling' in cx.last_pool_err and name != 'dir_to_file':
            cx.chk.violation('pool_stale_%s_warn' % name, "pool warns 'Duplicate pooling' although every recorded path is unique: %s" % ' / '.join(l for l in cx.last_pool_err.decode('latin1').split('\n') if 'Duplicate pooling' in l)[:300], recipe)
        verify_pool(cx, tree, 'stale_%s_third' % name, walked, [])


def zerosub_expected(walked):
    """what status must log: per disk, in the order of the file list, the files with a zero (or invalid) sub-second stamp;
    the first 49 with ' ', the 50th with ' (more follow)', then nothing"""
    exp = []
    for n, fs, ls in walked:
        k = 0
        for sub, size, s_, ns_, ino, data in fs:
            if ns_ == 0:
                k += 1
                if k < 50:
                    exp.append((n.encode(), sub, b' '))
                elif k == 50:
                    exp.append((n.encode(), sub, b' (more follow)'))
    return exp


def check_zerosub_log(cx, step, logb, walked, replay):
    """the zerosubsecond: lines, read by the model parser, name the right files; the model prints the same bytes"""
    recs = parse_records(cx.m(['parselog ' + hx(logb)])[0])
    got = [(r[1][1], py_unesc_tag(r[1][2]), r[1][3]) for r in recs if r[0] == 'O' and r[1][0] == b'zerosubsecond' and len(r[1]) == 4]
    nz = sum(1 for r in recs if r[0] == 'O' and r[1][0] == b'zerosubsecond')
    exp = zerosub_expected(walked)
    cx.evals += len(exp)
    cx.kinds.add('status_zerosub')
    if got != exp or nz != len(exp):
        cx.bad(step, 'status -l does not log exactly the files with a zero sub-second time stamp (names read back by the model parser): expected %r, got %r (%d zerosubsecond lines)'
               % (exp[:4], got[:4], nz), dict(replay, expected=repr(exp)[:2000], got=repr(got)[:2000]))
        return False
    mo = cx.m(['zerosub ' + ' '.join(state_tokens(walked))])[0]
    parts = [unhx(x) for x in mo[3:].split('|')] if mo.startswith('ok') else None
    if parts is None or any(p_ not in logb for p_ in parts):
        cx.bad(step + '_model', 'the zerosubsecond model prints other bytes than status.c although status.c logs the right names', {'model': mo[:800]}, drift=True)
    return True


def scenario_status_space(cx, rng):
    """the free-space arithmetic of status (usable size by space / by parity, wasted space, minimum over the parity levels):
    recorded free block counts installed into the content file of a two-parity array"""
    root = mkscratch('c20w.')
    tree = Tree(root, 2, nparity=2)
    for di in range(2):
        for k in range(2 + di):
            tree.write(di, b'f%d' % k, bytes(rng.getrandbits(8) for _ in range((k + 1) * BLOCK + di)), (1500000000 + k) * 10 ** 9 + 1)
    tree.write(1, b'emptyfile', b'', 1500000009 * 10 ** 9 + 4)
    rc, out, logb, err = tool(cx.exe, tree, ['sync'])
    if rc != 0:
        cx.bad('space_sync', 'sync of a two-parity array exits %d' % rc, {'stderr': err[-600:].decode('latin1')})
        return
    verify_status(cx, tree, 'w_synced', None)
    cpath = os.path.join(tree.root, 'content')
    variants = [({'d1': (0, 0), 'd2': (0, 0)}, {0: (0, 0), 1: (0, 0)}),                                        # no free-space info at all
                ({'d1': (400000000, 300000000), 'd2': (50, 10)}, {0: (9000, 5000), 1: (9000, 1000)}),          # wasted space on d1, second level is the smaller
                ({'d1': (40, 10), 'd2': (40, 0)}, {0: (400000000, 300000000), 1: (400000000, 350000000)})]     # parity far larger than the disks
    for k, (df, pf) in enumerate(variants):
        if not c20c.install_free(cpath, df, pf):
            cx.chk.notes.append('M/P records of the content file could not be located: installed free-space cases skipped')
            return
        verify_status(cx, tree, 'w_installed%d' % k, None)


def scenario_dup_hashsize(cx, rng, hasher):
    """reduced hash size (hashsize 2): the whole-file digest dup compares is still 16 bytes.  Two different files whose digests
    agree on the first 2 bytes (found with the tool's own hash function) must not be reported; real duplicates must"""
    hs = 2
    root = mkscratch('c20h.')
    tree = Tree(root, 2, hashsize=hs)
    tree.write(0, b'seedfile', b's' * 1500, 1500000000 * 10 ** 9 + 1)
    rc, out, logb, err = tool(cx.exe, tree, ['sync'])
    if rc != 0:
        cx.bad('hs_sync', 'sync with hashsize %d exits %d' % (hs, rc), {'stderr': err[-600:].decode('latin1')})
        return
    st = c20c.load(os.path.join(tree.root, 'content'))
    kind, seed = st['hash'], st['seed'].hex()
    N = 1300
    cands = [bytes(rng.getrandbits(8) for _ in range(2 * BLOCK + 300)) for _ in range(N)]
    blocks = [b for c in cands for b in blocks_of(c)]
    bh = [bytes.fromhex(o.strip())[:hs] for o in run_lines(hasher, ['%s %s %s' % (kind, seed, b.hex()) for b in blocks])]
    bufs = [b''.join(bh[3 * i:3 * i + 3]) for i in range(N)]
    digs = [bytes.fromhex(o.strip()) for o in run_lines(hasher, ['%s %s %s' % (kind, seed, b.hex()) for b in bufs])]
    byp = {}
    pairs = []
    used = set()
    for i in range(N):
        if bufs.count(bufs[i]) > 1:
            continue
        j = byp.setdefault(digs[i][:hs], i)
        if j != i and digs[j] != digs[i] and j not in used and i not in used:
            pairs.append((j, i))
            used.update((i, j))
    pairs = pairs[:3]
    cx.chk.cov['dup_hashsize2_truncated_digest_collision_pairs'] = len(pairs)
    if not pairs:
        cx.chk.notes.append('no pair of files with whole-file digests agreeing on %d bytes found among %d candidates: hashsize dup case skipped' % (hs, N))
        return
    chosen = [x for p_ in pairs for x in p_]
    others = [i for i in range(N) if i not in used and bufs.count(bufs[i]) == 1][:12]
    for k, i in enumerate(chosen):
        tree.write(k % 2, b'coll%d_%d' % (k // 2, k % 2), cands[i], (1500000100 + k) * 10 ** 9 + 5)
    for k, i in enumerate(others):
        tree.write(k % 2, b'other%d' % k, cands[i], (1500000200 + k) * 10 ** 9 + 5)
    tree.write(1, b'true copy', cands[chosen[0]], 1500000300 * 10 ** 9 + 9)       # a real duplicate of coll0_0
    tree.write(0, b'true copy 2', cands[others[0]], 1500000301 * 10 ** 9 + 9)
    rc, out, logb, err = tool(cx.exe, tree, ['sync'])
    walked = content_order([(n, [f for f in fs if f[0] == b'seedfile'], []) for n, fs, ls in [(n, ) + walk_disk(d) for n, d in tree.disks]],
                           verify_list(cx, tree, 'hs_list'))
    # the recorded block hashes are the first hs bytes of the tool's hash, as assumed when searching
    st = c20c.load(os.path.join(tree.root, 'content'))
    rec = {f['sub']: b''.join(h for s_, p_, h in f['blocks']) for d in st['disks'].values() for f in d['files']}
    if rec.get(b'coll0_0') != bufs[chosen[0]]:
        cx.chk.notes.append('recorded block hashes at hashsize %d are not the truncated tool hashes: the collision pair may not collide' % hs)
    verify_dup(cx, tree, 'hs_dup', walked)
    if len(cx.samples) < 12:
        cx.samples.append({'cmd': 'dup', 'hashsize': hs, 'pairs_with_equal_digest_prefix': [[digs[a].hex(), digs[b].hex()] for a, b in pairs]})


def scenario_status_clock(cx):
    """status at chosen clock values around the recorded time X of a just synced array (X a multiple of 8, clock set through
    the time shim): at X+1 and X+86401 the text must be right; at X itself and at X+86400 the not-yet-scrubbed mark that
    status keeps in the lowest bit of the time (scrub_time |= TIME_NEW) is taken for a second"""
    root = mkscratch('c20k.')
    tree = Tree(root, 1)
    tree.write(0, b'f', b'x' * 3000, 1500000000 * 10 ** 9 + 5)
    X = 1700000000
    rc, out, logb, err = tool(cx.exe, tree, ['sync'], now=X)
    st = c20c.load(os.path.join(tree.root, 'content'))
    if rc != 0 or [i['time'] for i in st['info']] != [X] * 3:
        cx.chk.notes.append('clock scenario: sync under the time shim did not record the time %d (%r): skipped' % (X, [i and i['time'] for i in st['info']]))
        return
    quirks = []
    for d, want_days in ((1, 0), (86401, 1), (0, 0), (86400, 1)):
        rc, out, logb, err = tool(cx.exe, tree, ['status'], now=X + d)
        txt = out.decode('latin1')
        mt = re.search(r'the newest (\d+)\.', txt)
        warn = 'You have scrub dates in the future' in txt
        cx.evals += 1
        cx.kinds.add('status_clock')
        if warn or not mt or int(mt.group(1)) != want_days:
            msg = 'status run %d s after the recorded time: %s, newest "%s days ago" (expected no warning, %d)' % (d, 'future-date warning' if warn else 'no warning', mt.group(1) if mt else None, want_days)
            if d in (0, 86400):
                quirks.append(msg)
            else:
                cx.bad('clock_%d' % d, msg, {'recorded_time': X, 'clock': X + d, 'commands': ['sync (clock X)', 'status (clock X+%d)' % d]})
    if quirks:
        cx.chk.violation('status_clock_mark', 'status adds the not-yet-scrubbed mark (TIME_NEW, bit 0) to the recorded time before comparing it with the clock: ' + '; '.join(quirks),
                         {'scenario': 'clock', 'recorded_time': X, 'recipe': ['one file, sync with time() = X = 1700000000 (a multiple of 8; LD_PRELOAD harness/c/shim.c VSHIM_TIME)',
                                                                               'status with time() = X  -> "WARNING! You have scrub dates in the future!"',
                                                                               'status with time() = X+86400 -> "the newest 0" days ago instead of 1'], 'observed': quirks},
                         finding_key=KEY_CLOCK)


def scenario_zerosub_many(cx):
    """more than 50 files with a zero sub-second stamp on one disk: the 50th line says (more follow), later ones are not logged"""
    root = mkscratch('c20m.')
    tree = Tree(root, 2)
    for k in range(57):
        tree.write(0, b'z%02d:\n' % k if k % 2 else b'dir/z%02d' % k, b'q' * (10 + k), (1600000000 + k) * 10 ** 9)
    for k in range(4):
        tree.write(1, b'y%d' % k, b'r' * 30, (1600000100 + k) * 10 ** 9 + (k % 2))
    tool(cx.exe, tree, ['sync'])
    rc, out, logb, err = tool(cx.exe, tree, ['status'], 'status.log')
    walked = [(n, ) + walk_disk(d) for n, d in tree.disks]
    check_zerosub_log(cx, 'zerosub_many', logb, walked, {'scenario': 'zerosub_many'})
    verify_status(cx, tree, 'zerosub_many', None)


def scenario_empty(cx):
    """an array without any file: every report must say so"""
    root = mkscratch('c20e.')
    tree = Tree(root, 2)
    rc, out, logb, err = tool(cx.exe, tree, ['--force-empty', 'sync'])
    if not os.path.exists(os.path.join(tree.root, 'content')):
        cx.chk.notes.append('sync of an empty array writes no content file (exit %d): empty-array reports not exercised' % rc)
        return
    walked = verify_list(cx, tree, 'empty_list')
    verify_dup(cx, tree, 'empty_dup', walked)
    rc, out, logb, err = tool(cx.exe, tree, ['status'], 'status.log')
    cx.evals += 3
    cx.kinds.add('empty')
    lines = logb.split(b'\n')
    if rc != 0 or b'summary:has_unsynced:0' not in lines or b'summary:has_bad:0:0:0' not in lines or b'summary:file_count:0' not in lines:
        cx.bad('empty_status', 'status of an array without files (exit %d) does not report zero files / unsynced / bad' % rc, {'log_tail': logb[-800:].decode('latin1')})
    os.symlink(b'/nowhere', os.path.join(os.fsencode(tree.pool), b'stale'))
    verify_pool(cx, tree, 'empty_pool', walked, [])
    rc, out, logb, err = tool(cx.exe, tree, ['pool'], 'pool.log')
    if b'summary:link_count::0' not in logb.split(b'\n') or b'No link' not in out:
        cx.bad('empty_pool_log', 'pool of an array without files does not report zero links', {'stdout': out[-300:].decode('latin1')})


def scenario_zerosub(cx):
    """regression cases of the repaired finding F-C20-status-zerosubsecond-raw: names shaped like log lines on files with a
    zero sub-second time stamp must not forge a line of the status log"""
    cp = os.path.join(VERIF, 'corpus', 'C20', 'zerosub_regression.json')
    cases = json.load(open(cp))['cases']
    for ci, case in enumerate(cases):
        root = mkscratch('c20z.')
        tree = Tree(root, 1)
        forged = bytes.fromhex(case['name_hex'])
        tree.write(0, forged, b'z' * 100, case['mtime_ns'])
        tree.write(0, b'plain', b'y' * 100, 1600000001 * 10 ** 9)
        tree.write(0, b'subsec', b'w' * 100, 1600000001 * 10 ** 9 + 5)
        rc, out, logb, err = tool(cx.exe, tree, ['sync'])
        rc, out, logb, err = tool(cx.exe, tree, ['status'], 'status.log')
        replay = {'corpus_case': case, 'corpus_file': 'corpus/C20/zerosub_regression.json', 'commands': ['sync', 'status -l status.log'],
                  'other_files': {'plain': 'mtime nsec 0', 'subsec': 'mtime nsec 5'}}
        if case['forged_line'].encode() in logb.split(b'\n'):
            cx.chk.violation('status_zerosub_%d' % ci, 'status -l: a file with a zero sub-second time stamp named %r puts the forged line %r into the log '
                             '(the zerosubsecond: tag must print the name through esc_tag)' % (forged, case['forged_line']),
                             dict(replay, scenario='zerosub', log_excerpt=b'\n'.join(l for l in logb.split(b'\n') if l.startswith((b'zerosub', b'summary:has')))[:1500].decode('latin1')))
            continue
        walked = [(n, ) + walk_disk(d) for n, d in tree.disks]
        check_zerosub_log(cx, 'zerosub_%d' % ci, logb, walked, replay)
        if len(cx.samples) < 2:
            cx.samples.append({'cmd': 'status', 'zerosub_name': repr(forged), 'forged_line_absent': True})


# ---------------------------------------------------------------------------------------------------------
def unit_correspondence(chk, drv, model, tier):
    rng = chk.rng
    cases = []
    for a in range(256):
        cases.append(bytes([a]))
    for a in range(256):
        for b in range(256):
            cases.append(bytes([a, b]))
    specials = [10, 13, 58, 92, 32, 0, 110, 114, 100, 39, 34, 255, 97]
    nrand = 400 if tier == 'quick' else 4000
    for _ in range(nrand):
        n = rng.choice([3, 4, 7, 16, 64, 300])
        cases.append(bytes(rng.choice(specials) if rng.random() < 0.6 else rng.randrange(1, 256) for _ in range(n)))
    # the ESC_MAX boundary: escaped length 8192 fits, 8193 bails
    for n, c in ((4096, 58), (4097, 58), (8192, 97), (8193, 97), (4095, 32), (4096, 32), (4097, 32), (4100, 10)):
        cases.append(bytes([c]) * n)
    for k in (8190, 8191, 8192):
        cases.append(b'a' * k + b':')
        cases.append(b'a' * k + b' ')
    lines = []
    cp = os.path.join(VERIF, 'corpus', 'C20', 'unit_cases.txt')
    if os.path.exists(cp):
        lines += [l.strip() for l in open(cp) if l.strip() and not l.startswith('#')]
    for c in cases:
        lines.append('esctag ' + hx(c))
        lines.append('escshell ' + hx(c))
    multi = []
    for _ in range(100 if tier == 'quick' else 1000):
        parts = [bytes(rng.choice(specials + [47]) if rng.random() < 0.5 else rng.randrange(1, 256) for _ in range(rng.randrange(0, 6))) for _ in range(rng.randrange(1, 4))]
        multi.append(parts)
        lines.append('escmulti ' + ','.join(hx(p) for p in parts))
    co = run_lines(drv, lines)
    mo = run_lines(model, lines)
    nv = 0
    drift = 0
    bails = 0
    for l, a, b in zip(lines, co, mo):
        cmd, arg = l.split(' ')
        ok = True
        if a == 'bail':
            bails += 1
        if cmd in ('esctag', 'escshell') and a != 'bail':
            s = cstr(unhx(arg))
            o = unhx(a[3:]) if a.startswith('ok ') else None
            if o is None:
                ok = False
            elif cmd == 'esctag':
                ok = py_unesc_tag(o) == s and not (set(o) & {10, 13, 58})
            else:
                ok = py_unesc_shell(o) == s and all(o[i] != 32 or (i > 0 and o[i - 1] == 92) for i in range(len(o)))
            if ok and len(s) < 4096 and a == 'bail':
                ok = False
        if not ok and nv < 5:
            nv += 1
            what = ('esc_tag output is not reversible / contains a raw separator' if cmd == 'esctag' else 'esc_shell output is not reversible / has an unescaped space')
            chk.violation('unit_%s_%s' % (cmd, arg[:16]), '%s: %s(%s) = %s' % (what, cmd, arg[:60], a[:80]), {'driver': 'harness/c/c20_drv.c', 'case_line': l, 'got': a})
        elif ok and a != b:
            drift += 1
            if drift <= 3:
                chk.violation('drift_unit_%s_%s' % (cmd, arg[:16]), 'MODEL-DRIFT: model and C differ on %s %s: model %s, C %s' % (cmd, arg[:60], b[:60], a[:60]),
                              {'case_line': l, 'model': b, 'c': a}, no_input=True)
    return len(lines), bails, drift


def main(tier, replay=None):
    chk = Check('C20', tier, 'proof')
    snap = snapshot_repo()
    regen_msgs = regen(snap)
    try:
        drv = build_driver(snap, 'c20_drv.c', ['cmdline/support.c'], 'c20_drv')
        exe = build_tool(snap)
        import arraylib
        SHIM[0] = arraylib.build_shim(snap)
        hasher = build_driver(snap, 'hash_drv.c', ['cmdline/util.c', 'cmdline/stream.c', 'cmdline/support.c', 'cmdline/elem.c', 'cmdline/unix.c', 'raid/memory.c', 'tommyds/tommy.c'],
                              'hash_drv', libs=['-lblkid'])
    except BuildError as e:
        chk.violation('build', 'working tree does not build: ' + str(e)[:500], {'error': str(e)}, no_input=True)
        return chk.finish()
    ob = check_obligations('C20')
    proof_coverage(chk, ob, 'make -f Makefile.coq -k Props/Properties_C20.vo (coqc 8.16.1, full .vo) + Print Assumptions',
                   ['Coq 8.16.1 kernel incl. vm_compute', 'extraction (ExtrOcamlBasic only) + ocaml/C20/driver.ml (tokenising, hex, decimal through the model)',
                    'harness/gen/escc.py (esc_tag and the byte classification of esc_shell_multi of support.c -> Gen/EscProgs.v on every run: ESCAPE macro and cases parsed, '
                    'loop / guarded-store frame token-recognised; PATH_MAX = 4096 assumed; proved equal to Report/EscModel.v in Props/Properties_C20_escc.v)',
                    'harness/c/c20_drv.c', 'harness/py/c20_tree.py (tree walk = independent oracle, state encoding)',
                    'hand models: Report/EscModel.v (support.c esc_tag/esc_shell), Report/ViewModel.v (list.c, dup.c, status.c loops), Report/TermModel.v (list stdout)',
                    'hash functions enter the dup theorems as section variables with explicit collision-freedom hypotheses on the finite state',
                    'pool.c is tied by command-level test only (no Gallina model)'])
    try:
        model = build_model('Extract/Extract_C20.vo', 'ocaml/C20', 'c20_ext', 'driver.ml', 'model')
    except BuildError as e:
        chk.violation('model_build', 'the extracted model does not build: ' + str(e)[-600:], {'error': str(e)[-3000:]}, no_input=True)
        return chk.finish()

    if replay:
        rp = json.load(open(replay))['replay']
        if 'case_line' in rp:
            print('C    :', run_lines(drv, [rp['case_line']], shards=1)[0][:300])
            print('model:', run_lines(model, [rp['case_line']], shards=1)[0][:300])
            return 0
        print('scenario replays are regenerated from the seed: VERIF_SEED=%s ./vcheck C20 --tier %s' % (rp.get('seed'), tier))

    n_unit, bails, drift = unit_correspondence(chk, drv, model, tier)
    rng = chk.rng
    cxs = []
    plans = [('main', lambda cx: scenario_main(cx, rng, 3, True, 25)), ('pool', lambda cx: scenario_pool_rerun(cx, rng)), ('zerosub', scenario_zerosub), ('stale', scenario_pool_stale_dir), ('flags', lambda cx: scenario_status_flags(cx, rng)),
             ('zmany', scenario_zerosub_many), ('empty', scenario_empty), ('space', lambda cx: scenario_status_space(cx, rng)),
             ('hashsize', lambda cx: scenario_dup_hashsize(cx, rng, hasher)), ('clock', scenario_status_clock)]
    if tier == 'thorough':
        plans += [('main%d' % i, (lambda cx, i=i: scenario_main(cx, rng, 2 + i % 4, i % 2 == 0, 60))) for i in range(1, 7)]
        plans += [('poolshare', lambda cx: scenario_pool_rerun(cx, rng, 3, share='/share/root'))]
    for name, fn in plans:
        cx = Ctx(chk, exe, model, name)
        cxs.append(cx)
        try:
            fn(cx)
        except Exception as e:
            import traceback
            chk.violation('harness_' + name, 'scenario %s could not be evaluated: %s' % (name, traceback.format_exc()[-700:]), {'scenario': name, 'seed': chk.seed}, no_input=True)
    cmd_evals = sum(c.evals for c in cxs)
    kinds = sorted(set(k for c in cxs for k in c.kinds))
    chk.cov.update({'evaluations': n_unit + cmd_evals, 'unit_cases_model_vs_c': n_unit, 'unit_bail_cases': bails, 'unit_model_drift': drift,
                    'command_level_record_evaluations': cmd_evals, 'distinct_nontrivial': len(kinds) + 65792,
                    'command_level_checks': kinds,
                    'status_info_flag_combinations_seen(bad,rehash,justsynced)': sorted(set(f for c in cxs for f in c.flagsets)),
                    'rule': 'unit: esc_tag and esc_shell on every 1- and 2-byte string (65792) + random longer + ESC_MAX boundary + esc_shell_multi, C vs model vs python inverse; '
                            'command level: real binary on generated trees (every byte 1..255 but / in some name, newlines/colons/backslashes, non-UTF-8, symlinks, hard links, duplicate groups across disks), '
                            'logs read by the extracted parser and compared with the harness walk; non-trivial = distinct unit strings + distinct command-level check kinds',
                    'traces_validated_against_impl': cmd_evals})
    chk.cov['samples'] = [s for c in cxs for s in c.samples][:12]
    if regen_msgs:
        chk.notes.append('translator: ' + '; '.join(regen_msgs))
    chk.notes.append('F-C20 as expected by the design (stdout of list ambiguous for names with a newline) is NOT real: C20_term_framing proves the record stream '
                     'uniquely readable (spaces inside names are always escaped); only "one line = one entry" fails (C20_term_line_framing_refuted). '
                     'The real finding found instead (' + KEY_ZEROSUB + ', raw names in the zerosubsecond: lines of status -l) is repaired in the repo; '
                     'its witnesses run as regression cases from corpus/C20/zerosub_regression.json')
    if ob['failed']:
        import obname
        chk.violation('obligation', obname.obligation_text(ob, 'C20'),
                      {'theorem_files': ['coq/Props/Properties_C20.v', 'coq/Props/Properties_C20_escc.v'], 'failed': ob['failed'], 'log_tail': ob['log'][-1500:]},
                      no_input=not chk.violations)
    chk.assumptions += ['disk names contain no colon or newline (they are printed unescaped in every tag line)',
                        'list stdout model: default FMT_FILE mode, not verbose, localtime() succeeded; the date tokens are taken as printed',
                        'dup: collision freedom of the block hash and of the file-level hash on the finite state, no hash migration in progress (hypotheses of C20_dup_iff_equal_content)',
                        'dup stdout and the whole of pool.c are covered by command-level comparison only',
                        'exercised by oracle only (no Gallina model): list -v (seconds.nanoseconds token, 13 extra spaces on link lines), the per-disk/total summary: tags, '
                        'table rows, graph, scrub ages, list of bad stripes and free-space arithmetic of status (oracle = content file decoded by harness/py/content.py); '
                        '--test-fmt disk/path renderings are read and rebuilt by the list stdout model with the prefixed name',
                        'not reached: list.c symdir/junction (Windows only), pool.c and support.c fatal-error/bail branches, pool without a pool directory configured',
                        'status: the justsynced bit is not in the per-stripe dump; it is taken from the expected history and cross-checked with the info_time lines']
    return chk.finish()
