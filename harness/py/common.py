"""Shared machinery of the checks: snapshot+build of /repo's working tree, regeneration of
coq/Gen, Coq obligations, evidence, verdict protocol."""
import os, sys, subprocess, tempfile, shutil, json, time, re, hashlib, fcntl, atexit, random, glob

VERIF = os.path.dirname(os.path.dirname(os.path.dirname(os.path.abspath(__file__))))
REPO = os.environ.get('VERIF_REPO', '/repo')
COQ = os.path.join(VERIF, 'coq')
GUARD = 'SNAPRAID_VERIF'
NCPU = os.cpu_count() or 4

TOOL_SRCS = """raid/raid.c raid/check.c raid/module.c raid/tables.c raid/int.c raid/x86.c raid/intz.c raid/x86z.c
raid/helper.c raid/memory.c raid/test.c raid/tag.c tommyds/tommy.c cmdline/snapraid.c cmdline/io.c cmdline/bw.c
cmdline/util.c cmdline/stream.c cmdline/support.c cmdline/elem.c cmdline/state.c cmdline/scan.c cmdline/sync.c
cmdline/check.c cmdline/dry.c cmdline/rehash.c cmdline/scrub.c cmdline/status.c cmdline/dup.c cmdline/list.c
cmdline/pool.c cmdline/parity.c cmdline/handle.c cmdline/touch.c cmdline/device.c cmdline/fnmatch.c
cmdline/selftest.c cmdline/speed.c cmdline/import.c cmdline/search.c cmdline/mingw.c cmdline/unix.c""".split()
RAID_SRCS = [s for s in TOOL_SRCS if s.startswith('raid/')]

_scratch_dirs = []


def _cleanup():
    for d in _scratch_dirs:
        shutil.rmtree(d, ignore_errors=True)


atexit.register(_cleanup)


def scratch_root():
    for base in ('/dev/shm', '/var/tmp'):
        if os.path.isdir(base) and os.access(base, os.W_OK):
            return base
    return tempfile.gettempdir()


def mkscratch(prefix='snapverif.'):
    d = tempfile.mkdtemp(prefix=prefix, dir=scratch_root())
    _scratch_dirs.append(d)
    return d


def run(cmd, **kw):
    kw.setdefault('stdout', subprocess.PIPE)
    kw.setdefault('stderr', subprocess.STDOUT)
    kw.setdefault('text', True)
    if kw.get('text'):
        kw.setdefault('errors', 'replace')     # an aborting tool may print raw bytes: never crash the harness on them
    return subprocess.run(cmd, **kw)


def snapshot_repo():
    """Copy the *working tree* sources of /repo (tracked + untracked C sources and headers, config.h)
    to a scratch directory.  Returns the directory."""
    d = mkscratch()
    files = set()
    r = run(['git', '-C', REPO, 'ls-files', '-z'], text=False, stderr=subprocess.DEVNULL)
    for f in r.stdout.split(b'\0'):
        if f:
            files.add(f.decode())
    r = run(['git', '-C', REPO, 'ls-files', '-z', '--others', '--exclude-standard'], text=False, stderr=subprocess.DEVNULL)
    for f in r.stdout.split(b'\0'):
        f = f.decode()
        if f.endswith(('.c', '.h')):
            files.add(f)
    files.add('config.h')
    if not os.path.isdir(os.path.join(REPO, '.git')) and not os.path.isfile(os.path.join(REPO, '.git')):
        for root, dirs, fs in os.walk(REPO):
            for f in fs:
                files.add(os.path.relpath(os.path.join(root, f), REPO))
    for f in files:
        src = os.path.join(REPO, f)
        if not os.path.isfile(src):
            continue
        if not (f.endswith(('.c', '.h', '.conf')) or f.startswith('test/')):
            continue
        dst = os.path.join(d, f)
        os.makedirs(os.path.dirname(dst), exist_ok=True)
        shutil.copy2(src, dst)
    if not os.path.exists(os.path.join(d, 'config.h')):
        raise RuntimeError('config.h missing in %s (run ./configure in /repo)' % REPO)
    return d


def _compile_many(snap, srcs, objdir, cflags, cc='gcc'):
    os.makedirs(objdir, exist_ok=True)
    procs = []
    objs = []
    for s in srcs:
        o = os.path.join(objdir, s.replace('/', '_')[:-2] + '.o')
        objs.append(o)
        procs.append((s, subprocess.Popen([cc, '-DHAVE_CONFIG_H', '-I.', '-pthread', '-w'] + cflags + ['-c', s, '-o', o],
                                          cwd=snap, stdout=subprocess.PIPE, stderr=subprocess.STDOUT, text=True)))
    errs = []
    for s, p in procs:
        out, _ = p.communicate()
        if p.returncode != 0:
            errs.append('%s:\n%s' % (s, out))
    if errs:
        raise BuildError('\n'.join(errs))
    return objs


class BuildError(Exception):
    pass


def build_tool(snap, hooks=True, sanitize=False, name='snapraid'):
    """Compile the snapraid binary from the snapshot (bypassing automake).  ~4 s."""
    cflags = ['-O1', '-g']
    if hooks:
        cflags.append('-D' + GUARD)
    cc = 'gcc'
    cov = os.environ.get('VERIF_COVERAGE') and not sanitize
    if cov:
        # development aid (harness/py/coverage.py): line coverage of the real tool under a check, to aim the generators
        cflags = ['-O0', '-g', '--coverage'] + cflags[2:]
    if sanitize:
        cflags += ['-fsanitize=address,undefined', '-fno-sanitize-recover=undefined', '-fno-omit-frame-pointer']
    objs = _compile_many(snap, TOOL_SRCS, os.path.join(snap, '.obj_' + name), cflags, cc)
    out = os.path.join(snap, name)
    ld = [cc, '-pthread', '-rdynamic'] + (['-fsanitize=address,undefined'] if sanitize else []) + (['--coverage'] if cov else []) + objs + ['-o', out, '-lblkid', '-lm']
    r = run(ld, cwd=snap)
    if r.returncode != 0:
        raise BuildError(r.stdout)
    return out


def build_driver(snap, drv_c, srcs, name, extra=(), libs=()):
    """Compile a unit driver from harness/c against the snapshot's sources."""
    objs = _compile_many(snap, srcs, os.path.join(snap, '.obj_' + name), ['-O1', '-g', '-D' + GUARD])
    out = os.path.join(snap, name)
    r = run(['gcc', '-DHAVE_CONFIG_H', '-I.', '-I' + os.path.join(VERIF, 'harness', 'c'), '-O1', '-g', '-pthread', '-w', '-D' + GUARD] + list(extra) +
            [os.path.join(VERIF, 'harness', 'c', drv_c)] + objs + ['-o', out] + list(libs) + ['-lm'], cwd=snap)
    if r.returncode != 0:
        raise BuildError(r.stdout)
    return out


# ---------------------------------------------------------------------------------------
# Coq side

def regen(snap):
    """Regenerate coq/Gen/*.v from the snapshot (files are rewritten only when their content changes,
    so an unchanged tree costs nothing in `make`).  The snapshot is remembered: coq_make() regenerates again under the
    same lock hold as its `make`, so that a concurrent run against another tree (a seeded change) cannot slip its
    generated files in between."""
    LAST_SNAP[:] = [snap]
    with CoqLock():
        msgs = _regen_nolock(snap)
    REGEN_ERRORS[:] = msgs
    return msgs


def _regen_nolock(snap):
    gen = os.path.join(VERIF, 'harness', 'gen')
    os.makedirs(os.path.join(COQ, 'Gen'), exist_ok=True)
    msgs = []
    for script, args in (('tables.py', [os.path.join(snap, 'raid/tables.c'), os.path.join(COQ, 'Gen/Tables.v')]),
                         ('crc.py', [os.path.join(snap, 'cmdline/util.c'), os.path.join(COQ, 'Gen/CrcTables.v')]),
                         ('consts.py', [snap, os.path.join(COQ, 'Gen/Consts.v')]),
                         ('x86asm.py', [snap, os.path.join(COQ, 'Gen/X86Progs.v')]),
                         ('x86asm_rec.py', [snap, os.path.join(COQ, 'Gen/X86RecProgs.v')]),
                         ('intc.py', [snap, os.path.join(COQ, 'Gen/IntProgs.v')]),
                         ('intc_rec.py', [snap, os.path.join(COQ, 'Gen/IntRecProgs.v')]),
                         ('hashc.py', [snap, os.path.join(COQ, 'Gen/HashProgs.v')]),
                         ('crcc.py', [snap, os.path.join(COQ, 'Gen/CrcProgs.v')]),
                         ('varintc.py', [snap, os.path.join(COQ, 'Gen/VarintProgs.v')]),
                         ('splitc.py', [snap, os.path.join(COQ, 'Gen/SplitProgs.v')]),
                         ('escc.py', [snap, os.path.join(COQ, 'Gen/EscProgs.v')]),
                         ):
        p = os.path.join(gen, script)
        if not os.path.exists(p):
            continue
        r = run([sys.executable, p] + args)
        if r.returncode != 0:
            msgs.append('%s: %s' % (script, r.stdout.strip()[-300:]))
    return msgs


LAST_SNAP = []
REGEN_ERRORS = []


class CoqLock:
    def __enter__(self):
        self.f = open(os.path.join(COQ, '.lock'), 'w')
        fcntl.flock(self.f, fcntl.LOCK_EX)
        return self

    def __exit__(self, *a):
        fcntl.flock(self.f, fcntl.LOCK_UN)
        self.f.close()


def coq_project():
    """_CoqProject is generated: every .v under coq/ except scratch/ and *_wip.v (call with the lock held)."""
    vs = []
    for root, dirs, fs in os.walk(COQ):
        dirs[:] = sorted(d for d in dirs if d not in ('scratch',) and not d.startswith('.'))
        for f in sorted(fs):
            if f.endswith('.v') and not f.endswith('_wip.v'):
                vs.append(os.path.relpath(os.path.join(root, f), COQ))
    txt = '-Q . Snap\n-arg -w -arg -notation-overridden,-deprecated-hint-without-locality,-ambiguous-paths,-redundant-canonical-projection\n' + '\n'.join(vs) + '\n'
    pp = os.path.join(COQ, '_CoqProject')
    if not os.path.exists(pp) or open(pp).read() != txt:
        open(pp, 'w').write(txt)


def coq_make(targets, timeout=1500):
    """make -k the given .vo targets (full .vo builds).  Returns (ok, log)."""
    with CoqLock():
        if LAST_SNAP and os.path.isdir(LAST_SNAP[0]):
            REGEN_ERRORS[:] = _regen_nolock(LAST_SNAP[0])
        coq_project()
        if not os.path.exists(os.path.join(COQ, 'Makefile.coq')) or \
                os.path.getmtime(os.path.join(COQ, 'Makefile.coq')) < os.path.getmtime(os.path.join(COQ, '_CoqProject')):
            run(['coq_makefile', '-f', '_CoqProject', '-o', 'Makefile.coq'], cwd=COQ)
        try:
            r = run(['make', '-f', 'Makefile.coq', '-k', '-j%d' % NCPU] + targets, cwd=COQ, timeout=timeout)
            return r.returncode == 0, r.stdout
        except subprocess.TimeoutExpired as e:
            return False, (e.stdout or '') + '\nTIMEOUT after %ds' % timeout


FORBIDDEN = re.compile(r'\b(Admitted|admit|Axioms?|Parameters?|Conjectures?|Unset Guard|bypass_check|Admit Obligations|Unset Positivity|Unset Universe|type-in-type|impredicative-set|Guard Checking|Positivity Checking|Universe Checking)\b')
SECTION_ONLY = re.compile(r'^\s*(Local\s+|Global\s+|#\[[^\]]*\]\s*)?(Variables?|Hypothes[ie]s|Context)\b')


def coq_hygiene():
    """grep the development for forbidden constructs (and for Variable/Hypothesis/Context outside a Section, which
    declare axioms).  Returns list of offending lines."""
    bad = []
    for root, dirs, fs in os.walk(COQ):
        dirs[:] = [d for d in dirs if d not in ('scratch', 'scratch_tmp') and not d.startswith('.')]
        for f in fs:
            if f.endswith('.v') and not f.endswith('_wip.v'):
                p = os.path.join(root, f)
                src = open(p, errors='replace').read()
                # blank out comments keeping the line structure
                src = re.sub(r'\(\*.*?\*\)', lambda m: re.sub(r'[^\n]', ' ', m.group(0)), src, flags=re.S)
                depth = 0
                for n, l in enumerate(src.splitlines(), 1):
                    if FORBIDDEN.search(l):
                        bad.append('%s:%d: %s' % (os.path.relpath(p, COQ), n, l.strip()))
                    if re.match(r'^\s*Section\s+\w+', l):
                        depth += 1
                    elif re.match(r'^\s*End\s+\w+', l) and depth > 0:
                        depth -= 1
                    elif depth == 0 and SECTION_ONLY.match(l):
                        bad.append('%s:%d: outside a Section: %s' % (os.path.relpath(p, COQ), n, l.strip()))
    for mk in ('_CoqProject', 'Makefile.coq.conf'):
        try:
            t = open(os.path.join(COQ, mk)).read()
            if re.search(r'type-in-type|impredicative-set|-vos|-vok', t):
                bad.append('%s: forbidden coqc flag' % mk)
        except FileNotFoundError:
            pass
    return bad


ALLOWED_AXIOMS = set()   # the development needs none; anything printed is reported


def check_obligations(prop, extra_targets=()):
    """Re-check Props/Properties_<prop>.vo.  Returns dict(obligations, discharged, failed[list], axioms[list], log)."""
    # Props/Properties_<prop>.v plus optional continuation files Props/Properties_<prop>_*.v
    pfs = sorted(glob.glob(os.path.join(COQ, 'Props', 'Properties_%s.v' % prop)) + glob.glob(os.path.join(COQ, 'Props', 'Properties_%s_*.v' % prop)))
    theorems = []
    vos = []
    for pf in pfs:
        src = open(pf).read()
        theorems += re.findall(r'^(?:Theorem|Example)\s+(\w+)', src, re.M)
        vo = os.path.relpath(pf, COQ)[:-2] + '.vo'
        vos.append(vo)
        # force re-check of the property files themselves on every run
        try:
            os.remove(os.path.join(COQ, vo))
        except FileNotFoundError:
            pass
    ok, log = coq_make(vos + list(extra_targets))
    ok = ok and all(os.path.exists(os.path.join(COQ, vo)) for vo in vos)
    res = {'theorems': theorems, 'obligations': len(theorems), 'log': log, 'failed': [], 'axioms': []}
    if ok:
        res['discharged'] = len(theorems)
    else:
        # which theorem broke?  the first error location
        m = re.search(r'File "\./([^"]+)", line (\d+)', log)
        where = '%s:%s' % (m.group(1), m.group(2)) if m else 'unknown'
        em = re.search(r'Error:(.*?)(?:\n\n|\Z)', log, re.S)
        res['failed'] = [{'where': where, 'error': (em.group(1).strip()[:600] if em else log[-600:])}]
        res['discharged'] = 0
    # axioms: parse "Axioms:" blocks of Print Assumptions in the log
    ax = set()
    for blk in re.findall(r'Axioms:\n((?:.+\n)+?)(?=\S|\Z)', log):
        for l in blk.splitlines():
            mm = re.match(r'^(\S+)\s*:', l)
            if mm:
                ax.add(mm.group(1))
    res['axioms'] = sorted(ax)
    res['closed'] = log.count('Closed under the global context')
    if REGEN_ERRORS:
        # the model could not be regenerated from the source: the theorems are about a stale model
        res['failed'].append({'where': 'translator', 'error': '; '.join(REGEN_ERRORS)})
        res['discharged'] = 0
    bad = coq_hygiene()
    if bad:
        res['failed'].append({'where': 'hygiene', 'error': '; '.join(bad[:5])})
        res['discharged'] = 0
    return res


# ---------------------------------------------------------------------------------------
# evidence / verdict

class Check:
    def __init__(self, prop, tier, level='proof'):
        self.prop = prop
        self.tier = tier
        LEVELS = ('exploration', 'fault_enumeration', 'model_checking', 'proof', 'translation_validation', 'other')
        self.level_note = None if level in LEVELS else level
        self.level = level if level in LEVELS else ('proof' if 'proof' in level else 'other')
        self.seed = int(os.environ.get('VERIF_SEED', '1'))
        self.rng = random.Random(self.seed * 1000003 + sum(map(ord, prop)))
        self.t0 = time.time()
        self.violations = []      # (what, replay_path, no_input_found)
        self.known = []
        self.cov = {'samples': [], 'evaluations': 0, 'distinct_nontrivial': 0}
        self.assumptions = []
        self.notes = []
        self.kf = load_known_findings()

    def replay_path(self, tag):
        d = os.path.join(VERIF, 'replays', self.prop)
        os.makedirs(d, exist_ok=True)
        return os.path.join(d, '%s_%s_%d.json' % (self.tier, tag, self.seed))

    def violation(self, tag, what, replay_obj, no_input=False, finding_key=None):
        """Report a violation unless it matches an open known finding (by its specific key)."""
        if finding_key is not None:
            for k in self.kf:
                if k.get('status') == 'open' and k.get('property') == self.prop and k.get('key') == finding_key:
                    if finding_key not in [x[0] for x in self.known]:
                        self.known.append((finding_key, k.get('what', what)))
                    return
        p = self.replay_path(tag)
        n = 1
        while os.path.exists(p) and p in [v[1] for v in self.violations]:
            n += 1
            p = self.replay_path('%s_%d' % (tag, n))
        with open(p, 'w') as f:
            json.dump({'property': self.prop, 'what': what, 'replay': replay_obj}, f, indent=1, default=str)
        self.violations.append((what, p, no_input))

    def finish(self):
        wall = time.time() - self.t0
        cov = self.cov
        cov['samples'] = cov['samples'][:12]
        ev = {'property_id': self.prop, 'tier': self.tier, 'seed': self.seed, 'level': self.level,
              'coverage': cov, 'assumptions': self.assumptions, 'wall_s': round(wall, 2),
              'violations': len(self.violations), 'notes': self.notes + ([self.level_note] if self.level_note else []),
              'known_findings_reported': [k for k, _ in self.known]}
        # evidence/ only ever describes runs against /repo itself; runs against a scratch copy (seeded changes) go elsewhere
        evdir = os.path.join(VERIF, 'evidence') if (os.path.realpath(REPO) == '/repo' and not os.environ.get('VERIF_COVERAGE')) else os.path.join(VERIF, 'replays', 'scratch_evidence')
        ev['repo'] = REPO
        os.makedirs(evdir, exist_ok=True)
        with open(os.path.join(evdir, '%s.json' % self.prop), 'w') as f:
            json.dump(ev, f, indent=1, default=str)
        for k, what in self.known:
            print('KNOWN-FINDING: property=%s %s' % (self.prop, what))
        for what, p, noinp in self.violations:
            print('# %s' % what)
            print('VIOLATION property=%s replay=%s%s' % (self.prop, p, ' no-failing-input-found' if noinp else ''))
        sys.stdout.flush()
        return 1 if self.violations else 0


def load_known_findings():
    p = os.path.join(VERIF, 'known_findings.json')
    try:
        return json.load(open(p)).get('findings', [])
    except FileNotFoundError:
        return []


def proof_coverage(chk, ob, checker_cmd, trusted):
    chk.cov['obligations'] = ob['obligations']
    chk.cov['discharged'] = ob['discharged']
    chk.cov['theorems'] = ob['theorems']
    chk.cov['checker_cmd'] = checker_cmd
    chk.cov['trusted_base'] = trusted
    chk.cov['axioms_reported_by_Print_Assumptions'] = ob['axioms']
    chk.cov['closed_under_global_context_count'] = ob['closed']


def hexs(b):
    return bytes(b).hex()


# ---------------------------------------------------------------------------------------
# extracted model

def build_model(extract_vo='Extract/Extract.vo', ocdir='ocaml', ext='snapext', driver='driver.ml', exe='snapmodel'):
    """(Re)extract and compile an extracted model when the extraction output changed.
    The Coq file coq/<extract_vo minus o> must contain  Extraction "../<ocdir>/<ext>.ml" ... ;
    <ocdir>/<driver> is the hand-written OCaml glue (parsing/printing only)."""
    oc = os.path.join(VERIF, ocdir)
    os.makedirs(oc, exist_ok=True)
    ok, log = coq_make([extract_vo])
    if not ok:
        raise BuildError('extraction failed:\n' + log[-2000:])
    with CoqLock():
        extp = os.path.join(oc, ext + '.ml')
        exep = os.path.join(oc, exe)
        drv = os.path.join(oc, driver)
        if (not os.path.exists(exep)) or os.path.getmtime(exep) < max(os.path.getmtime(extp), os.path.getmtime(drv)):
            r = run(['ocamlfind', 'ocamlopt', '-w', '-a', '-O2', ext + '.mli', ext + '.ml', driver, '-o', exe], cwd=oc)
            if r.returncode != 0:
                raise BuildError('ocaml build failed:\n' + r.stdout[-2000:])
    return exep


def run_lines(exe, lines, shards=None, env=None, timeout=1800):
    """Feed case lines to a line-oriented driver, in parallel shards; returns the output lines in order."""
    if not lines:
        return []
    shards = shards or min(NCPU, max(1, len(lines) // 4))
    chunks = [lines[i::shards] for i in range(shards)]
    procs = []
    for ch in chunks:
        p = subprocess.Popen([exe], stdin=subprocess.PIPE, stdout=subprocess.PIPE, stderr=subprocess.PIPE, text=True, errors='replace', env=env)
        procs.append(p)
    import threading
    outs = [None] * shards

    def feed(i):
        o, e = procs[i].communicate('\n'.join(chunks[i]) + '\n', timeout=timeout)
        outs[i] = o.split('\n')
        if outs[i] and outs[i][-1] == '':
            outs[i].pop()
        # a crashed driver yields fewer lines: pad
        while len(outs[i]) < len(chunks[i]):
            outs[i].append('crash rc=%s %s' % (procs[i].returncode, e.strip()[-200:].replace('\n', ' ')))
    ths = [threading.Thread(target=feed, args=(i,)) for i in range(shards)]
    for t in ths:
        t.start()
    for t in ths:
        t.join()
    res = [None] * len(lines)
    for i in range(shards):
        for k, o in enumerate(outs[i]):
            res[i + k * shards] = o
    return res
