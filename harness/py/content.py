"""Independent decoder of SnapRAID content files (shares no code with the tool or the Coq model).
Used by the command-level harness as the oracle for block maps, states, hashes and info words."""
import struct

BLK, CHG, REP, DELETED = 'BLK', 'CHG', 'REP', 'DEL'

_T = []
for _i in range(256):
    _c = _i
    for _ in range(8):
        _c = (_c >> 1) ^ 0x82F63B78 if _c & 1 else _c >> 1
    _T.append(_c)


def crc32c(data, crc=0):
    crc ^= 0xFFFFFFFF
    for b in data:
        crc = _T[(crc ^ b) & 0xFF] ^ (crc >> 8)
    return crc ^ 0xFFFFFFFF


class Bad(Exception):
    pass


class R:
    def __init__(self, b):
        self.b = b
        self.p = 0

    def eof(self):
        return self.p >= len(self.b)

    def c(self):
        if self.p >= len(self.b):
            raise Bad('eof')
        v = self.b[self.p]
        self.p += 1
        return v

    def take(self, n):
        if self.p + n > len(self.b):
            raise Bad('eof')
        v = self.b[self.p:self.p + n]
        self.p += n
        return v

    def b32(self):
        v = 0
        s = 0
        while True:
            x = self.c()
            if x & 0x80:
                return (v | ((x & 0x7f) << s)) & 0xFFFFFFFF
            v |= x << s
            s += 7
            if s >= 35:
                raise Bad('varint32')

    def b64(self):
        v = 0
        s = 0
        while True:
            x = self.c()
            if x & 0x80:
                return (v | ((x & 0x7f) << s)) & 0xFFFFFFFFFFFFFFFF
            v |= x << s
            s += 7
            if s >= 70:
                raise Bad('varint64')

    def bs(self):
        n = self.b32()
        return self.take(n)


def parse(data, hash_size_default=16):
    """returns dict; raises Bad on malformed input (the harness only feeds files the tool wrote)"""
    r = R(data)
    hdr = r.take(12)
    if hdr not in (b"SNAPCNT1\n\x03\x00\x00", b"SNAPCNT2\n\x03\x00\x00", b"SNAPCNT3\n\x03\x00\x00"):
        raise Bad('header')
    st = {'version': hdr[7] - 48, 'blocksize': None, 'hashsize': hash_size_default, 'blockmax': 0, 'hash': None, 'seed': None,
          'prevhash': None, 'maps': [], 'levels': {}, 'disks': {}, 'info': [], 'crc_ok': False, 'len': len(data)}
    mapping = []

    def disk(name):
        return st['disks'].setdefault(name, {'files': [], 'links': [], 'dirs': [], 'deleted': {}})
    while not r.eof():
        if st['crc_ok']:
            raise Bad('data after crc')
        c = chr(r.c())
        if c == 'f':
            m = r.b32(); d = disk(mapping[m])
            size = r.b64(); sec = r.b64(); nsec = r.b32(); inode = r.b64(); sub = r.bs()
            nsec = -1 if nsec == 0 else nsec - 1
            if sec >= 1 << 63:
                sec -= 1 << 64
            bs = st['blocksize']
            nblk = (size + bs - 1) // bs
            blocks = []
            while len(blocks) < nblk:
                k = chr(r.c()); pos = r.b32(); cnt = r.b32()
                for i in range(cnt):
                    if k == 'n':
                        h = b'\xff' * st['hashsize']; s = CHG
                    else:
                        h = r.take(st['hashsize']); s = {'b': BLK, 'g': CHG, 'p': REP}[k]
                    blocks.append((s, pos + i, h))
            d['files'].append({'sub': sub, 'size': size, 'sec': sec, 'nsec': nsec, 'inode': inode, 'blocks': blocks})
        elif c == 'i':
            oldest = r.b32(); pos = 0
            info = [None] * st['blockmax']
            while pos < st['blockmax']:
                cnt = r.b32(); flag = r.b32()
                if flag & 1:
                    t = r.b32()
                    v = {'time': t + oldest, 'bad': bool(flag & 2), 'rehash': bool(flag & 4), 'justsynced': bool(flag & 8)}
                else:
                    v = None
                for i in range(cnt):
                    info[pos + i] = v
                pos += cnt
            st['info'] = info
        elif c == 'h':
            m = r.b32(); d = disk(mapping[m]); pos = 0
            while pos < st['blockmax']:
                cnt = r.b32(); k = chr(r.c())
                if k == 'o':
                    for i in range(cnt):
                        d['deleted'][pos + i] = r.take(st['hashsize'])
                elif k != 'O':
                    raise Bad('hole')
                pos += cnt
        elif c in 'sa':
            m = r.b32(); d = disk(mapping[m]); sub = r.bs(); to = r.bs()
            d['links'].append({'sub': sub, 'to': to, 'hard': c == 'a'})
        elif c == 'r':
            m = r.b32(); d = disk(mapping[m]); d['dirs'].append(r.bs())
        elif c in 'cC':
            k = chr(r.c()); seed = r.take(16)
            kind = {'u': 'murmur3', 'k': 'spooky2', 'm': 'metro'}[k]
            if c == 'c':
                st['hash'] = kind; st['seed'] = seed
            else:
                st['prevhash'] = kind
        elif c == 'z':
            st['blocksize'] = r.b32()
        elif c == 'y':
            st['hashsize'] = r.b32()
        elif c == 'x':
            st['blockmax'] = r.b32()
        elif c in 'mM':
            name = r.bs().decode('latin1'); pos = r.b32()
            tot = fre = 0
            if c == 'M':
                tot = r.b32(); fre = r.b32()
            uuid = r.bs()
            st['maps'].append({'name': name, 'pos': pos, 'total': tot, 'free': fre, 'uuid': uuid})
            mapping.append(name); disk(name)
        elif c == 'P':
            lev = r.b32(); tot = r.b32(); fre = r.b32(); uuid = r.bs()
            st['levels'][lev] = {'total': tot, 'free': fre, 'splits': [{'path': None, 'uuid': uuid, 'size': None}]}
        elif c == 'Q':
            lev = r.b32(); tot = r.b32(); fre = r.b32(); n = r.b32(); sp = []
            for i in range(n):
                p = r.bs(); u = r.bs(); sz = r.b64()
                sp.append({'path': p.decode('latin1'), 'uuid': u, 'size': sz})
            st['levels'][lev] = {'total': tot, 'free': fre, 'splits': sp}
        elif c == 'N':
            crc = crc32c(data[:r.p])
            stored = struct.unpack('<I', r.take(4))[0]
            if crc != stored:
                raise Bad('crc')
            st['crc_ok'] = True
        else:
            raise Bad('command %r at %d' % (c, r.p - 1))
    if not st['crc_ok']:
        raise Bad('no crc')
    return st
