#!/usr/bin/env python3
"""coverage.py <Cxx> [tier] -- development aid, not a check: runs check_<Cxx> with a gcov build of the real tool and prints,
for the anchored C files, the executable lines never reached by any command of the run (where a seeded change would be
invisible to the correspondence).  Processes killed by the shim leave no counters: kill scenarios under-report.
Writes nothing under evidence/ that matters (run the real check afterwards)."""
import os, sys, re, glob, subprocess, importlib, atexit
os.environ['VERIF_COVERAGE'] = '1'
sys.path.insert(0, os.path.dirname(os.path.abspath(__file__)))
import common
prop = sys.argv[1]
tier = sys.argv[2] if len(sys.argv) > 2 else 'quick'
files = sys.argv[3:] or ['scan.c', 'sync.c', 'check.c', 'state.c', 'scrub.c', 'elem.c', 'parity.c', 'handle.c', 'io.c', 'status.c', 'dup.c', 'list.c', 'pool.c', 'touch.c', 'rehash.c', 'stream.c', 'search.c']
# keep the snapshot directories until we have read the counters
keep = []
orig = common.mkscratch
common._cleanup_disabled = True
mod = importlib.import_module('check_' + prop)
real_cleanup = None
for fn in list(getattr(atexit, '_exithandlers', [])):
    pass
try:
    rc = mod.main(tier, None)
except SystemExit as e:
    rc = e.code
print("check exit", rc); print("scratch dirs:", [(d, len(glob.glob(os.path.join(d, ".obj_*", "*.gcda")))) for d in common._scratch_dirs][:10])
seen = {}
for d in common._scratch_dirs:
    for obj in glob.glob(os.path.join(d, '.obj_*')):
        if not glob.glob(os.path.join(obj, '*.gcda')):
            continue
        for f in files:
            o = os.path.join(obj, 'cmdline_' + f[:-2] + '.o')
            if not os.path.exists(o[:-2] + '.gcda'):
                continue
            r = subprocess.run(['gcov', '-o', obj, '-t', o], cwd=d, stdout=subprocess.PIPE, stderr=subprocess.DEVNULL, text=True, errors='replace')
            cur = None
            for l in r.stdout.splitlines():
                m = re.match(r'\s*(-|#####|=====|\d+\*?):\s*(\d+):(.*)', l)
                if not m:
                    continue
                if int(m.group(2)) == 0:
                    mm = re.match(r'Source:(.*)', m.group(3))
                    if mm:
                        cur = os.path.basename(mm.group(1))
                    continue
                if cur != f:
                    continue
                cnt = m.group(1)
                ln = int(m.group(2))
                hit = cnt not in ('-', '#####', '=====')
                exe = cnt != '-'
                if exe:
                    st = seen.setdefault(f, {})
                    st[ln] = st.get(ln, False) or hit
                    seen.setdefault(f + ':src', {})[ln] = m.group(3)
for f in files:
    st = seen.get(f)
    if not st:
        continue
    miss = sorted(l for l, h in st.items() if not h)
    print('\n== %s: %d of %d executable lines never reached' % (f, len(miss), len(st)))
    # group into ranges, skip LCOV_EXCL regions roughly by printing the source
    src = seen[f + ':src']
    rng = []
    for l in miss:
        if rng and l <= rng[-1][1] + 2:
            rng[-1][1] = l
        else:
            rng.append([l, l])
    for a, b in rng:
        print('  %d-%d: %s' % (a, b, src[a].strip()[:110]))
