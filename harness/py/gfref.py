"""Implementation-independent GF(2^8)/0x11d reference (shares no code with the tool or the Coq model):
shift-and-xor multiplication, closed-form generator matrices, plain matrix product, Gaussian elimination."""


def gmul(a, b):
    r = 0
    while b:
        if b & 1:
            r ^= a
        a <<= 1
        if a & 0x100:
            a ^= 0x11d
        b >>= 1
    return r


MUL = [[gmul(a, b) for b in range(256)] for a in range(256)]
INV = [0] * 256
for _a in range(1, 256):
    for _b in range(1, 256):
        if MUL[_a][_b] == 1:
            INV[_a] = _b
            break
POW2 = [1] * 256
for _i in range(1, 256):
    POW2[_i] = MUL[POW2[_i - 1]][2]


def cauchy(j, i):
    if j == 0:
        return 1
    if j == 1:
        return POW2[i % 255]
    y = POW2[j - 1]
    x = INV[POW2[i % 255]]
    num = 1 ^ y            # 1/(x_0 + y) inverted: row normalised so that column 0 is 1
    return MUL[num][INV[x ^ y]]


def power(j, i):
    return [1, POW2[i % 255], INV[POW2[i % 255]]][j]


def matrix(mode):
    return power if mode == 'z' else cauchy


def gen(mode, np_, data):
    """data: list of bytes objects (same length).  Returns list of np bytes objects."""
    size = len(data[0])
    M = matrix(mode)
    out = []
    for j in range(np_):
        acc = bytearray(size)
        for i, d in enumerate(data):
            row = MUL[M(j, i)]
            for c in range(size):
                acc[c] ^= row[d[c]]
        out.append(bytes(acc))
    return out


def rank(rows):
    """rank of a matrix (list of lists of ints) over GF(2^8)"""
    m = [r[:] for r in rows]
    rk = 0
    ncol = len(m[0]) if m else 0
    for c in range(ncol):
        piv = None
        for r in range(rk, len(m)):
            if m[r][c]:
                piv = r
                break
        if piv is None:
            continue
        m[rk], m[piv] = m[piv], m[rk]
        iv = INV[m[rk][c]]
        m[rk] = [MUL[iv][x] for x in m[rk]]
        for r in range(len(m)):
            if r != rk and m[r][c]:
                f = m[r][c]
                m[r] = [x ^ MUL[f][y] for x, y in zip(m[r], m[rk])]
        rk += 1
    return rk


def _xor(a, b):
    return (int.from_bytes(a, 'little') ^ int.from_bytes(b, 'little')).to_bytes(len(a), 'little')


_TT = [bytes(MUL[c]) for c in range(256)]


def scale(c, blk):
    return blk.translate(_TT[c])


def solve_unknown(mode, parity_blocks, data, unknown):
    """data: list of blocks (bytes) with arbitrary content at the `unknown` positions; parity_blocks: list of the real
    parity blocks of levels 0..k-1 (k >= len(unknown)).  Returns the blocks at the unknown positions such that levels
    0..len(unknown)-1 are satisfied (every square minor of the generator is invertible), or None."""
    k = len(unknown)
    if k == 0:
        return []
    if k > len(parity_blocks):
        return None
    M = matrix(mode)
    size = len(parity_blocks[0])
    rhs = []
    for l in range(k):
        acc = parity_blocks[l]
        for i, d in enumerate(data):
            if i in unknown:
                continue
            acc = _xor(acc, scale(M(l, i), d))
        rhs.append(acc)
    # invert the k x k matrix A[l][u]
    A = [[M(l, u) for u in unknown] for l in range(k)]
    V = [[1 if i == j else 0 for j in range(k)] for i in range(k)]
    for c in range(k):
        piv = None
        for r in range(c, k):
            if A[r][c]:
                piv = r
                break
        if piv is None:
            return None
        A[c], A[piv] = A[piv], A[c]; V[c], V[piv] = V[piv], V[c]
        iv = INV[A[c][c]]
        A[c] = [MUL[iv][x] for x in A[c]]; V[c] = [MUL[iv][x] for x in V[c]]
        for r in range(k):
            if r != c and A[r][c]:
                f = A[r][c]
                A[r] = [x ^ MUL[f][y] for x, y in zip(A[r], A[c])]
                V[r] = [x ^ MUL[f][y] for x, y in zip(V[r], V[c])]
    out = []
    for j in range(k):
        acc = bytes(size)
        for l in range(k):
            if V[j][l]:
                acc = _xor(acc, scale(V[j][l], rhs[l]))
        out.append(acc)
    return out
