#!/usr/bin/env python3
"""Writes /verif/MANIFEST.json from the table below (kept in one place so it stays valid)."""
import json, os
V = os.path.dirname(os.path.dirname(os.path.dirname(os.path.abspath(__file__))))
TB = ("Coq 8.16.1 kernel incl. vm_compute (no native_compute); no axioms declared; translators harness/gen/*.py; "
      "extraction with ExtrOcamlBasic only + ocaml/driver.ml; C drivers harness/c/*.c; independent python oracles; "
      "hand-written models are tied to the C by differential execution on every run (see DESIGN.md section 6)")
CHECKS = {
 'C16': dict(cat='proof', tech='Rocq proof (CRC-32C table/slicing-by-4/hardware loop = bit-serial definition for all strings, 4-byte burst theorem, varint/string codecs round trip + EOF strictness, block-size rule) + translation validation of the Murmur3/Spooky2 models and of vendored reference arrays',
             text='Codec and checksum functions are proved equal to closed definitions for every input; hash models and the current binary are validated against 19818 vendored digests and 8 vendored arrays written by the pinned reference (check, fix after wiping each disk, parity rebuild byte-exact).',
             ref='4/C16'),
 'C18': dict(cat='proof', tech='Rocq proof (glob matcher = declarative Matches relation; first-match, default direction, directory-rule, rooted-pattern and parse theorems for arbitrary rule lists; selection predicate) + correspondence with libc fnmatch, the repo fnmatch.c, filter_* direct calls and list/check/fix on generated trees',
             text='The include/exclude decision procedure is proved against its declarative meaning for all rule lists and paths; the matcher and filters are executed against libc and the real elem.c on ~60k generated cases per run and against the real binary on generated configurations and trees with an independent tree walk as oracle.',
             ref='4/C18'),
 'C06': dict(cat='proof', tech='Rocq proof (inductive invariant MapOK/ParOK of the sync-loop model for all states, file-system contents, read faults and stop points; save normalisation; reachability over load/scan/sync/save/info/touch/fix-parity-write steps under cross-length hash injectivity, shown necessary by a witness; with parity WRITE faults: every stripe recorded synced and not marked bad has valid parity, for the faulty loop of the C08 model, any fault assignment, io mode and schedule) + one-step command-level correspondence of the sync loop + independent map/parity oracles after every command of generated histories',
             text='The invariant "every all-BLK stripe has parity encoding blocks that hash to the recorded hashes, and the block map is well formed" is proved inductive over load/sync/save rounds of the faithful sync model (parity-write faults excluded and refuted separately); the model is replayed against the real sync on every generated history and an independent decoder + GF reference recompute every synced stripe after every real command.',
             ref='4/C06'),
 'C15': dict(cat='proof', tech='Rocq proof (plan selection: bad always, full/new/bad plans, percentage quota, age limit, oldest-first with tie rule; honest bookkeeping; eventual coverage by default scrubs) + command-level correspondence under a steered clock',
             text='Selection and bookkeeping theorems hold for arbitrary info arrays; the model is compared with hundreds of real scrub runs per check (limits, processed set, every info word afterwards, data/parity untouched).',
             ref='4/C15'),
 'C17': dict(cat='proof', tech='Rocq proof (split addressing bijection, no straddling, read-after-write/resize/reopen, fill maximality, chsize: only the last used split grows, refinement to a single flat file for any history) + unit correspondence with parity.c and twin-array command-level runs',
             text='Addressing and resize theorems for all split lists and histories; the model runs against the real parity.c (included in the driver) and the real binary on twin arrays whose split concatenation must equal the single-file parity.',
             ref='4/C17'),
 'C20': dict(cat='proof', tech='Rocq proof (tag escaping inverse and separator-free, log line print/parse round trip, list exactness and order, dup iff equal hashes, status counters, terminal framing) + unit correspondence on all 1- and 2-byte strings + command-level list/dup/status/pool on adversarial names',
             text='Escaping and report functions are proved for all byte strings/states; the escapers are executed against support.c on 130k cases and the reports of the real binary are parsed by the extracted model parser and compared with an independent tree walk.',
             ref='4/C20'),
 'C09': dict(cat='proof', tech='Rocq proof (CRC-32C 4-byte window theorem and seal/residue lemmas; truncation and any <=32-bit alteration of an accepted content file are rejected, on the real grammar decoder; save_atomic over all crash prefixes incl. torn writes, any number of copies) + every truncation / single-bit flip of real content files through the real loader (plain and ASan+UBSan builds) + kill at every numbered syscall of a save',
             text='Rejection theorems are about the transcribed content grammar (tied to the C loader on ~20000 mutants per run) and the save protocol model (tied call by call to the syscall log); memory safety of the C loader itself is only tested with sanitizers, not proved.',
             ref='4/C09', note='As TB; additionally: memory safety is TESTED (ASan+UBSan on exhaustive truncation/bit-flip sets), not proved; file-system assumptions: rename atomic, completed calls persist across process death (no power-loss model).'),
 'C13': dict(cat='proof', tech='Rocq proof (inductive invariant of the io.c slot-ring transition system for all n>=3, R>=1, W>=0, all position lists: buffer ownership, stripe order, no deadlock, termination measure; n=2 deadlock witness; a stop/restart at the next block keeps every stripe exactly once and in order across ring sessions) + trace inclusion of real runs via the SNAPRAID_VERIF hook under seeded schedule perturbation + cache-depth differential',
             text='The ring protocol is proved for all parameters and schedules on a transcription of io.c; every recorded event of hundreds of perturbed real runs is replayed by the extracted step function; parity/content bytes and error tag multisets are compared across cache depths 1..128. The pthread runtime, memory model and scan threads are outside the model (TSan run in the thorough tier is a test).',
             ref='4/C13'),
 'C12': dict(cat='proof', tech='Rocq proof on an effect-type model of the command dispatcher (allowed effect sets per command, sync never writes data, fix never writes content and reports what it writes, refusals change nothing) + run-by-run comparison with the syscall write-set log of the LD_PRELOAD shim and whole-array byte/mtime/inode snapshots',
             text='The theorems are light (case analysis of the transcribed dispatcher); the weight is in the tie: for every generated scenario (commands x array conditions x options x injected errors) the observed effect classes must be included in the model\'s allowed set and equal its prediction, and independent snapshots prove nothing else changed.',
             ref='4/C12'),
 'C14': dict(cat='proof', tech='Rocq proof (each interlock fires before the first content/parity effect; refuse/override iff; lock exclusion over any schedule) + trigger matrix on the real binary with byte snapshots before/after and live lock contention',
             text='Ordering theorems on the dispatcher/sync model with the exact trigger predicates transcribed from scan.c/sync.c/state.c; every trigger is exercised on every disk/level/copy with and without override against the real binary, refusals must leave content and parity byte-identical.',
             ref='4/C14'),
 'C10': dict(cat='proof', tech='Rocq proof (decode (encode now s) = normalise now s for every well-formed state, all records, run-length encoders, both format versions; copies identical; rewrite byte-identical under the displayed clock hypothesis, refuted without it) + byte-exact correspondence real->model (re-encode of every content file produced by driven histories) and model->real (generated states installed and rewritten by the tool)',
             text='The content grammar reader/writer pair is transcribed record by record and the round trip is proved compositionally for all states; the transcription is pinned byte for byte against the real writer on reachable states and against the real reader/rewriter on generated boundary-valued states.',
             ref='4/C10'),
 'C11': dict(cat='proof', tech='Rocq proof (scan soundness w.r.t. the listing, diff verdict, scan preserves MapOK/ParOK of C06, sync loop converges to all-BLK, rescan fixpoint) + one-step correspondence of the scan model (post-scan content of a real sync killed before its first parity write; diff counters) + random file-system histories judged by the harness tree walk',
             text='The scan model transcribes scan.c branch by branch and is compared with the real post-scan state (exact positions, states, past hashes) on every generated history; diff/sync/list/check are judged by an independent walk of the tree.',
             ref='4/C11'),
 'C19': dict(cat='proof', tech='Rocq proof (identity rules, inherited hashes give REP never BLK, REP/CHG verified in the very step that makes them BLK, REP mismatch refuses the stripe, pre-hash leaves parity untouched, --force-nocopy, fetch verified by hash) + decoy scenarios on the real binary with parity snapshots and an independent hash of every BLK block',
             text='Theorems on the scan/sync/pre-hash models; decoys (same name, size, time-stamp, other bytes) on the same disk, other disks and import directories must never be recorded synced without having been read, and with -h no parity byte may change.',
             ref='4/C19'),
 'C07': dict(cat='proof', tech='Rocq proof on an effect-trace model of sync (crash states = prefixes incl. torn writes; every crash state keeps a loadable content whose synced stripes have valid parity, for every io mode, autosave point, stop and crash point (the autosave drains the writers since the repair 6a618a2); resume converges; adds-only recoverability per intact level) + fault enumeration on the real binary: kill before/after/short at every numbered state-changing syscall of sync and fix, signals at every parity write',
             text='The crash-state invariant is proved on the trace model (content save atomic by C09, parity writes per level in order) and refuted for the threaded autosave (open finding); every kill point of real runs is then judged by independent oracles (data snapshot, loadable content, independent parity check, resumed sync, recovery from lost devices). Kernel/power-loss semantics are not modelled.',
             ref='4/C07', note='As TB; additionally: process-death semantics only (completed syscalls persist; no power-loss or write-reordering model); a torn block-sized pwrite with a single parity level is measured, not judged (Q-C07).'),
 'C08': dict(cat='proof', tech='Rocq proof (read faults in sync and scrub leave the stripe unsynced or bad with a failing status; error limit; exit status failing for every write fault and writer schedule; every failed parity write leaves its stripe marked bad with a failing status, for every writer schedule, since the repair 0ecd44a) + fault enumeration: EIO/ENOSPC at every pread/pwrite index with cache depths 1..128, compared with the extracted writer-accounting model',
             text='Read-fault safety and write-fault safety (failing status, stripe marked bad, frame) are proved for all runs, fault sequences and writer schedules of the sync/scrub models; the stripe-state half was false of the pinned tree and is repaired by /repo 0ecd44a (regression Examples kept). Every injected fault of real runs is judged by exit status, decoded content, status, and repair by fix -e / sync verified with the independent parity checker.',
             ref='4/C08'),
 'C01': dict(cat='proof', tech='Rocq proof on the check/fix model, per stripe step and lifted to the WHOLE RUN (check_run over all stripes with frame lemmas: every file back with recorded size, blocks and time-stamp, every parity row re-encoded, objects restored, exit 0, clean-up a no-op, a following check quiet; repair enumerates parity combinations, rejects damaged levels by hash) + command-level correspondence and an independent byte/mtime snapshot over every subset of <= np destroyed devices on small geometries',
             text='fix_restores is proved for one stripe position of the transcribed repair/fix step under collision-freedom on the finite block set; the whole run (files spanning stripes, links, dirs, exit status) is tied to the binary by correspondence and judged by an independent snapshot after fix and check on exhaustive device subsets.',
             ref='4/C01'),
 'C04': dict(cat='proof', tech='Rocq proof (check/scrub stripe steps and WHOLE RUNS emit exactly one located error tag per damaged block and one parity_error per inconsistent level of a recoverable stripe, nothing on undamaged stripes, files and parity untouched, failing status iff some damage; scrub marks exactly the damaged planned stripes bad and refreshes the others) + every single block of every file and parity level corrupted in turn on the real binary, tag sets compared for equality',
             text='Location and no-false-alarm theorems on the stripe-step models; real runs with each block corrupted (bit, byte, block, zeroed, swapped) must report exactly the predicted tag sets, exit status and bad marks.',
             ref='4/C04'),
 'C05': dict(cat='proof', tech='Rocq proof: fix_never_wrong stated in full, refuted by concrete witness histories (vm_compute) for the open findings b, c, d; proved under PastHashInv (partial); regression theorem for the repaired F-C05a + histories with a version store on the real binary, wrong results attributed to a finding only by an independent diagnosis',
             text='The full-strength statement is false on this tree in three registered ways (printed as KNOWN-FINDING); the partial theorem names the invariant repair relies on. Generated histories (interrupted/partial syncs, re-used positions, any damage, filters) are judged by the harness version store: every file must equal a stored version matching its record or be reported unrecoverable.',
             ref='4/C05'),
 'C03': dict(cat='proof', tech='Rocq proof (MDS of the 6x251 Cauchy and 3x251 power matrices by polynomial root counting in MathComp; Gauss-Jordan without pivoting never meets a zero pivot; combination enumerator and sorting networks; the six SSSE3/AVX2 decoders of x86.c and the four portable byte-loop decoders of int.c TRANSLATED on every run and proved equal to the recovery expression by verified reflective checkers) + unit correspondence of raid_rec/raid_data/raid_check/raid_scan in all decoder families against the known original stripe',
             text='All 3.8e11 minors are settled by theorems, not enumeration; the decoder/validator models are executed against the real raid/*.c (int8, ssse3, avx2, dispatcher) on exhaustive small geometries and boundary-aimed large ones, the oracle being the original stripe.',
             ref='4/C03'),
 'C02': dict(cat='proof', tech='Rocq proof (tables regenerated from tables.c = closed forms; GF(2^8) field laws; 32/64-bit SWAR lemmas; portable generator models = matrix product for all nd<=251; the 10 portable generators of int.c/intz.c and the gf.h helpers TRANSLATED on every run and proved by a verified abstract interpreter; the 20 SIMD generators of x86.c/x86z.c TRANSLATED on every run into a deep-embedded program and proved by a verified reflective checker) + unit correspondence of all 31 exported variants and of the extracted SIMD interpreter against the silicon',
             text='Theorems over the regenerated tables and the generator models for all geometries and contents; every exported raid_gen* variant (incl. SIMD) is executed against the extracted model and an independent GF reference on a complete per-disk byte basis.',
             ref='4/C02'),
}
NA = {}
for i in range(1, 21):
    pid = 'C%02d' % i
    if pid not in CHECKS:
        NA[pid] = 'check not built yet (work in progress in this development; see DESIGN.md build order) - not a claim that the technique cannot apply'
m = {
 'version': 1,
 'setup_cmd': './setup.sh',
 'hooks': {'guard': 'SNAPRAID_VERIF', 'enable': 'checks compile a scratch copy of /repo working tree with gcc -DHAVE_CONFIG_H -DSNAPRAID_VERIF (harness/py/common.py)',
           'baseline_off_cmd': 'cd /repo && make -j8 && make check', 'source_commits': ['358920c (cmdline/io.c: verif_io_event trace hook for C13)'], 'add_only': True},
 'engines': [{'name': 'vcheck', 'path': 'vcheck', 'serves_properties': sorted(CHECKS), 'kind_free_text': 'Rocq/Coq 8.16.1 development under coq/ (logical root Snap) re-checked per property + correspondence harness (python, C drivers, extracted OCaml model)'}],
 'checks': [],
 'not_applicable': [{'property_id': k, 'reason': v} for k, v in sorted(NA.items())],
 'notes': 'Every check: snapshot+build of /repo working tree in a scratch dir, regeneration of coq/Gen from it, re-check of coq/Props/Properties_<id>.vo, correspondence run, verdict.  See DESIGN.md.'
}
for pid, c in sorted(CHECKS.items()):
    m['checks'].append({'property_id': pid, 'quick_cmd': './vcheck %s --tier quick' % pid, 'thorough_cmd': './vcheck %s --tier thorough' % pid,
                        'evidence_file': 'evidence/%s.json' % pid, 'replay_cmd_template': './vcheck %s --replay {path}' % pid, 'engine': 'vcheck',
                        'level_claimed': {'category': c['cat'], 'text': c['text'], 'design_ref': c['ref']},
                        'level_note': c.get('note', TB), 'technique': c['tech']})
json.dump(m, open(os.path.join(V, 'MANIFEST.json'), 'w'), indent=1)
print('MANIFEST.json: %d checks, %d not_applicable' % (len(m['checks']), len(m['not_applicable'])))
