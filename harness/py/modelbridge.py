"""Bridge between the real array (bytes) and the abstract array model (ids): block ids, hash ids, serialisation
for the OCaml drivers of the array model (format documented in ocaml/C06/driver.ml)."""
import os
import content as cparse
import gfref


class Bridge:
    def __init__(self, arr):
        self.arr = arr
        self.bs = arr.bs
        self.bids = {bytes(self.bs): 0}
        self.blocks = [bytes(self.bs)]
        self.hids = {}
        self.names = {}
        self.hash_done = set()
        self.hash_known = {}     # (bid, len) -> hval token, learnt from content files and from the hasher
        self.parity = [[] for _ in range(arr.np)]   # model parity: level -> list of tokens lists ('N' | ['E', ids])

    # ---- ids
    def bid(self, blk):
        blk = bytes(blk) + bytes(self.bs - len(blk))
        if blk not in self.bids:
            self.bids[blk] = len(self.blocks)
            self.blocks.append(blk)
        return self.bids[blk]

    def hval(self, h):
        if len(h) == 16 and h == b'\xff' * 16:
            return 'Z'
        if len(h) == 16 and h == b'\x00' * 16:
            return 'I'
        if h not in self.hids:
            self.hids[h] = len(self.hids) + 1
        return str(self.hids[h])

    def name(self, disk, sub):
        k = (disk, sub)
        if k not in self.names:
            self.names[k] = len(self.names) + 1
        return self.names[k]

    # ---- serialisation
    def ser_content(self, st):
        order = sorted(st['maps'], key=lambda m: m['pos'])
        npos = (max(m['pos'] for m in st['maps']) + 1) if st['maps'] else 0
        npos = max(npos, self.arr.nd)
        bypos = {m['pos']: m['name'] for m in st['maps']}
        toks = ['C', str(npos), str(st['blockmax'])]
        for p in range(npos):
            if p not in bypos:
                # a configured disk without mapping still is a disk for the tool (it just has no content)
                toks += ['D', '0', '0'] if p < self.arr.nd else ['D-']
                continue
            d = st['disks'][bypos[p]]
            toks += ['D', str(len(d['files'])), str(len(d['deleted']))]
            for f in sorted(d['files'], key=lambda f: f['sub']):
                toks += ['F', str(self.name(bypos[p], f['sub'])), str(f['size']), str(f['sec']), str(f['nsec']), str(f['inode']), '0', str(len(f['blocks']))]
                for (s, pos, h) in f['blocks']:
                    toks += [{'BLK': 'b', 'CHG': 'g', 'REP': 'p'}[s], str(pos), self.hval(h)]
            for pos in sorted(d['deleted']):
                toks += [str(pos), self.hval(d['deleted'][pos])]
        toks += ['INFO', str(len(st['info']))]
        for i in st['info']:
            toks += ['-'] if i is None else [str(i['time']), str(int(i['bad'])), str(int(i['rehash'])), str(int(i['justsynced']))]
        return toks

    def canon_content(self, toks):
        """canonical form for comparison: file order inside a disk and deleted order are significant in the file,
        but we compare as the tool stores them, so keep as is"""
        return ' '.join(toks)

    def ser_parity(self):
        toks = ['P', str(self.arr.np)]
        for lv in self.parity:
            toks.append(str(len(lv)))
            for e in lv:
                toks += e
        return toks

    def parse_parity(self, toks, i):
        assert toks[i] == 'P'
        nl = int(toks[i + 1]); i += 2
        par = []
        for l in range(nl):
            n = int(toks[i]); i += 1
            lv = []
            for k in range(n):
                t = toks[i]; i += 1
                if t[0] == 'E':
                    cnt = int(t[1:])
                    lv.append([t] + toks[i:i + cnt]); i += cnt
                else:
                    lv.append([t])
            par.append(lv)
        return par, i

    def ser_fs(self, st_names=None):
        """the data disks as the tool would read them now"""
        toks = ['FS', str(self.arr.nd)]
        for d in self.arr.disks:
            base = os.path.join(self.arr.root, d)
            files = []
            for root, dirs, fs in os.walk(base):
                for n in fs:
                    p = os.path.join(root, n)
                    if os.path.islink(p):
                        continue
                    sub = os.path.relpath(p, base).encode('latin1', 'surrogateescape')
                    st = os.stat(p)
                    data = open(p, 'rb').read()
                    ids = [self.bid(data[k:k + self.bs]) for k in range(0, len(data), self.bs)]
                    files.append([str(self.name(d, sub)), str(len(data)), str(st.st_mtime_ns // 10**9), str(st.st_mtime_ns % 10**9), str(st.st_ino), str(len(ids))] + list(map(str, ids)))
            toks += ['X', str(len(files))]
            for f in files:
                toks += f
        return toks

    def learn_hashes(self, st):
        """content files tell the hash of every BLK/REP block (and of CHG blocks hashed by a sync): associate them with
        the block id of the matching stored version"""
        for dname, d in st['disks'].items():
            for f in d['files']:
                v = self.arr.find_version(dname, f)
                if v is None:
                    continue
                for i, (s, pos, h) in enumerate(f['blocks']):
                    if s in ('BLK', 'REP'):
                        blk = v[i * self.bs:(i + 1) * self.bs]
                        key = (self.bid(blk), len(blk))
                        # a REP block carries an INHERITED hash (it may not be the hash of this data): never learn from it,
                        # and never override a hash computed with the tool's own function
                        if s == 'BLK' and key not in self.hash_done:
                            self.hash_known[key] = self.hval(h)

    def compute_hashes(self, hasher, st, extra_lens=()):
        """complete the hash table with the tool's own hash function (harness/c/hash_drv.c built from the working tree):
        every known block id x every block length in use"""
        from common import run_lines
        if self.arr.bs != st['blocksize'] or st['hash'] is None:
            return
        lens = {self.bs} | set(extra_lens)
        for d in st['disks'].values():
            for f in d['files']:
                if f['size'] % self.bs:
                    lens.add(f['size'] % self.bs)
        for d in self.arr.disks:
            base = os.path.join(self.arr.root, d)
            for root, dirs, fs in os.walk(base):
                for n in fs:
                    p = os.path.join(root, n)
                    if not os.path.islink(p):
                        sz = os.path.getsize(p)
                        if sz % self.bs:
                            lens.add(sz % self.bs)
        todo = [(b, l) for b in range(len(self.blocks)) for l in sorted(lens) if (b, l) not in self.hash_done]
        if not todo:
            return
        seed = st['seed'].hex()
        lines = ['%s %s %s' % (st['hash'], seed, self.blocks[b][:l].hex()) for b, l in todo]
        outs = run_lines(hasher, lines, shards=min(8, max(1, len(lines) // 50)))
        for (b, l), o in zip(todo, outs):
            self.hash_done.add((b, l))
            try:
                dig = bytes.fromhex(o.strip())[:st['hashsize']]
            except ValueError:
                continue
            self.hash_known[(b, l)] = self.hval(dig)

    def ser_hashes(self, extra=()):
        items = dict(self.hash_known)
        items.update(extra)
        toks = ['H', str(len(items))]
        for (b, l), h in sorted(items.items()):
            toks += [str(b), str(l), h]
        return toks

    # ---- validation of the model parity against the real parity bytes
    def check_parity_model(self):
        """every PEnc v of the model must equal the generator applied to the blocks of v in the real parity file;
        returns list of error strings"""
        errs = []
        for l in range(self.arr.np):
            real = self.arr.parity_bytes(l)
            for pos, e in enumerate(self.parity[l]):
                if e[0][0] != 'E':
                    continue
                v = [self.blocks[int(x)] for x in e[1:]]
                while len(v) < 1:
                    v.append(bytes(self.bs))
                mode = 'z' if (self.arr.zmode and l < 3) else 'c'
                exp = gfref.gen(mode, l + 1, v)[l]
                got = real[pos * self.bs:(pos + 1) * self.bs]
                if got != exp:
                    errs.append('level %d pos %d: real parity differs from what the model says it encodes %s' % (l, pos, e[1:]))
        return errs
