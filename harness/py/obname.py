"""Name a failed proof obligation: the lemma / theorem enclosing the first error location reported by check_obligations,
and the Props statement(s) that are `exact` of it."""
import os, re, glob
from common import COQ


def obligation_name(f, prop):
    where = f.get('where', '')
    m = re.match(r'(.+\.v):(\d+)$', where)
    if not m:
        return where
    path, line = os.path.join(COQ, m.group(1)), int(m.group(2))
    try:
        src = open(path).read().split('\n')
    except OSError:
        return where
    name = None
    for l in src[:line]:
        mm = re.match(r'\s*(?:Theorem|Lemma|Corollary|Example|Definition|Fixpoint)\s+(\w+)', l)
        if mm:
            name = mm.group(1)
    props = []
    if name:
        for pf in glob.glob(os.path.join(COQ, 'Props', 'Properties_%s*.v' % prop)):
            cur = None
            for l in open(pf):
                mm = re.match(r'(?:Theorem|Example)\s+(\w+)', l)
                if mm:
                    cur = mm.group(1)
                mm = re.match(r'\s*Proof\.\s*exact\s+(.*?)\.\s*Qed\.', l)
                if mm and cur and name in re.findall(r'\w+', mm.group(1)):
                    props.append(cur)
    return '%s (%s)%s' % (name or '?', where, ' = ' + ', '.join(props) if props else '')


def obligation_text(ob, prop):
    names = [obligation_name(f, prop) for f in ob['failed']]
    errs = ' | '.join('%s: %s' % (f.get('where'), str(f.get('error'))[:200]) for f in sorted(ob['failed'], key=lambda f: f.get('where') != 'translator'))
    return 'proof obligation of %s no longer checks: %s -- %s' % (prop, '; '.join(names), errs[:500])
