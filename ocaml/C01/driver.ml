(* Driver of the check / fix / scrub-detection model: one request per line (space separated tokens), one reply line.
   Glue only: tokenising, int <-> N/Z/nat, (de)serialisation.

   Serialisation (tokens), as ocaml/C06/driver.ml:
     hval     : Z | I | <int>
     content  : C <ndisks> <blockmax> { D- | D <nfiles> <ndel> { F <name> <size> <mtime> <nsec> <inode> <copy0/1> <nblk> { <b|g|p> <pos> <hval> }* }* { <pos> <hval> }* }*
                INFO <n> { - | <time> <bad> <rehash> <just> }*
     parity   : P <nlev> { <len> { N | J<tag> | E<k> <id>*k }* }*
     fs       : FS <ndisks> { X- | X <nfiles> { <name> <size> <mtime> <nsec> <inode> <nblk> <id>* }* }*
     hashes   : H <n> { <bid> <len> <hval> }*          (anything absent hashes to a fresh value 1000000+bid*4096+len)
     padding  : PZ <n> { <bid> <len> <0|1> }*          (absent: true for ids below JBASE, false for junk)
     trunc    : TR <n> { <bid> <len> <bid'> }*         (absent: the id itself)
     filters  : FL <-|n d*n> <-|n {d name}*n> <missing0/1> <error0/1>
     parity handles : PO <nlev> { <open0/1> }*
     objects  : OBJ <n> { <disk> <E|H|S|D> <name> <to> <ok0/1> <excl0/1> }*
     positions: POS <n> <pos>*
     new inodes: NI <n> { <disk> <name> <inode> }*
   request  : run <fix|check> <bs> <nlev> <reduced0/1> <now> <audit0/1> <badfile0/1> <syncedonly0/1> <nosearch0/1> H.. PZ.. TR.. C.. P.. FS.. FL.. PO.. OBJ.. POS.. NI..
              scrub <bs> <nlev> <iolimit> H.. C.. P.. FS.. POS..
   reply    : ok <fail0/1> <err> <rec> <unrec> TAGS <n> { <kind> <nargs> <arg>* }* FS.. P..
              ok <fail0/1> <bailed0/1> BAD <n> <pos>* REF <n> <pos>* CNT <e> <s> <i> TAGS ..                                  *)
open C01_ext

let rec pos_of_int i = if i = 1 then XH else if i land 1 = 0 then XO (pos_of_int (i lsr 1)) else XI (pos_of_int (i lsr 1))
let n_of_int i = if i = 0 then N0 else Npos (pos_of_int i)
let rec int_of_pos = function XH -> 1 | XO p -> 2 * int_of_pos p | XI p -> 2 * int_of_pos p + 1
let int_of_n = function N0 -> 0 | Npos p -> int_of_pos p
let z_of_int i = if i = 0 then Z0 else if i > 0 then Zpos (pos_of_int i) else Zneg (pos_of_int (-i))
let int_of_z = function Z0 -> 0 | Zpos p -> int_of_pos p | Zneg p -> - (int_of_pos p)
let rec nat_of_int i = if i <= 0 then O else S (nat_of_int (i - 1))
let rec int_of_nat = function O -> 0 | S n -> 1 + int_of_nat n

type tk = { a : string array; mutable i : int }
let next t = let s = t.a.(t.i) in t.i <- t.i + 1; s
let nint t = int_of_string (next t)
let expect t s = let x = next t in if x <> s then failwith ("expected " ^ s ^ " got " ^ x)

let hval_of s = if s = "Z" then HZero else if s = "I" then HInvalid else HReal (n_of_int (int_of_string s))
let bstate_of = function "b" -> SBlk | "g" -> SChg | "p" -> SRep | s -> failwith ("state " ^ s)

let rec rep n f = if n <= 0 then [] else let x = f () in x :: rep (n - 1) f

let parse_content t =
  expect t "C";
  let nd = nint t in let bm = nint t in
  let disks = rep nd (fun () ->
    match next t with
    | "D-" -> None
    | "D" ->
      let nf = nint t in let ndel = nint t in
      let files = rep nf (fun () ->
        expect t "F";
        let name = nint t in let size = nint t in let mt = nint t in let ns = nint t in let ino = nint t in
        let copy = nint t <> 0 in let nb = nint t in
        let blocks = rep nb (fun () -> let st = bstate_of (next t) in let p = nint t in let h = hval_of (next t) in
                                       { fb_state = st; fb_pos = nat_of_int p; fb_hash = h }) in
        { cf_name = n_of_int name; cf_size = n_of_int size; cf_mtime = z_of_int mt; cf_nsec = z_of_int ns;
          cf_inode = n_of_int ino; cf_copy = copy; cf_blocks = blocks }) in
      let dels = rep ndel (fun () -> let p = nint t in let h = hval_of (next t) in (nat_of_int p, h)) in
      Some { cd_files = files; cd_deleted = dels; cd_links = []; cd_dirs = [] }
    | s -> failwith ("disk " ^ s)) in
  expect t "INFO";
  let ni = nint t in
  let info = rep ni (fun () ->
    match next t with
    | "-" -> None
    | s -> let tm = int_of_string s in let bad = nint t <> 0 in let rh = nint t <> 0 in let js = nint t <> 0 in
      Some { i_time = n_of_int tm; i_bad = bad; i_rehash = rh; i_justsynced = js }) in
  { c_disks = disks; c_info = info; c_blockmax = nat_of_int bm }

let parse_parity t =
  expect t "P";
  let nl = nint t in
  rep nl (fun () ->
    let len = nint t in
    rep len (fun () ->
      let s = next t in
      if s = "N" then PNone
      else if s.[0] = 'J' then PJunk (n_of_int (int_of_string (String.sub s 1 (String.length s - 1))))
      else if s.[0] = 'E' then
        let k = int_of_string (String.sub s 1 (String.length s - 1)) in
        PEnc (rep k (fun () -> n_of_int (nint t)))
      else failwith ("penc " ^ s)))

let print_parity b p =
  let add = Buffer.add_string b in
  add (Printf.sprintf " P %d" (List.length p));
  List.iter (fun lv ->
    add (Printf.sprintf " %d" (List.length lv));
    List.iter (function
      | PNone -> add " N"
      | PJunk t -> add (Printf.sprintf " J%d" (int_of_n t))
      | PEnc v -> add (Printf.sprintf " E%d" (List.length v)); List.iter (fun x -> add (Printf.sprintf " %d" (int_of_n x))) v) lv) p

let parse_fs t =
  expect t "FS";
  let nd = nint t in
  rep nd (fun () ->
    match next t with
    | "X-" -> None
    | "X" ->
      let nf = nint t in
      Some (rep nf (fun () ->
        let name = nint t in let size = nint t in let mt = nint t in let ns = nint t in let ino = nint t in let nb = nint t in
        let ids = rep nb (fun () -> n_of_int (nint t)) in
        { ff_name = n_of_int name; ff_size = n_of_int size; ff_mtime = z_of_int mt; ff_nsec = z_of_int ns;
          ff_inode = n_of_int ino; ff_blocks = ids }))
    | s -> failwith ("fs " ^ s))

let print_fs b fs =
  let add = Buffer.add_string b in
  add (Printf.sprintf " FS %d" (List.length fs));
  List.iter (function
    | None -> add " X-"
    | Some d ->
      add (Printf.sprintf " X %d" (List.length d));
      List.iter (fun f ->
        add (Printf.sprintf " %d %d %d %d %d %d" (int_of_n f.ff_name) (int_of_n f.ff_size) (int_of_z f.ff_mtime) (int_of_z f.ff_nsec)
               (int_of_n f.ff_inode) (List.length f.ff_blocks));
        List.iter (fun x -> add (Printf.sprintf " %d" (int_of_n x))) f.ff_blocks) d) fs

let jbase = 4294967296

let parse_hashes t =
  expect t "H";
  let n = nint t in
  let tbl = Hashtbl.create 64 in
  for _ = 1 to n do
    let b = nint t in let l = nint t in let h = hval_of (next t) in Hashtbl.replace tbl (b, l) h
  done;
  fun (b : n) (l : n) ->
    let bi = int_of_n b and li = int_of_n l in
    match Hashtbl.find_opt tbl (bi, li) with Some h -> h | None -> HReal (n_of_int (1000000 + (bi mod 100000000) * 4096 + li))

let parse_padz t =
  expect t "PZ";
  let n = nint t in
  let tbl = Hashtbl.create 64 in
  for _ = 1 to n do
    let b = nint t in let l = nint t in let v = nint t <> 0 in Hashtbl.replace tbl (b, l) v
  done;
  fun (b : n) (l : n) ->
    let bi = int_of_n b and li = int_of_n l in
    match Hashtbl.find_opt tbl (bi, li) with Some v -> v | None -> bi < jbase

let parse_trunc t =
  expect t "TR";
  let n = nint t in
  let tbl = Hashtbl.create 64 in
  for _ = 1 to n do
    let b = nint t in let l = nint t in let v = nint t in Hashtbl.replace tbl (b, l) v
  done;
  fun (b : n) (l : n) ->
    let bi = int_of_n b and li = int_of_n l in
    match Hashtbl.find_opt tbl (bi, li) with Some v -> n_of_int v | None -> b

let parse_filters t =
  expect t "FL";
  let fd = match next t with "-" -> None | s -> Some (rep (int_of_string s) (fun () -> nat_of_int (nint t))) in
  let fn = match next t with "-" -> None | s -> Some (rep (int_of_string s) (fun () -> let d = nint t in let nm = nint t in (nat_of_int d, n_of_int nm))) in
  let fm = nint t <> 0 in let fe = nint t <> 0 in
  (fd, fn, fm, fe)

let parse_po t = expect t "PO"; let n = nint t in rep n (fun () -> nint t <> 0)

let parse_objs t =
  expect t "OBJ";
  let n = nint t in
  rep n (fun () ->
    let d = nint t in let k = next t in let nm = nint t in let tto = nint t in let ok = nint t <> 0 in let ex = nint t <> 0 in
    { ob_disk = nat_of_int d; ob_kind = (match k with "E" -> KEmpty | "H" -> KHard | "S" -> KSym | _ -> KDir);
      ob_name = n_of_int nm; ob_to = n_of_int tto; ob_stat = (if ok then OOk else OBad); ob_excl = ex })

let parse_pos t = expect t "POS"; let n = nint t in rep n (fun () -> nat_of_int (nint t))

let parse_ni t =
  expect t "NI";
  let n = nint t in
  let tbl = Hashtbl.create 16 in
  for _ = 1 to n do
    let d = nint t in let nm = nint t in let ino = nint t in Hashtbl.replace tbl (d, nm) ino
  done;
  fun (d : nat) (nm : n) ->
    match Hashtbl.find_opt tbl (int_of_nat d, int_of_n nm) with Some i -> n_of_int i | None -> n_of_int (900000000 + int_of_nat d * 100000 + int_of_n nm)

let print_tags b tags =
  let add = Buffer.add_string b in
  add (Printf.sprintf " TAGS %d" (List.length tags));
  List.iter (fun (k, args) ->
    add (Printf.sprintf " %d %d" (int_of_n k) (List.length args));
    List.iter (fun x -> add (Printf.sprintf " %d" (int_of_n x))) args) tags

let () =
  try
    while true do
      let line = input_line stdin in
      let t = { a = Array.of_list (List.filter (fun s -> s <> "") (String.split_on_char ' ' (String.trim line))); i = 0 } in
      (try
        match next t with
        | "run" ->
          let fix = (next t = "fix") in
          let bs = nint t in let nlev = nint t in let reduced = nint t <> 0 in let now = nint t in
          let audit = nint t <> 0 in let badfile = nint t <> 0 in let synced = nint t <> 0 in let nosearch = nint t <> 0 in
          let hashf = parse_hashes t in
          let padz = parse_padz t in
          let truncf = parse_trunc t in
          let c = parse_content t in
          let p = parse_parity t in
          let fs = parse_fs t in
          let (fd, fn, fm, fe) = parse_filters t in
          let po = parse_po t in
          let objs = parse_objs t in
          let positions = parse_pos t in
          let newino = parse_ni t in
          let excl = filter_files fd fn fm fe c fs in
          let pex = filter_parity fd fn fm in
          let o = { co_fix = fix; co_audit = audit; co_badfile = badfile; co_syncedonly = synced; co_nosearch = nosearch;
                    co_excl = excl; co_popen = po; co_pexcl = List.map (fun _ -> pex) po } in
          let r = check_run hashf padz truncf (n_of_int bs) (nat_of_int nlev) reduced newino (z_of_int now) o c p fs objs positions in
          let s = r.out_st in
          let b = Buffer.create 4096 in
          Buffer.add_string b (Printf.sprintf "ok %d %d %d %d" (if r.out_fail then 1 else 0) (int_of_nat s.r_err) (int_of_nat s.r_rec) (int_of_nat s.r_unrec));
          print_tags b s.r_tags;
          print_fs b s.r_fs;
          print_parity b s.r_par;
          print_endline (Buffer.contents b)
        | "scrub" ->
          let bs = nint t in let nlev = nint t in let iol = nint t in
          let hashf = parse_hashes t in
          let c = parse_content t in
          let p = parse_parity t in
          let fs = parse_fs t in
          let sel = parse_pos t in
          let r = scrub_run hashf (n_of_int bs) (nat_of_int nlev) (n_of_int iol) c p fs sel in
          let b = Buffer.create 4096 in
          Buffer.add_string b (Printf.sprintf "ok %d %d BAD %d" (if scrub_fails r then 1 else 0) (if r.sr_bailed then 1 else 0) (List.length r.sr_bad));
          List.iter (fun x -> Buffer.add_string b (Printf.sprintf " %d" (int_of_nat x))) r.sr_bad;
          Buffer.add_string b (Printf.sprintf " REF %d" (List.length r.sr_refreshed));
          List.iter (fun x -> Buffer.add_string b (Printf.sprintf " %d" (int_of_nat x))) r.sr_refreshed;
          Buffer.add_string b (Printf.sprintf " CNT %d %d %d" (int_of_n r.sr_cnt.c_error) (int_of_n r.sr_cnt.c_silent) (int_of_n r.sr_cnt.c_io));
          print_tags b r.sr_tags;
          print_endline (Buffer.contents b)
        | s -> print_endline ("unknown " ^ s)
      with Failure m -> print_endline ("parse-error " ^ m) | Invalid_argument m -> print_endline ("parse-error " ^ m) | Not_found -> print_endline "parse-error not-found");
      flush stdout
    done
  with End_of_file -> ()
