(* c02int model: runs the extracted word-level interpreter (IntSem.exec_prog) on the programs generated from
   raid/int.c, raid/intz.c, raid/gf.h.  Same case lines as harness/c/raid_drv.c:
     gen <func> <mode c|z> <nd> <np> <size> <hex nd*size>  ->  ok <hex np*size> | skip
   Locals on entry hold garbage, the parity buffers 0x5a (as in the C driver).  Only glue here. *)
open C02int_ext

let rec pos_of_int i = if i = 1 then XH else if i land 1 = 0 then XO (pos_of_int (i lsr 1)) else XI (pos_of_int (i lsr 1))
let n_of_int i = if i = 0 then N0 else Npos (pos_of_int i)
let rec int_of_pos = function XH -> 1 | XO p -> 2 * int_of_pos p | XI p -> 2 * int_of_pos p + 1
let int_of_n = function N0 -> 0 | Npos p -> int_of_pos p
let rec nat_of_int i = if i = 0 then O else S (nat_of_int (i - 1))
let rec int_of_nat = function O -> 0 | S n -> 1 + int_of_nat n

let hexv c = if c <= '9' then Char.code c - 48 else (Char.code c lor 32) - 87
let bytes_of_hex s off n = List.init n (fun i -> n_of_int (hexv s.[off + 2 * i] * 16 + hexv s.[off + 2 * i + 1]))
let blocks_of_hex s nb size = List.init nb (fun b -> bytes_of_hex s (2 * b * size) size)
let hex_of_block b = String.concat "" (List.map (fun x -> Printf.sprintf "%02x" (int_of_n x)) b)

let bit b k = if b then 1 lsl k else 0
let char_of_ascii (Ascii (a, b, c, d, e, f, g, h)) =
  Char.chr (bit a 0 + bit b 1 + bit c 2 + bit d 3 + bit e 4 + bit f 5 + bit g 6 + bit h 7)
let rec ocaml_string = function EmptyString -> "" | String (c, r) -> String.make 1 (char_of_ascii c) ^ ocaml_string r

let table = List.map (fun ((name, _), p) -> (ocaml_string name, p)) all_int_progs
let gtable = List.map (fun ((name, g), p) -> (ocaml_string name, (g, p))) all_int_progs
let reasons = List.map (fun (n, r) -> (ocaml_string n, ocaml_string r)) int_untranslated

(* printers for the diagnostics of a rejected program *)
let s_dref = function Cur -> "d" | Last -> "l" | First -> "0"
let s_src = function SVar x -> Printf.sprintf "var%d" (int_of_nat x)
                   | SData (d, off) -> Printf.sprintf "v[%s][i+%d]" (s_dref d) (int_of_nat off)
let s_coef = function COne -> "1" | CTwo -> "2" | CHalf -> "2^-1"
                    | CTab (j, d) -> Printf.sprintf "gfgen[%d][%s]" (int_of_nat j) (s_dref d)
let s_nf n = if n = [] then "0" else String.concat " ^ " (List.map (fun (c, s) -> s_coef c ^ "*" ^ s_src s) n)
let s_av = function AJunk -> "UNKNOWN" | ALin n -> s_nf n
let s_kind = function KOne -> "P(x1)" | KTwo -> "Q(x2)" | KHalf -> "R(x2^-1)" | KTab j -> Printf.sprintf "T%d(gfgen row)" (int_of_nat j)
let why name =
  match List.assoc_opt name gtable with
  | Some (g, Some p) ->
    let a = analyse p in
    let vars l = String.concat "; " (List.mapi (fun x v -> Printf.sprintf "var%d=%s" x (s_av v)) l) in
    let stores l = String.concat "; " (List.rev_map (fun ((j, off), v) -> Printf.sprintf "par%d[i+%d]<-%s" (int_of_nat j) (int_of_nat off) (s_av v)) l) in
    Printf.sprintf "word=%d bytes step=%d loop d=l-%d..%d rows=[%s] helpers=[%s] after_init={%s} after_body={%s} after_fini={%s} stores=[%s] stray_stores=%d"
      (int_of_nat p.wbytes) (int_of_nat p.step) (int_of_nat p.loop_from) (int_of_nat p.loop_lo)
      (String.concat "," (List.map s_kind (rows_of_gen g)))
      (String.concat "," (List.map (fun h -> match helper_coef h with Some c -> "x" ^ s_coef c | None -> "UNRECOGNISED") p.helpers))
      (vars (fst a.an_init)) (vars (fst a.an_body)) (vars (fst a.an_fini)) (stores (snd a.an_fini))
      (List.length (snd a.an_init) + List.length (snd a.an_body))
  | _ -> "not translated: " ^ (match List.assoc_opt name reasons with Some r -> r | None -> "?")

let () =
  try
    while true do
      let line = input_line stdin in
      let toks = Array.of_list (List.filter (fun t -> t <> "") (String.split_on_char ' ' (String.trim line))) in
      (match toks.(0) with
       | "check" ->
         print_endline (String.concat " " (List.map (fun (n, (g, p)) ->
           n ^ (match p with None -> "=UNTRANSLATED" | Some _ -> if checker_opt g p then "=proved" else "=REJECTED")) gtable))
       | "why" -> print_endline (why toks.(1))
       | "gen" ->
         let fn = "raid_" ^ toks.(1) in
         let mode = if toks.(2) = "z" then Vandermonde else Cauchy in
         let nd = int_of_string toks.(3) and np = int_of_string toks.(4) and size = int_of_string toks.(5) in
         (match List.assoc_opt fn table with
          | Some (Some p) ->
            let data = blocks_of_hex toks.(6) nd size in
            let junk = List.init 40 (fun r -> n_of_int (0x3CCCCCCCCCCCCCC + 7919 * r)) in
            let old = List.init np (fun _ -> List.init size (fun _ -> n_of_int 0x5a)) in
            let par = exec_prog mode p data (nat_of_int size) junk old in
            print_endline ("ok " ^ String.concat "" (List.map hex_of_block par))
          | _ -> print_endline "skip")
       | _ -> print_endline "unknown");
      flush stdout
    done
  with End_of_file -> ()
