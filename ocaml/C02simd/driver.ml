(* c02simd model: runs the extracted byte-lane interpreter (SimdSem.exec_prog) on the programs generated from
   raid/x86.c, raid/x86z.c.  Same case lines as harness/c/raid_drv.c:
     gen <func> <mode> <nd> <np> <size> <hex nd*size>  ->  ok <hex np*size> | skip
   Registers on entry hold 0xCC.. garbage, the parity buffers 0x5a (as in the C driver).  Only glue here. *)
open C02simd_ext

let rec pos_of_int i = if i = 1 then XH else if i land 1 = 0 then XO (pos_of_int (i lsr 1)) else XI (pos_of_int (i lsr 1))
let n_of_int i = if i = 0 then N0 else Npos (pos_of_int i)
let rec int_of_pos = function XH -> 1 | XO p -> 2 * int_of_pos p | XI p -> 2 * int_of_pos p + 1
let int_of_n = function N0 -> 0 | Npos p -> int_of_pos p
let rec nat_of_int i = if i = 0 then O else S (nat_of_int (i - 1))

let hexv c = if c <= '9' then Char.code c - 48 else (Char.code c lor 32) - 87
let bytes_of_hex s off n = List.init n (fun i -> n_of_int (hexv s.[off + 2 * i] * 16 + hexv s.[off + 2 * i + 1]))
let blocks_of_hex s nb size = List.init nb (fun b -> bytes_of_hex s (2 * b * size) size)
let hex_of_block b = String.concat "" (List.map (fun x -> Printf.sprintf "%02x" (int_of_n x)) b)

let bit b k = if b then 1 lsl k else 0
let char_of_ascii (Ascii (a, b, c, d, e, f, g, h)) =
  Char.chr (bit a 0 + bit b 1 + bit c 2 + bit d 3 + bit e 4 + bit f 5 + bit g 6 + bit h 7)
let rec ocaml_string = function EmptyString -> "" | String (c, r) -> String.make 1 (char_of_ascii c) ^ ocaml_string r

let table = List.map (fun ((name, _), p) -> (ocaml_string name, p)) all_gen_progs

let () =
  try
    while true do
      let line = input_line stdin in
      let toks = Array.of_list (List.filter (fun t -> t <> "") (String.split_on_char ' ' (String.trim line))) in
      (match toks.(0) with
       | "list" ->
         print_endline (String.concat " " (List.map (fun (n, p) -> n ^ (match p with Some _ -> "=translated" | None -> "=fallback")) table))
       | "gen" ->
         let fn = "raid_" ^ toks.(1) in
         let nd = int_of_string toks.(3) and np = int_of_string toks.(4) and size = int_of_string toks.(5) in
         (match List.assoc_opt fn table with
          | Some (Some p) ->
            let data = blocks_of_hex toks.(6) nd size in
            let junk = List.init 20 (fun r -> List.init 32 (fun i -> n_of_int ((0xCC + 7 * r + i) land 255))) in
            let old = List.init np (fun _ -> List.init size (fun _ -> n_of_int 0x5a)) in
            let par = exec_prog p data (nat_of_int size) junk old in
            print_endline ("ok " ^ String.concat "" (List.map hex_of_block par))
          | _ -> print_endline "skip")
       | _ -> print_endline "unknown");
      flush stdout
    done
  with End_of_file -> ()
