(* c03int model: raid_rec / raid_data with the portable decoder family = hand model of the C part (RecModel) + the
   extracted interpreter running the byte loops generated from raid/int.c, raid/raid.c.  Same case lines as raid_drv.c:
     rec  int8 <mode> <nd> <np> <size> <nr> <ir..> <hex (nd+np)*size>          ->  ok <hex> | abort | skip
     data int8 <mode> <nd> <np> <size> <nr> <id..> <ip..> <hex (nd+np)*size>   ->  ok <hex> | abort | skip
   Only glue here. *)
open C03int_ext

let rec pos_of_int i = if i = 1 then XH else if i land 1 = 0 then XO (pos_of_int (i lsr 1)) else XI (pos_of_int (i lsr 1))
let n_of_int i = if i = 0 then N0 else Npos (pos_of_int i)
let rec int_of_pos = function XH -> 1 | XO p -> 2 * int_of_pos p | XI p -> 2 * int_of_pos p + 1
let int_of_n = function N0 -> 0 | Npos p -> int_of_pos p
let rec nat_of_int i = if i = 0 then O else S (nat_of_int (i - 1))
let rec int_of_nat = function O -> 0 | S n -> 1 + int_of_nat n

let hexv c = if c <= '9' then Char.code c - 48 else (Char.code c lor 32) - 87
let bytes_of_hex s off n = List.init n (fun i -> n_of_int (hexv s.[off + 2 * i] * 16 + hexv s.[off + 2 * i + 1]))
let blocks_of_hex s nb size = List.init nb (fun b -> bytes_of_hex s (2 * b * size) size)
let hex_of_block b = String.concat "" (List.map (fun x -> Printf.sprintf "%02x" (int_of_n x)) b)

let bit b k = if b then 1 lsl k else 0
let char_of_ascii (Ascii (a, b, c, d, e, f, g, h)) =
  Char.chr (bit a 0 + bit b 1 + bit c 2 + bit d 3 + bit e 4 + bit f 5 + bit g 6 + bit h 7)
let rec ocaml_string = function EmptyString -> "" | String (c, r) -> String.make 1 (char_of_ascii c) ^ ocaml_string r
let table = List.map (fun (name, p) -> (ocaml_string name, p)) all_int_rec_progs
let reasons = List.map (fun (n, r) -> (ocaml_string n, ocaml_string r)) int_rec_untranslated
let prog n = match List.assoc_opt n table with Some p -> p | None -> None
let family = (((prog "raid_rec1_int8", prog "raid_rec2_int8"), prog "raid_recX_int8"), prog "raid_rec2of2_int8")
let junk c = List.init 40 (fun r -> n_of_int ((0xCC + 7 * r + 13 * int_of_nat c) land 0xffff))

(* diagnostics of a rejected decoder *)
let s_atom = function AtP k -> Printf.sprintf "p[%d]" (int_of_nat k) | AtPa k -> Printf.sprintf "pa[%d]" (int_of_nat k)
let s_xs x = if x = [] then "0" else "(" ^ String.concat "^" (List.map s_atom x) ^ ")"
let s_term (c, x) = match c with TOne -> s_xs x | TMul vi -> Printf.sprintf "mul[c%d]%s" (int_of_nat vi) (s_xs x)
let s_nf n = if n = [] then "0" else String.concat " ^ " (List.map s_term n)
let s_av = function AJunk -> "UNKNOWN" | ALin n -> s_nf n
let why name =
  match prog name with
  | Some p ->
    let ns = (match p.i_kind with KRecX -> [1; 2; 3; 4; 5; 6] | KRec1 -> [1] | _ -> [2]) in
    (match List.filter (fun n -> not (icheck_n p (nat_of_int n))) ns with
     | [] -> "accepted"
     | n :: _ ->
       let a = analyse p (nat_of_int n) in
       Printf.sprintf "N=%d stores (newest first)=[%s] expected=[%s]" n
         (String.concat "; " (List.map (fun (b, v) -> Printf.sprintf "pa[%d]<-%s" (int_of_nat b) (s_av v)) (snd a)))
         (String.concat "; " (List.init n (fun b -> Printf.sprintf "pa[%d]<-%s" b (s_nf (expected p.i_kind (nat_of_int n) (nat_of_int b)))))))
  | None -> "not translated: " ^ (match List.assoc_opt name reasons with Some r -> r | None -> "?")

let () =
  try
    while true do
      let line = input_line stdin in
      let toks = Array.of_list (List.filter (fun t -> t <> "") (String.split_on_char ' ' (String.trim line))) in
      (match toks.(0) with
       | "check" ->
         print_endline (String.concat " " (List.map (fun (n, p) ->
           n ^ (match p with None -> "=UNTRANSLATED" | Some q -> if ichecker_opt p then "=proved" else "=REJECTED")) table
           @ [ "raid_rec1of1=" ^ (if recognised_raid_rec1of1 then "recognised" else "UNTRANSLATED");
               "raid_delta_gen=" ^ (if recognised_raid_delta_gen then "recognised" else "UNTRANSLATED") ]))
       | "why" -> print_endline (why toks.(1))
       | "rec" | "data" ->
         if toks.(1) <> "int8" then print_endline "skip" else begin
           let m = if toks.(2) = "z" then Vandermonde else Cauchy in
           let nd = int_of_string toks.(3) and np = int_of_string toks.(4) and size = int_of_string toks.(5) in
           let nr = int_of_string toks.(6) in
           let ir = List.init nr (fun i -> nat_of_int (int_of_string toks.(7 + i))) in
           let r =
             if toks.(0) = "rec" then
               int_raid_rec_blocks family m (nat_of_int nd) (nat_of_int np) ir (nat_of_int size) (blocks_of_hex toks.(7 + nr) (nd + np) size) junk
             else begin
               let ip = List.init nr (fun i -> nat_of_int (int_of_string toks.(7 + nr + i))) in
               int_raid_data_blocks family m (nat_of_int nd) (nat_of_int np) ir ip (nat_of_int size) (blocks_of_hex toks.(7 + 2 * nr) (nd + np) size) junk
             end in
           match r with
           | None -> print_endline "abort"
           | Some b -> print_endline ("ok " ^ String.concat "" (List.map hex_of_block b))
         end
       | _ -> print_endline "unknown");
      flush stdout
    done
  with End_of_file -> ()
