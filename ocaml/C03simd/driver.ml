(* c03simd model: raid_rec with the SIMD decoder family = hand model of the C part (RecModel) + the extracted
   byte-lane interpreter running the decoder loops generated from raid/x86.c.  Same case lines as raid_drv.c:
     rec <fam ssse3|avx2> <mode> <nd> <np> <size> <nr> <ir..> <hex (nd+np)*size>  ->  ok <hex> | abort | skip
   Only glue here. *)
open C03simd_ext

let rec pos_of_int i = if i = 1 then XH else if i land 1 = 0 then XO (pos_of_int (i lsr 1)) else XI (pos_of_int (i lsr 1))
let n_of_int i = if i = 0 then N0 else Npos (pos_of_int i)
let rec int_of_pos = function XH -> 1 | XO p -> 2 * int_of_pos p | XI p -> 2 * int_of_pos p + 1
let int_of_n = function N0 -> 0 | Npos p -> int_of_pos p
let rec nat_of_int i = if i = 0 then O else S (nat_of_int (i - 1))

let hexv c = if c <= '9' then Char.code c - 48 else (Char.code c lor 32) - 87
let bytes_of_hex s off n = List.init n (fun i -> n_of_int (hexv s.[off + 2 * i] * 16 + hexv s.[off + 2 * i + 1]))
let blocks_of_hex s nb size = List.init nb (fun b -> bytes_of_hex s (2 * b * size) size)
let hex_of_block b = String.concat "" (List.map (fun x -> Printf.sprintf "%02x" (int_of_n x)) b)

let bit b k = if b then 1 lsl k else 0
let char_of_ascii (Ascii (a, b, c, d, e, f, g, h)) =
  Char.chr (bit a 0 + bit b 1 + bit c 2 + bit d 3 + bit e 4 + bit f 5 + bit g 6 + bit h 7)
let rec ocaml_string = function EmptyString -> "" | String (c, r) -> String.make 1 (char_of_ascii c) ^ ocaml_string r
let table = List.map (fun (name, p) -> (ocaml_string name, p)) all_rec_progs
let prog n = match List.assoc_opt n table with Some p -> p | None -> None
let family fam = ((prog ("raid_rec1_" ^ fam), prog ("raid_rec2_" ^ fam)), prog ("raid_recX_" ^ fam))

(* diagnostics of a rejected decoder *)
let rec int_of_nat = function O -> 0 | S n -> 1 + int_of_nat n
let s_atom = function AtP (b, off) -> Printf.sprintf "p[%d][i+%d]" (int_of_nat b) (int_of_nat off)
                    | AtPa (b, off) -> Printf.sprintf "pa[%d][i+%d]" (int_of_nat b) (int_of_nat off)
let s_xs x = if x = [] then "0" else "(" ^ String.concat "^" (List.map s_atom x) ^ ")"
let s_term (c, x) = match c with
  | ROne -> s_xs x
  | RLo vi -> Printf.sprintf "mul[V[%d]].lo%s" (int_of_nat vi) (s_xs x)
  | RHi vi -> Printf.sprintf "mul[V[%d]].hi%s" (int_of_nat vi) (s_xs x)
let s_rav = function
  | RJunk -> "UNKNOWN" | RCst c -> Printf.sprintf "const 0x%02x" (int_of_n c)
  | RTab (vi, lh) -> Printf.sprintf "table mul[V[%d]][%d]" (int_of_nat vi) (int_of_nat lh)
  | RLin n -> if n = [] then "0" else String.concat " ^ " (List.map s_term n)
  | RLo4 x -> s_xs x ^ "&15" | RHi4 x -> s_xs x ^ ">>4" | RSrl4 x -> "srlw(" ^ s_xs x ^ ",4)"
let why name =
  match prog name with
  | None -> "not translated"
  | Some p ->
    let ns = (match p.r_n with Some n -> [n] | None -> List.map nat_of_int [1; 2; 3; 4; 5; 6]) in
    (match List.filter (fun n -> not (rcheck_n p n)) ns with
     | [] -> "accepted"
     | n :: _ ->
       let (pro, fin) = ranalyse p n in
       Printf.sprintf "N=%d prologue_stores=%d stores=[%s]" (int_of_nat n) (List.length (snd pro))
         (String.concat "; " (List.rev_map (fun ((b, off), v) -> Printf.sprintf "pa[%d][i+%d]<-%s" (int_of_nat b) (int_of_nat off) (s_rav v)) (snd fin))))

let () =
  try
    while true do
      let line = input_line stdin in
      let toks = Array.of_list (List.filter (fun t -> t <> "") (String.split_on_char ' ' (String.trim line))) in
      (match toks.(0) with
       | "list" ->
         print_endline (String.concat " " (List.map (fun (n, p) -> n ^ (match p with Some _ -> "=translated" | None -> "=fallback")) table))
       | "check" ->
         print_endline (String.concat " " (List.map (fun (n, p) ->
           n ^ (match p with None -> "=fallback" | Some _ -> if rchecker_opt p then "=proved" else "=REJECTED")) table))
       | "why" -> print_endline (why toks.(1))
       | "rec" ->
         let fam = toks.(1) in
         if fam <> "ssse3" && fam <> "avx2" then print_endline "skip" else begin
           let m = if toks.(2) = "z" then Vandermonde else Cauchy in
           let nd = int_of_string toks.(3) and np = int_of_string toks.(4) and size = int_of_string toks.(5) in
           let nr = int_of_string toks.(6) in
           let ir = List.init nr (fun i -> nat_of_int (int_of_string toks.(7 + i))) in
           let bufs = blocks_of_hex toks.(7 + nr) (nd + np) size in
           let junk = List.init 24 (fun r -> List.init 32 (fun i -> n_of_int ((0xCC + 7 * r + i) land 255))) in
           match simd_raid_rec_blocks (family fam) m (nat_of_int nd) (nat_of_int np) ir (nat_of_int size) bufs junk with
           | None -> print_endline "abort"
           | Some b -> print_endline ("ok " ^ String.concat "" (List.map hex_of_block b))
         end
       | _ -> print_endline "unknown");
      flush stdout
    done
  with End_of_file -> ()
