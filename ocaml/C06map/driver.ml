(* Mapping-model driver: one request per line, one reply line.  Glue only (tokenising, int <-> N/nat).
   request : remap <match_first 0/1> <skip_access 0/1> <force_uuid 0/1> <level> <par_mismatch>
                   M <n> { <name> <pos> <uuid> }*        the 'M' records of the content file, in file order (uuid 0 = empty)
                   G <k> { <name> <uuid | -> }*          the disk lines of the configuration, in order (- = no uuid detected)
   reply   : ok <n> { <name> <pos> }*   |   none *)
open C06map_ext

let rec pos_of_int i = if i = 1 then XH else if i land 1 = 0 then XO (pos_of_int (i lsr 1)) else XI (pos_of_int (i lsr 1))
let n_of_int i = if i = 0 then N0 else Npos (pos_of_int i)
let rec int_of_pos = function XH -> 1 | XO p -> 2 * int_of_pos p | XI p -> 2 * int_of_pos p + 1
let int_of_n = function N0 -> 0 | Npos p -> int_of_pos p
let rec nat_of_int i = if i <= 0 then O else S (nat_of_int (i - 1))
let rec int_of_nat = function O -> 0 | S n -> 1 + int_of_nat n

type tk = { a : string array; mutable i : int }
let next t = let s = t.a.(t.i) in t.i <- t.i + 1; s
let nint t = int_of_string (next t)
let expect t s = let x = next t in if x <> s then failwith ("expected " ^ s ^ " got " ^ x)
let rec rep n f = if n <= 0 then [] else let x = f () in x :: rep (n - 1) f
let b t = nint t <> 0

let handle line =
  let t = { a = Array.of_list (List.filter (fun s -> s <> "") (String.split_on_char ' ' line)); i = 0 } in
  expect t "remap";
  let mf = b t in let sk = b t in let fu = b t in let lev = nint t in let pm = nint t in
  let o = { mo_match_first = mf; mo_skip_access = sk; mo_force_uuid = fu; mo_level = nat_of_int lev; mo_par_mismatch = nat_of_int pm } in
  expect t "M";
  let n = nint t in
  let ms = rep n (fun () -> let nm = nint t in let p = nint t in let u = nint t in
                            { m_name = n_of_int nm; m_pos = nat_of_int p; m_uuid = n_of_int u }) in
  expect t "G";
  let k = nint t in
  let cfg = rep k (fun () -> let nm = nint t in let u = next t in
                             { g_name = n_of_int nm; g_uuid = (if u = "-" then None else Some (n_of_int (int_of_string u))) }) in
  match remap o ms cfg with
  | None -> "none"
  | Some r -> String.concat " " ("ok" :: string_of_int (List.length r) ::
                List.concat (List.map (fun m -> [string_of_int (int_of_n m.m_name); string_of_int (int_of_nat m.m_pos)]) r))

let () =
  try
    while true do
      let line = input_line stdin in
      (try print_endline (handle line) with e -> print_endline ("error " ^ Printexc.to_string e));
      flush stdout
    done
  with End_of_file -> ()
