(* Array-model driver: one request per line (space separated tokens), one reply line.
   Glue only: tokenising, int <-> N/Z/nat, (de)serialisation of content / parity / fs.

   Serialisation (tokens):
     hval     : Z | I | <int>
     content  : C <ndisks> <blockmax> { D- | D <nfiles> <ndel> { F <name> <size> <mtime> <nsec> <inode> <copy0/1> <nblk> { <b|g|p> <pos> <hval> }* }* { <pos> <hval> }* }*
                INFO <n> { - | <time> <bad> <rehash> <just> }*
     parity   : P <nlev> { <len> { N | J<tag> | E<k> <id>*k }* }*
     fs       : FS <ndisks> { X- | X <nfiles> { <name> <size> <mtime> <nsec> <inode> <nblk> <id>* }* }*
     hashes   : H <n> { <bid> <len> <hval> }*          (anything absent hashes to a fresh value 1000000+bid*4096+len)
     faults   : Q <n> { <pos> <disk> <E|I|F> }*
     wfaults  : W <n> { <pos> <level> <E|N> <lag> }*   (E = EIO -> WEio, N = anything else (ENOSPC) -> WErr, S<count> = short count, classified by classify_pwrite; lag = schedule of that writer's report)
   request  : syncw <force_full> <force_parity_update> <io_limit> <now> <bs> <nlev> <stop|-1> <start> <max> M <io_cache> <lag> H.. C.. P.. FS.. Q.. W..
   reply    : ok <nerr> <nsilent> <nio> <bailed> <nfail> <nlost> <iterations completed> C.. P..
   request  : scrub1 <limit> <io_before> <now> <time> <bad> <rehash> <just> D <n> { <used> <invalid> <file> <tsdiff> <updhash> <O1|O0|E|I|FI|F> }* L <n> { <P1|P0|E|I|FI|F> }*
   reply    : ok <time> <bad> <rehash> <just> <bail> <nerr> <nsilent> <nio>
   request  : trace <force_full> <force_parity_update> <io_limit> <now> <bs> <nlev> <stop|-1> <start> <max> A <autosave_at> H.. C.. P.. FS.. Q..
   reply    : ok { R<len> | S | W<pos> | F | D }*        (the main-thread events of FaultModel.sync_trace, C07)
   (copied from ocaml/C06/driver.ml: extracted types are per extraction)                                               *)
open C08_ext

let rec pos_of_int i = if i = 1 then XH else if i land 1 = 0 then XO (pos_of_int (i lsr 1)) else XI (pos_of_int (i lsr 1))
let n_of_int i = if i = 0 then N0 else Npos (pos_of_int i)
let rec int_of_pos = function XH -> 1 | XO p -> 2 * int_of_pos p | XI p -> 2 * int_of_pos p + 1
let int_of_n = function N0 -> 0 | Npos p -> int_of_pos p
let z_of_int i = if i = 0 then Z0 else if i > 0 then Zpos (pos_of_int i) else Zneg (pos_of_int (-i))
let int_of_z = function Z0 -> 0 | Zpos p -> int_of_pos p | Zneg p -> - (int_of_pos p)
let rec nat_of_int i = if i <= 0 then O else S (nat_of_int (i - 1))
let rec int_of_nat = function O -> 0 | S n -> 1 + int_of_nat n

type tk = { a : string array; mutable i : int }
let next t = let s = t.a.(t.i) in t.i <- t.i + 1; s
let nint t = int_of_string (next t)
let expect t s = let x = next t in if x <> s then failwith ("expected " ^ s ^ " got " ^ x)

let hval_of s = if s = "Z" then HZero else if s = "I" then HInvalid else HReal (n_of_int (int_of_string s))
let s_of_hval = function HZero -> "Z" | HInvalid -> "I" | HReal h -> string_of_int (int_of_n h)
let bstate_of = function "b" -> SBlk | "g" -> SChg | "p" -> SRep | s -> failwith ("state " ^ s)
let s_of_bstate = function SBlk -> "b" | SChg -> "g" | SRep -> "p"

let rec rep n f = if n <= 0 then [] else let x = f () in x :: rep (n - 1) f

let parse_content t =
  expect t "C";
  let nd = nint t in let bm = nint t in
  let disks = rep nd (fun () ->
    match next t with
    | "D-" -> None
    | "D" ->
      let nf = nint t in let ndel = nint t in
      let files = rep nf (fun () ->
        expect t "F";
        let name = nint t in let size = nint t in let mt = nint t in let ns = nint t in let ino = nint t in
        let copy = nint t <> 0 in let nb = nint t in
        let blocks = rep nb (fun () -> let st = bstate_of (next t) in let p = nint t in let h = hval_of (next t) in
                                       { fb_state = st; fb_pos = nat_of_int p; fb_hash = h }) in
        { cf_name = n_of_int name; cf_size = n_of_int size; cf_mtime = z_of_int mt; cf_nsec = z_of_int ns;
          cf_inode = n_of_int ino; cf_copy = copy; cf_blocks = blocks }) in
      let dels = rep ndel (fun () -> let p = nint t in let h = hval_of (next t) in (nat_of_int p, h)) in
      Some { cd_files = files; cd_deleted = dels; cd_links = []; cd_dirs = [] }
    | s -> failwith ("disk " ^ s)) in
  expect t "INFO";
  let ni = nint t in
  let info = rep ni (fun () ->
    match next t with
    | "-" -> None
    | s -> let tm = int_of_string s in let bad = nint t <> 0 in let rh = nint t <> 0 in let js = nint t <> 0 in
      Some { i_time = n_of_int tm; i_bad = bad; i_rehash = rh; i_justsynced = js }) in
  { c_disks = disks; c_info = info; c_blockmax = nat_of_int bm }

let print_content b c =
  let add = Buffer.add_string b in
  add (Printf.sprintf "C %d %d" (List.length c.c_disks) (int_of_nat c.c_blockmax));
  List.iter (function
    | None -> add " D-"
    | Some d ->
      add (Printf.sprintf " D %d %d" (List.length d.cd_files) (List.length d.cd_deleted));
      List.iter (fun f ->
        add (Printf.sprintf " F %d %d %d %d %d %d %d" (int_of_n f.cf_name) (int_of_n f.cf_size) (int_of_z f.cf_mtime)
               (int_of_z f.cf_nsec) (int_of_n f.cf_inode) (if f.cf_copy then 1 else 0) (List.length f.cf_blocks));
        List.iter (fun fb -> add (Printf.sprintf " %s %d %s" (s_of_bstate fb.fb_state) (int_of_nat fb.fb_pos) (s_of_hval fb.fb_hash))) f.cf_blocks)
        d.cd_files;
      List.iter (fun (p, h) -> add (Printf.sprintf " %d %s" (int_of_nat p) (s_of_hval h))) d.cd_deleted) c.c_disks;
  add (Printf.sprintf " INFO %d" (List.length c.c_info));
  List.iter (function
    | None -> add " -"
    | Some i -> add (Printf.sprintf " %d %d %d %d" (int_of_n i.i_time) (if i.i_bad then 1 else 0) (if i.i_rehash then 1 else 0) (if i.i_justsynced then 1 else 0)))
    c.c_info

let parse_parity t =
  expect t "P";
  let nl = nint t in
  rep nl (fun () ->
    let len = nint t in
    rep len (fun () ->
      let s = next t in
      if s = "N" then PNone
      else if s.[0] = 'J' then PJunk (n_of_int (int_of_string (String.sub s 1 (String.length s - 1))))
      else if s.[0] = 'E' then
        let k = int_of_string (String.sub s 1 (String.length s - 1)) in
        PEnc (rep k (fun () -> n_of_int (nint t)))
      else failwith ("penc " ^ s)))

let print_parity b p =
  let add = Buffer.add_string b in
  add (Printf.sprintf " P %d" (List.length p));
  List.iter (fun lv ->
    add (Printf.sprintf " %d" (List.length lv));
    List.iter (function
      | PNone -> add " N"
      | PJunk t -> add (Printf.sprintf " J%d" (int_of_n t))
      | PEnc v -> add (Printf.sprintf " E%d" (List.length v)); List.iter (fun x -> add (Printf.sprintf " %d" (int_of_n x))) v) lv) p

let parse_fs t =
  expect t "FS";
  let nd = nint t in
  rep nd (fun () ->
    match next t with
    | "X-" -> None
    | "X" ->
      let nf = nint t in
      Some (rep nf (fun () ->
        let name = nint t in let size = nint t in let mt = nint t in let ns = nint t in let ino = nint t in let nb = nint t in
        let ids = rep nb (fun () -> n_of_int (nint t)) in
        { ff_name = n_of_int name; ff_size = n_of_int size; ff_mtime = z_of_int mt; ff_nsec = z_of_int ns;
          ff_inode = n_of_int ino; ff_blocks = ids }))
    | s -> failwith ("fs " ^ s))

let parse_hashes t =
  expect t "H";
  let n = nint t in
  let tbl = Hashtbl.create 64 in
  for _ = 1 to n do
    let b = nint t in let l = nint t in let h = hval_of (next t) in Hashtbl.replace tbl (b, l) h
  done;
  fun (b : n) (l : n) ->
    let bi = int_of_n b and li = int_of_n l in
    match Hashtbl.find_opt tbl (bi, li) with Some h -> h | None -> HReal (n_of_int (1000000 + bi * 4096 + li))

let parse_faults t =
  expect t "Q";
  let n = nint t in
  let l = rep n (fun () -> let p = nint t in let d = nint t in let k = next t in
                           (p, d, match k with "E" -> RdErrCont | "I" -> RdIoCont | _ -> RdFatal)) in
  fun (pos : nat) ->
    let p = int_of_nat pos in
    let mine = List.filter (fun (p', _, _) -> p' = p) l in
    if mine = [] then [] else
      let maxd = List.fold_left (fun m (_, d, _) -> max m d) 0 mine in
      List.init (maxd + 1) (fun d -> match List.find_opt (fun (_, d', _) -> d' = d) mine with Some (_, _, r) -> Some r | None -> None)


let parse_wfaults t =
  expect t "W";
  let n = nint t in
  let l = rep n (fun () -> let p = nint t in let lv = nint t in let k = next t in let lg = nint t in (p, lv, (if k = "E" then WEio else if k.[0] = 'S' then classify_pwrite (n_of_int 1024) (PwCount (n_of_int (int_of_string (String.sub k 1 (String.length k - 1))))) else WErr), lg)) in
  ((fun (pos : nat) (lev : nat) ->
     let p = int_of_nat pos and lv = int_of_nat lev in
     match List.find_opt (fun (p', l', _, _) -> p' = p && l' = lv) l with Some (_, _, w, _) -> w | None -> WOk),
   (fun (pos : nat) (lev : nat) ->
     let p = int_of_nat pos and lv = int_of_nat lev in
     match List.find_opt (fun (p', l', _, _) -> p' = p && l' = lv) l with Some (_, _, _, lg) -> nat_of_int lg | None -> nat_of_int 1))

let () =
  try
    while true do
      let line = input_line stdin in
      let t = { a = Array.of_list (List.filter (fun s -> s <> "") (String.split_on_char ' ' (String.trim line))); i = 0 } in
      (try
        match next t with
        | ("syncw" | "syncwk") as cmd ->     (* syncwk: the content is the in-memory state after the scan of the SAME run: past hashes kept *)
          let ff = nint t <> 0 in let fpu = nint t <> 0 in let iol = nint t in let now = nint t in
          let bs = nint t in let nlev = nint t in let stop = nint t in let start = nint t in let mx = nint t in
          expect t "M";
          let cache = nint t in let lag = nint t in
          let hashf = parse_hashes t in
          let c = if cmd = "syncwk" then parse_content t else clear_past (parse_content t) in
          let p = parse_parity t in
          let fs = parse_fs t in
          let faults = parse_faults t in
          let (wf, lagf) = parse_wfaults t in
          let o = { o_force_full = ff; o_force_parity_update = fpu; o_io_error_limit = nat_of_int iol } in
          let stripes = List.init (max 0 (mx - start)) (fun i -> nat_of_int (start + i)) in
          let m = if cache <= 1 then Mono else Threaded (nat_of_int cache) in
          let r = sync_loop_w hashf (n_of_int bs) (nat_of_int nlev) o (n_of_int now) fs faults wf m lagf stripes
                    (if stop < 0 then None else Some (nat_of_int stop)) O [] [] c p O O O in
          let ro = r.w_run in
          let b = Buffer.create 4096 in
          Buffer.add_string b (Printf.sprintf "ok %d %d %d %d %d %d %d " (int_of_nat ro.ro_nerr) (int_of_nat ro.ro_nsilent) (int_of_nat ro.ro_nio)
                                 (if ro.ro_bailed then 1 else 0) (List.length r.w_fpos) (List.length r.w_lost) (int_of_nat r.w_iters));
          print_content b (save_normalise ro.ro_content);
          print_parity b ro.ro_parity;
          print_endline (Buffer.contents b)
        | "trace" ->
          let ff = nint t <> 0 in let fpu = nint t <> 0 in let iol = nint t in let now = nint t in
          let bs = nint t in let nlev = nint t in let stop = nint t in let start = nint t in let mx = nint t in
          expect t "A";
          let asave = nint t in
          let hashf = parse_hashes t in
          let c = clear_past (parse_content t) in
          let p = parse_parity t in
          let fs = parse_fs t in
          let faults = parse_faults t in
          let o = { o_force_full = ff; o_force_parity_update = fpu; o_io_error_limit = nat_of_int iol } in
          let stripes = List.init (max 0 (mx - start)) (fun i -> nat_of_int (start + i)) in
          let tr = sync_trace hashf (n_of_int bs) (nat_of_int nlev) o (n_of_int now) fs faults
                     (fun pos -> asave <> 0 && int_of_nat pos = asave) stripes
                     (if stop < 0 then None else Some (nat_of_int stop)) c p in
          let b = Buffer.create 256 in
          Buffer.add_string b "ok";
          List.iter (function
            | MResize len -> Buffer.add_string b (Printf.sprintf " R%d" (int_of_nat len))
            | MSave _ -> Buffer.add_string b " S"
            | MSched (pos, _) -> Buffer.add_string b (Printf.sprintf " W%d" (int_of_nat pos))
            | MFsync -> Buffer.add_string b " F"
            | MDrain -> Buffer.add_string b " D") tr;
          print_endline (Buffer.contents b)
        | "hashp" ->
          (* hashp <n> { O | M | R | I | F }*  ->  ok <failing> <skip> <nerr> <nsilent> <nio> *)
          let n = nint t in
          let outs = rep n (fun () -> match next t with "O" -> HOk | "M" -> HMissing | "R" -> HRepMismatch | "I" -> HEio | _ -> HErr) in
          let h = hash_phase outs in
          Printf.printf "ok %d %d %d %d %d\n" (if hash_failing h then 1 else 0) (if h.h_skip then 1 else 0)
            (int_of_nat h.h_nerr) (int_of_nat h.h_nsilent) (int_of_nat h.h_nio)
        | "scrub1" ->
          let limit = nint t in let iob = nint t in let now = nint t in
          let tm = nint t in let bad = nint t <> 0 in let rh = nint t <> 0 in let js = nint t <> 0 in
          expect t "D";
          let nd = nint t in
          let disks = rep nd (fun () ->
            let used = nint t <> 0 in let inv = nint t <> 0 in let file = nint t <> 0 in let ts = nint t <> 0 in let uh = nint t <> 0 in
            let out = match next t with "O1" -> SdOk true | "O0" -> SdOk false | "E" -> SdErrCont | "I" -> SdIoCont | "FI" -> SdFatalIo | _ -> SdFatal in
            { st_used = used; st_invalid = inv; st_file = file; st_tsdiff = ts; st_updhash = uh; st_out = out }) in
          expect t "L";
          let nl = nint t in
          let pars = rep nl (fun () -> match next t with "P1" -> SpOk true | "P0" -> SpOk false | "E" -> SpErrCont | "I" -> SpIoCont | "FI" -> SpFatalIo | _ -> SpFatal) in
          let r = scrub_stripe (nat_of_int limit) (nat_of_int iob) (n_of_int now)
                    { i_time = n_of_int tm; i_bad = bad; i_rehash = rh; i_justsynced = js } disks pars in
          let i = r.sc_info in
          Printf.printf "ok %d %d %d %d %d %d %d %d\n" (int_of_n i.i_time) (if i.i_bad then 1 else 0) (if i.i_rehash then 1 else 0)
            (if i.i_justsynced then 1 else 0) (if r.sc_bail then 1 else 0) (int_of_nat r.sc_nerr) (int_of_nat r.sc_nsilent) (int_of_nat r.sc_nio)
        | s -> print_endline ("unknown " ^ s)
      with Failure m -> print_endline ("parse-error " ^ m) | Invalid_argument m -> print_endline ("parse-error " ^ m) | Not_found -> print_endline "parse-error not-found");
      flush stdout
    done
  with End_of_file -> ()
