(* C09 model driver.  One case per line:
     calls <ncopies> <size of flush 1> <size of flush 2> ...
        prints the calls of SaveModel.save_ops as  <call>:<copy index>:<byte count>  separated by blanks;
     needwrite <size|-> ...
        prints true | false : LoadChoice.need_write for copies of these sizes ('-' = missing);
     decode <hex bytes>
        prints ok | eof | bad : NoConfModel.decode_class (CodecModel.decode without configuration file).
   Glue only: parsing, N <-> int, printing. *)
open C09_ext

let rec pos_of_int i = if i = 1 then XH else if i land 1 = 0 then XO (pos_of_int (i lsr 1)) else XI (pos_of_int (i lsr 1))
let n_of_int i = if i = 0 then N0 else Npos (pos_of_int i)
let rec int_of_pos = function XH -> 1 | XO p -> 2 * int_of_pos p | XI p -> 2 * int_of_pos p + 1
let int_of_n = function N0 -> 0 | Npos p -> int_of_pos p

let call_str = function
  | CUnlink -> "unlink" | COpenExcl -> "openexcl" | CWrite -> "write" | CFsync -> "fsync" | CClose -> "close"
  | CVerify -> "verify" | CRename -> "rename"

let () =
  try
    while true do
      let line = input_line stdin in
      let toks = List.filter (fun s -> s <> "") (String.split_on_char ' ' (String.trim line)) in
      (match toks with
       | "calls" :: nc :: sizes ->
         let n = int_of_string nc in
         if n > 64 || List.length sizes > 64 || List.exists (fun s -> int_of_string s > 1 lsl 20) sizes then print_endline "badinput"
         else begin
           let cs = save_calls (n_of_int n) (List.map (fun s -> n_of_int (int_of_string s)) sizes) in
           print_endline (String.concat " " (List.map (fun ((c, i), k) -> Printf.sprintf "%s:%d:%d" (call_str c) (int_of_n i) (int_of_n k)) cs))
         end
       | "needwrite" :: copies ->
         (* one token per configured copy: '-' = missing, else its size; the bytes do not matter to need_write *)
         let mk t = if t = "-" then None else Some (List.init (int_of_string t) (fun _ -> N0)) in
         if List.exists (fun t -> t <> "-" && int_of_string t > 1 lsl 20) copies then print_endline "badinput"
         else print_endline (if need_write (List.map mk copies) then "true" else "false")
       | ["decode"; hex] ->
         let n = String.length hex / 2 in
         let bytes = List.init n (fun i -> n_of_int (int_of_string ("0x" ^ String.sub hex (2 * i) 2))) in
         print_endline (match int_of_n (decode_class bytes) with 0 -> "ok" | 1 -> "eof" | _ -> "bad")
       | ["decode"] -> print_endline (match int_of_n (decode_class []) with 0 -> "ok" | 1 -> "eof" | _ -> "bad")
       | _ -> print_endline "badinput");
      flush stdout
    done
  with End_of_file -> ()
