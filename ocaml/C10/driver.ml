(* C10 model driver.  Glue only: parsing, N <-> hex, printing.  One case per stdin line, one result per line.

   numbers: hexadecimal without prefix; byte strings: hex digits, "-" for the empty string.

   conf   := K <no_conf> <bs> <hs> <clear_past_hash> <force_nocopy> <force_realloc> <skip_content_check> <match_first_uuid>
               <ndisks> {<name> <uuid>} <nlevels> {<nsplits> {<path>}}
   state  := S <bs> <hs> <hash> <seed> <prevhash> <prevseed>
               <nmaps> {<name> <pos> <total> <free> <uuid>}
               <nlevels> {<total> <free> <nsplits> {<path> <uuid> <size>}}
               <ndisks> {<name> <nfiles> {<size> <msec> <mnsec> <inode> <sub> <nblocks> {<state> <pos> <hash>}}
                                <nlinks> {<h|s> <sub> <to>} <ndirs> {<sub>} <ndeleted> {<pos> <hash>}}
               <ninforuns> {<count> <info>}

   commands
     decode <conf> <hexbytes>              ->  ok <state> | Eof | Bad
     reencode <now> <conf> <hexbytes>      ->  ok <hexbytes> | Eof | Bad         (encode now (decode bytes))
     encode <now> <state>                  ->  <hexbytes>
     rawencode <now> <state>               ->  <hexbytes>   (encode without dropping the DELETED blocks of unused positions)
     normalise <now> <state>               ->  <state>
     roundtrip <now> <state>               ->  ok | DIFF <decoded-or-reject> WANT <normalised>
                                               (decode (conf_of s) (encode now s) against normalise now s)
     fixpoint <now> <state>                ->  ok | DIFF ...   (encode now (normalise now s) re-decodes and re-encodes to itself) *)
open C10_ext

let rec pos_of_hex_bits (bits : bool list) : positive option =
  (* bits most significant first *)
  match bits with
  | [] -> None
  | false :: t -> pos_of_hex_bits t
  | true :: t -> Some (List.fold_left (fun p b -> if b then XI p else XO p) XH t)

let n_of_hex (s : string) : n =
  let bits = ref [] in
  String.iter (fun c ->
      let v = match c with
        | '0' .. '9' -> Char.code c - 48 | 'a' .. 'f' -> Char.code c - 87 | 'A' .. 'F' -> Char.code c - 55
        | _ -> failwith ("bad hex " ^ s) in
      bits := (v land 1 = 1) :: (v land 2 = 2) :: (v land 4 = 4) :: (v land 8 = 8) :: !bits) s;
  match pos_of_hex_bits (List.rev !bits) with None -> N0 | Some p -> Npos p

let hex_of_n (x : n) : string =
  match x with
  | N0 -> "0"
  | Npos p ->
    let rec bits p acc = match p with XH -> true :: acc | XO q -> bits q (false :: acc) | XI q -> bits q (true :: acc) in
    (* bits p [] = most significant first?  p = XO/XI wraps low bits outside: XI (XO XH) = 0b101: outer = lowest bit *)
    let rec low_first p = match p with XH -> [true] | XO q -> false :: low_first q | XI q -> true :: low_first q in
    ignore bits;
    let l = Array.of_list (low_first p) in
    let n = Array.length l in
    let nd = (n + 3) / 4 in
    let b = Buffer.create nd in
    for d = nd - 1 downto 0 do
      let v = ref 0 in
      for k = 3 downto 0 do
        let i = 4 * d + k in
        v := 2 * !v + (if i < n && l.(i) then 1 else 0)
      done;
      Buffer.add_char b "0123456789abcdef".[!v]
    done;
    Buffer.contents b

let rec pos_of_int i = if i = 1 then XH else if i land 1 = 0 then XO (pos_of_int (i lsr 1)) else XI (pos_of_int (i lsr 1))
let n_of_int i = if i = 0 then N0 else Npos (pos_of_int i)
let rec int_of_pos = function XH -> 1 | XO p -> 2 * int_of_pos p | XI p -> 2 * int_of_pos p + 1
let int_of_n = function N0 -> 0 | Npos p -> int_of_pos p

(* small bytes are shared *)
let byte_tab = Array.init 256 n_of_int

let bytes_of_hex (s : string) : n list =
  if s = "-" then [] else begin
    let n = String.length s / 2 in
    let r = ref [] in
    for i = n - 1 downto 0 do
      r := byte_tab.(int_of_string ("0x" ^ String.sub s (2 * i) 2)) :: !r
    done;
    !r
  end

let hex_of_bytes (l : n list) : string =
  if l = [] then "-" else begin
    let b = Buffer.create 64 in
    List.iter (fun x -> Buffer.add_string b (Printf.sprintf "%02x" (int_of_n x land 255))) l;
    Buffer.contents b
  end

(* ---- token cursor ---- *)
type cur = { toks : string array; mutable i : int }
let next c = let t = c.toks.(c.i) in c.i <- c.i + 1; t
let num c = n_of_hex (next c)
let str c = bytes_of_hex (next c)
let cnt c = int_of_string ("0x" ^ next c)
let flag c = next c = "1"
let rec rep n f = if n = 0 then [] else let x = f () in x :: rep (n - 1) f

let parse_conf c : conf =
  if next c <> "K" then failwith "conf expected";
  let no_conf = flag c in
  let bs = num c in
  let hs = num c in
  let cph = flag c in
  let nocopy = flag c in
  let realloc = flag c in
  let skip = flag c in
  let first = flag c in
  let nd = cnt c in
  let disks = rep nd (fun () -> let n = str c in let u = str c in (n, u)) in
  let nl = cnt c in
  let par = rep nl (fun () ->
      let ns = cnt c in
      { cp_total = N0; cp_free = N0;
        cp_splits = rep ns (fun () -> { cs_path = str c; cs_uuid = []; cs_size = n_of_hex "ffffffffffffffff" }) }) in
  { k_no_conf = no_conf; k_block_size = bs; k_hash_size = hs; k_disks = disks; k_parity = par;
    k_clear_past_hash = cph; k_force_nocopy = nocopy; k_force_realloc = realloc;
    k_skip_content_check = skip; k_match_first_uuid = first }

let parse_state c : cstate =
  if next c <> "S" then failwith "state expected";
  let bs = num c in
  let hs = num c in
  let hash = num c in
  let seed = str c in
  let prev = num c in
  let pseed = str c in
  let nm = cnt c in
  let maps = rep nm (fun () ->
      let name = str c in let pos = num c in let total = num c in let free = num c in let uuid = str c in
      { cm_name = name; cm_pos = pos; cm_total = total; cm_free = free; cm_uuid = uuid }) in
  let nl = cnt c in
  let par = rep nl (fun () ->
      let total = num c in let free = num c in let ns = cnt c in
      { cp_total = total; cp_free = free;
        cp_splits = rep ns (fun () -> let p = str c in let u = str c in let z = num c in
                             { cs_path = p; cs_uuid = u; cs_size = z }) }) in
  let nd = cnt c in
  let disks = rep nd (fun () ->
      let name = str c in
      let nf = cnt c in
      let files = rep nf (fun () ->
          let size = num c in let msec = num c in let mnsec = num c in let inode = num c in let sub = str c in
          let nb = cnt c in
          let blocks = rep nb (fun () -> let st = num c in let pos = num c in let h = str c in
                                { cb_state = st; cb_pos = pos; cb_hash = h }) in
          { cf_size = size; cf_msec = msec; cf_mnsec = mnsec; cf_inode = inode; cf_sub = sub; cf_blocks = blocks }) in
      let nk = cnt c in
      let links = rep nk (fun () -> let h = next c = "h" in let sub = str c in let t = str c in
                           { cl_hard = h; cl_sub = sub; cl_to = t }) in
      let nr = cnt c in
      let dirs = rep nr (fun () -> str c) in
      let nx = cnt c in
      let del = rep nx (fun () -> let p = num c in let h = str c in (p, h)) in
      { cd_name = name; cd_files = files; cd_links = links; cd_dirs = dirs; cd_deleted = del }) in
  let ni = cnt c in
  let info = List.concat (rep ni (fun () -> let k = cnt c in let v = num c in List.init k (fun _ -> v))) in
  { c_block_size = bs; c_hash_size = hs; c_hash = hash; c_hashseed = seed; c_prevhash = prev; c_prevhashseed = pseed;
    c_maps = maps; c_parity = par; c_disks = disks; c_info = info }

let show_state (s : cstate) : string =
  let b = Buffer.create 1024 in
  let add x = Buffer.add_char b ' '; Buffer.add_string b x in
  let num x = add (hex_of_n x) in
  let str x = add (hex_of_bytes x) in
  let cnt l = add (Printf.sprintf "%x" (List.length l)) in
  Buffer.add_string b "S";
  num s.c_block_size; num s.c_hash_size; num s.c_hash; str s.c_hashseed; num s.c_prevhash; str s.c_prevhashseed;
  cnt s.c_maps;
  List.iter (fun m -> str m.cm_name; num m.cm_pos; num m.cm_total; num m.cm_free; str m.cm_uuid) s.c_maps;
  cnt s.c_parity;
  List.iter (fun p -> num p.cp_total; num p.cp_free; cnt p.cp_splits;
              List.iter (fun x -> str x.cs_path; str x.cs_uuid; num x.cs_size) p.cp_splits) s.c_parity;
  cnt s.c_disks;
  List.iter (fun d ->
      str d.cd_name;
      cnt d.cd_files;
      List.iter (fun f -> num f.cf_size; num f.cf_msec; num f.cf_mnsec; num f.cf_inode; str f.cf_sub;
                  cnt f.cf_blocks;
                  List.iter (fun k -> num k.cb_state; num k.cb_pos; str k.cb_hash) f.cf_blocks) d.cd_files;
      cnt d.cd_links;
      List.iter (fun l -> add (if l.cl_hard then "h" else "s"); str l.cl_sub; str l.cl_to) d.cd_links;
      cnt d.cd_dirs;
      List.iter str d.cd_dirs;
      cnt d.cd_deleted;
      List.iter (fun (p, h) -> num p; str h) d.cd_deleted) s.c_disks;
  (* info as runs *)
  let runs = ref [] in
  List.iter (fun i -> match !runs with
      | (k, v) :: t when v = i -> runs := (k + 1, v) :: t
      | _ -> runs := (1, i) :: !runs) s.c_info;
  let runs = List.rev !runs in
  add (Printf.sprintf "%x" (List.length runs));
  List.iter (fun (k, v) -> add (Printf.sprintf "%x" k); num v) runs;
  Buffer.contents b

let show_result = function
  | Ok s -> "ok " ^ show_state s
  | Eof -> "Eof"
  | Bad -> "Bad"

let () =
  try
    while true do
      let line = input_line stdin in
      let toks = Array.of_list (List.filter (fun s -> s <> "") (String.split_on_char ' ' (String.trim line))) in
      (try
         let c = { toks; i = 1 } in
         (match toks.(0) with
          | "decode" ->
            let k = parse_conf c in
            let bytes = str c in
            print_endline (show_result (decode k bytes))
          | "reencode" ->
            let now = num c in
            let k = parse_conf c in
            let bytes = str c in
            (match decode k bytes with
             | Ok s -> print_endline ("ok " ^ hex_of_bytes (encode now s))
             | Eof -> print_endline "Eof"
             | Bad -> print_endline "Bad")
          | "encode" ->
            let now = num c in
            let s = parse_state c in
            print_endline (hex_of_bytes (encode now s))
          | "rawencode" ->
            (* the writer WITHOUT the clean-up of the DELETED blocks (a file as an older version could have left it):
               write_body on the prepared record whose disks are the ones given *)
            let now = num c in
            let s = parse_state c in
            let p = prepare s in
            let st = p.p_st in
            (* ... and the disks mapped as that older writer saw them: by what they hold before the clean-up *)
            let idx = assign_idx s.c_disks p.p_blockmax s.c_maps N0 (List.map (fun _ -> None) s.c_disks) in
            let raw = { p with p_st = { st with c_disks = s.c_disks }; p_idx = idx } in
            print_endline (hex_of_bytes (add_crc (write_body now raw)))
          | "normalise" ->
            let now = num c in
            let s = parse_state c in
            print_endline (show_state (normalise now s))
          | "roundtrip" ->
            let now = num c in
            let s = parse_state c in
            let want = normalise now s in
            (match decode (conf_of s) (encode now s) with
             | Ok s' when s' = want -> print_endline "ok"
             | r -> print_endline ("DIFF " ^ show_result r ^ " WANT " ^ show_state want))
          | "fixpoint" ->
            let now = num c in
            let s = parse_state c in
            let n1 = normalise now s in
            let b1 = encode now n1 in
            (match decode (conf_of n1) b1 with
             | Ok s2 ->
               let b2 = encode now s2 in
               if b1 = b2 && s2 = n1 then print_endline "ok"
               else print_endline ("DIFF " ^ hex_of_bytes b1 ^ " VS " ^ hex_of_bytes b2)
             | r -> print_endline ("DIFF " ^ show_result r))
          | _ -> print_endline "badcommand")
       with
       | Stack_overflow -> print_endline "error stack"
       | Failure m -> print_endline ("error " ^ m)
       | Invalid_argument m -> print_endline ("error " ^ m));
      flush stdout
    done
  with End_of_file -> ()
