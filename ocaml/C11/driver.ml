(* Scan-model driver (C11, C19): one request per line (space separated tokens), one reply line.
   Glue only: tokenising, int <-> N/Z/nat, (de)serialisation.

   hval     : Z | I | <int>
   content  : C <ndisks> <blockmax> { D- | D <nf> <ndel> <nlinks> <ndirs>
                 { F <name> <size> <mtime> <nsec> <inode> <copy0/1> <nblk> { <b|g|p> <pos> <hval> }* }*
                 { <pos> <hval> }* { <name> <to> <hard0/1> }* { <name> }* }*
              INFO <n> { - | <time> <bad> <rehash> <just> }*
   base     : BASE <n> { <name id> <basename id> }*
   usable   : USE <n> { 0|1 }*                         (has_past_inodes per disk position, decided by the harness)
              UU <n> { <recorded uuid id> <reported uuid id> }*   (0 = empty; has_past_inodes is decided by the model)
   listing  : L <ndisks> { <n> { <f|s|d> <name> <size> <mtime> <nsec> <inode> <nlink> <to> <key> }* }*
   fs       : FS <ndisks> { X- | X <nfiles> { <name> <size> <mtime> <nsec> <inode> <nblk> <id>* }* }*
   hashes   : H <n> { <bid> <len> <hval> }*            (anything absent hashes to a fresh value 1000000+bid*4096+len)
   request  : diff <bs> BASE.. USE.. C.. L..
              sync <nocopy> <prehash> <bs> <nlev> <now> <start> <count> BASE.. USE.. H.. C.. L.. FS..
   reply    : ok <aborted 0/1> [ <equal> <added> <removed> <updated> <moved> <copied> <restored> <differs> <parity_invalid> <exit>
                                 [ POST C.. FINAL <herr> <hsilent> <hio> <err> <silent> <io> <skipped> <fails> C.. ] ]          *)
open C11_ext

let rec pos_of_int i = if i = 1 then XH else if i land 1 = 0 then XO (pos_of_int (i lsr 1)) else XI (pos_of_int (i lsr 1))
let n_of_int i = if i = 0 then N0 else Npos (pos_of_int i)
let rec int_of_pos = function XH -> 1 | XO p -> 2 * int_of_pos p | XI p -> 2 * int_of_pos p + 1
let int_of_n = function N0 -> 0 | Npos p -> int_of_pos p
let z_of_int i = if i = 0 then Z0 else if i > 0 then Zpos (pos_of_int i) else Zneg (pos_of_int (-i))
let int_of_z = function Z0 -> 0 | Zpos p -> int_of_pos p | Zneg p -> - (int_of_pos p)
let rec nat_of_int i = if i <= 0 then O else S (nat_of_int (i - 1))
let rec int_of_nat = function O -> 0 | S n -> 1 + int_of_nat n

type tk = { a : string array; mutable i : int }
let next t = let s = t.a.(t.i) in t.i <- t.i + 1; s
let nint t = int_of_string (next t)
let expect t s = let x = next t in if x <> s then failwith ("expected " ^ s ^ " got " ^ x)

let hval_of s = if s = "Z" then HZero else if s = "I" then HInvalid else HReal (n_of_int (int_of_string s))
let s_of_hval = function HZero -> "Z" | HInvalid -> "I" | HReal h -> string_of_int (int_of_n h)
let bstate_of = function "b" -> SBlk | "g" -> SChg | "p" -> SRep | s -> failwith ("state " ^ s)
let s_of_bstate = function SBlk -> "b" | SChg -> "g" | SRep -> "p"

let rec rep n f = if n <= 0 then [] else let x = f () in x :: rep (n - 1) f

let parse_content t =
  expect t "C";
  let nd = nint t in let bm = nint t in
  let disks = rep nd (fun () ->
    match next t with
    | "D-" -> None
    | "D" ->
      let nf = nint t in let ndel = nint t in let nl = nint t in let ndr = nint t in
      let files = rep nf (fun () ->
        expect t "F";
        let name = nint t in let size = nint t in let mt = nint t in let ns = nint t in let ino = nint t in
        let copy = nint t <> 0 in let nb = nint t in
        let blocks = rep nb (fun () -> let st = bstate_of (next t) in let p = nint t in let h = hval_of (next t) in
                                       { fb_state = st; fb_pos = nat_of_int p; fb_hash = h }) in
        { cf_name = n_of_int name; cf_size = n_of_int size; cf_mtime = z_of_int mt; cf_nsec = z_of_int ns;
          cf_inode = n_of_int ino; cf_copy = copy; cf_blocks = blocks }) in
      let dels = rep ndel (fun () -> let p = nint t in let h = hval_of (next t) in (nat_of_int p, h)) in
      let links = rep nl (fun () -> let n = nint t in let to_ = nint t in let h = nint t <> 0 in
                                    { cl_name = n_of_int n; cl_to = n_of_int to_; cl_hard = h }) in
      let dirs = rep ndr (fun () -> n_of_int (nint t)) in
      Some { cd_files = files; cd_deleted = dels; cd_links = links; cd_dirs = dirs }
    | s -> failwith ("disk " ^ s)) in
  expect t "INFO";
  let ni = nint t in
  let info = rep ni (fun () ->
    match next t with
    | "-" -> None
    | s -> let tm = int_of_string s in let bad = nint t <> 0 in let rh = nint t <> 0 in let js = nint t <> 0 in
      Some { i_time = n_of_int tm; i_bad = bad; i_rehash = rh; i_justsynced = js }) in
  { c_disks = disks; c_info = info; c_blockmax = nat_of_int bm }

let print_content b c =
  let add = Buffer.add_string b in
  add (Printf.sprintf " C %d %d" (List.length c.c_disks) (int_of_nat c.c_blockmax));
  List.iter (function
    | None -> add " D-"
    | Some d ->
      add (Printf.sprintf " D %d %d %d %d" (List.length d.cd_files) (List.length d.cd_deleted) (List.length d.cd_links) (List.length d.cd_dirs));
      List.iter (fun f ->
        add (Printf.sprintf " F %d %d %d %d %d %d %d" (int_of_n f.cf_name) (int_of_n f.cf_size) (int_of_z f.cf_mtime)
               (int_of_z f.cf_nsec) (int_of_n f.cf_inode) (if f.cf_copy then 1 else 0) (List.length f.cf_blocks));
        List.iter (fun fb -> add (Printf.sprintf " %s %d %s" (s_of_bstate fb.fb_state) (int_of_nat fb.fb_pos) (s_of_hval fb.fb_hash))) f.cf_blocks)
        d.cd_files;
      List.iter (fun (p, h) -> add (Printf.sprintf " %d %s" (int_of_nat p) (s_of_hval h)))
        (List.sort (fun (p, _) (q, _) -> compare (int_of_nat p) (int_of_nat q)) d.cd_deleted);
      List.iter (fun l -> add (Printf.sprintf " %d %d %d" (int_of_n l.cl_name) (int_of_n l.cl_to) (if l.cl_hard then 1 else 0))) d.cd_links;
      List.iter (fun n -> add (Printf.sprintf " %d" (int_of_n n))) d.cd_dirs) c.c_disks;
  add (Printf.sprintf " INFO %d" (List.length c.c_info));
  List.iter (function
    | None -> add " -"
    | Some i -> add (Printf.sprintf " %d %d %d %d" (int_of_n i.i_time) (if i.i_bad then 1 else 0) (if i.i_rehash then 1 else 0) (if i.i_justsynced then 1 else 0)))
    c.c_info

let parse_base t =
  expect t "BASE";
  let n = nint t in
  let tbl = Hashtbl.create 64 in
  for _ = 1 to n do let a = nint t in let b = nint t in Hashtbl.replace tbl a b done;
  fun (x : n) -> match Hashtbl.find_opt tbl (int_of_n x) with Some b -> n_of_int b | None -> x

let parse_usable t =
  match next t with
  | "USE" -> let n = nint t in rep n (fun () -> nint t <> 0)
  | "UU" -> let n = nint t in rep n (fun () -> let r = nint t in let c = nint t in has_past_inodes false (n_of_int r) (n_of_int c))
  | s -> failwith ("usable " ^ s)

let parse_listing t =
  expect t "L";
  let nd = nint t in
  rep nd (fun () ->
    let n = nint t in
    rep n (fun () ->
      let k = match next t with "f" -> LFile | "s" -> LSym | "d" -> LDir | s -> failwith ("kind " ^ s) in
      let name = nint t in let size = nint t in let mt = nint t in let ns = nint t in let ino = nint t in
      let nl = nint t in let to_ = nint t in let key = nint t in
      { le_kind = k; le_name = n_of_int name; le_size = n_of_int size; le_mtime = z_of_int mt; le_nsec = z_of_int ns;
        le_inode = n_of_int ino; le_nlink = n_of_int nl; le_to = n_of_int to_; le_key = n_of_int key }))

let parse_fs t =
  expect t "FS";
  let nd = nint t in
  rep nd (fun () ->
    match next t with
    | "X-" -> None
    | "X" ->
      let nf = nint t in
      Some (rep nf (fun () ->
        let name = nint t in let size = nint t in let mt = nint t in let ns = nint t in let ino = nint t in let nb = nint t in
        let ids = rep nb (fun () -> n_of_int (nint t)) in
        { ff_name = n_of_int name; ff_size = n_of_int size; ff_mtime = z_of_int mt; ff_nsec = z_of_int ns;
          ff_inode = n_of_int ino; ff_blocks = ids }))
    | s -> failwith ("fs " ^ s))

let parse_hashes t =
  expect t "H";
  let n = nint t in
  let tbl = Hashtbl.create 64 in
  for _ = 1 to n do
    let b = nint t in let l = nint t in let h = hval_of (next t) in Hashtbl.replace tbl (b, l) h
  done;
  fun (b : n) (l : n) ->
    let bi = int_of_n b and li = int_of_n l in
    match Hashtbl.find_opt tbl (bi, li) with Some h -> h | None -> HReal (n_of_int (1000000 + bi * 4096 + li))

let print_counters b o =
  let c = o.sc_cnt in
  Buffer.add_string b (Printf.sprintf " %d %d %d %d %d %d %d %d %d %d"
    (int_of_nat c.n_equal) (int_of_nat c.n_insert) (int_of_nat c.n_remove) (int_of_nat c.n_change) (int_of_nat c.n_move)
    (int_of_nat c.n_copy) (int_of_nat c.n_restore) (if o.sc_differs then 1 else 0) (if o.sc_parity_invalid then 1 else 0)
    (int_of_nat (diff_exit o)))

let () =
  try
    while true do
      let line = input_line stdin in
      let t = { a = Array.of_list (List.filter (fun s -> s <> "") (String.split_on_char ' ' (String.trim line))); i = 0 } in
      (try
        match next t with
        | "diff" ->
          let bs = nint t in
          let basef = parse_base t in let usable = parse_usable t in
          let c = parse_content t in let l = parse_listing t in
          (match diff_scan basef (n_of_int bs) usable c l with
           | None -> print_endline "ok 1"
           | Some o -> let b = Buffer.create 256 in Buffer.add_string b "ok 0"; print_counters b o; print_endline (Buffer.contents b))
        | "sync" ->
          let nocopy = nint t <> 0 in let prehash = nint t <> 0 in let bs = nint t in let nlev = nint t in let now = nint t in
          let start = nint t in let count = nint t in
          let basef = parse_base t in let usable = parse_usable t in let hashf = parse_hashes t in
          let c = parse_content t in let l = parse_listing t in let fs = parse_fs t in
          (match sync_scan basef (n_of_int bs) nocopy usable c l with
           | None -> print_endline "ok 1"
           | Some o ->
             let b = Buffer.create 4096 in
             Buffer.add_string b "ok 0"; print_counters b o;
             Buffer.add_string b " POST";
             print_content b (save_normalise o.sc_content);
             let c1 = o.sc_content in
             let par = List.init nlev (fun _ -> List.init (int_of_nat c1.c_blockmax) (fun i -> PJunk (n_of_int (i + 1)))) in
             let opts = { o_force_full = false; o_force_parity_update = false; o_io_error_limit = nat_of_int 100 } in
             let r = sync_run hashf (n_of_int bs) (nat_of_int nlev) opts prehash (n_of_int now) fs (fun _ _ -> None) (fun _ -> [])
                       (nat_of_int start) (nat_of_int count) c1 par in
             Buffer.add_string b (Printf.sprintf " FINAL %d %d %d %d %d %d %d %d" (int_of_nat r.sy_herr) (int_of_nat r.sy_hsilent) (int_of_nat r.sy_hio)
                                    (int_of_nat r.sy_err) (int_of_nat r.sy_silent) (int_of_nat r.sy_io) (if r.sy_skipped then 1 else 0)
                                    (if sync_fails r then 1 else 0));
             print_content b (save_normalise r.sy_content);
             print_endline (Buffer.contents b))
        | s -> print_endline ("unknown " ^ s)
      with Failure m -> print_endline ("parse-error " ^ m) | Invalid_argument m -> print_endline ("parse-error " ^ m));
      flush stdout
    done
  with End_of_file -> ()
