(* c12 model driver: glue only (parsing, N <-> int, printing).  One request per stdin line, one result per line.
   run <Cmd> O <20 option tokens> P <summary tokens>   (see harness/py/c12_lib.py opts_tokens / pre_tokens)
     -> ok <Ok|Errors|NeedSync|Refused> E <effect>* R <report>* T <empty><zero><short><mismatch>
   effect = WData:<d>:<p>:<kind> | WParity:<l>:<s> | RszParity:<l> | WContent:<i> | WLock | WLog | WPool:<p> *)
open C12_ext

let rec pos_of_int i = if i = 1 then XH else if i land 1 = 0 then XO (pos_of_int (i lsr 1)) else XI (pos_of_int (i lsr 1))
let n_of_int i = if i <= 0 then N0 else Npos (pos_of_int i)
let rec int_of_pos = function XH -> 1 | XO p -> 2 * int_of_pos p | XI p -> 2 * int_of_pos p + 1
let int_of_n = function N0 -> 0 | Npos p -> int_of_pos p
let bl s = s = "1"
let bits s = if s = "-" then [] else List.init (String.length s) (fun i -> s.[i] = '1')
let nlist s = if s = "-" then [] else List.map (fun x -> n_of_int (int_of_string x)) (String.split_on_char ',' s)
let pair s = match String.split_on_char ':' s with [a; b] -> (n_of_int (int_of_string a), n_of_int (int_of_string b)) | _ -> failwith "pair"

let cmd_of = function
  | "Status" -> Status | "Diff" -> Diff | "List" -> ListC | "Dup" -> Dup | "Check" -> Check | "Devices" -> Devices
  | "Scrub" -> Scrub | "Sync" -> Sync | "Fix" -> Fix | "Pool" -> Pool | "Touch" -> Touch | _ -> failwith "cmd"
let kind_of = function "file" -> OFile | "empty" -> OEmptyFile | "symlink" -> OSymlink | "hardlink" -> OHardlink | "dir" -> ODir | _ -> failwith "kind"
let state_of = function "good" -> FGood | "rec" -> FRecoverable | "unrec" -> FUnrecoverable | _ -> failwith "state"
let dk = function KCreate -> "create" | KWrite -> "write" | KTruncate -> "truncate" | KUtime -> "utime" | KRename -> "rename"
  | KUnlink -> "unlink" | KMkdir -> "mkdir" | KLink -> "link" | KSymlink -> "symlink"
let eff = function
  | WData (d, p, k) -> Printf.sprintf "WData:%d:%d:%s" (int_of_n d) (int_of_n p) (dk k)
  | WParity (l, s) -> Printf.sprintf "WParity:%d:%d" (int_of_n l) (int_of_n s)
  | RszParity l -> Printf.sprintf "RszParity:%d" (int_of_n l)
  | WContent i -> Printf.sprintf "WContent:%d" (int_of_n i)
  | WLock -> "WLock" | WLog -> "WLog"
  | WPool p -> Printf.sprintf "WPool:%d" (int_of_n p)
let rep = function
  | RFixed (d, p) -> Printf.sprintf "fixed:%d:%d" (int_of_n d) (int_of_n p)
  | RRecovered (d, p) -> Printf.sprintf "recovered:%d:%d" (int_of_n d) (int_of_n p)
  | RUnrecoverable (d, p) -> Printf.sprintf "unrecoverable:%d:%d" (int_of_n d) (int_of_n p)
  | RParityFixed (l, s) -> Printf.sprintf "parity_fixed:%d:%d" (int_of_n l) (int_of_n s)
let ex = function ExOk -> "Ok" | ExErrors -> "Errors" | ExNeedSync -> "NeedSync" | ExRefused -> "Refused"

let () =
  try
    while true do
      let line = input_line stdin in
      let t = Array.of_list (List.filter (fun s -> s <> "") (String.split_on_char ' ' (String.trim line))) in
      (try
        if t.(0) <> "run" then failwith "request";
        let c = cmd_of t.(1) in
        if t.(2) <> "O" then failwith "O";
        let k = ref 3 in
        let next () = let v = t.(!k) in incr k; v in
        let nb () = bl (next ()) in
        let ni () = n_of_int (int_of_string (next ())) in
        let o_log = nb () in let o_force_zero = nb () in let o_force_empty = nb () in let o_force_full = nb () in
        let o_force_realloc = nb () in let o_force_uuid = nb () in let o_audit = nb () in let o_prehash = nb () in
        let o_kill_after_sync = nb () in let o_force_content_write = nb () in let o_skip_content_write = nb () in
        let o_skip_lock = nb () in let o_blockstart = ni () in let o_blockcount = ni () in let o_fdisk = nb () in
        let o_fdisk_parity = bits (next ()) in let o_ffile = nb () in let o_missing = nb () in let o_error = nb () in let o_plan_conflict = nb () in
        let o = { o_log; o_force_zero; o_force_empty; o_force_full; o_force_realloc; o_force_uuid; o_audit; o_prehash;
                  o_kill_after_sync; o_force_content_write; o_skip_content_write; o_skip_lock; o_blockstart; o_blockcount;
                  o_fdisk; o_fdisk_parity; o_ffile; o_missing; o_error; o_plan_conflict } in
        if next () <> "P" then failwith "P";
        let p_conf_ok = nb () in let p_lock_free = nb () in let p_ncontent = ni () in let p_level = ni () in
        let p_content_found = nb () in let p_content_ok = nb () in let p_read_need_write = nb () in
        let p_bs_mismatch = nb () in let p_hs_mismatch = nb () in let p_unknown_disk = nb () in let p_uuid_changes = ni () in
        if next () <> "D" then failwith "D";
        let nd = int_of_string (next ()) in
        let p_disks = List.init nd (fun _ ->
          let ds_equal = ni () in let ds_move = ni () in let ds_restore = ni () in let ds_remove = ni () in
          let ds_change = ni () in let ds_equal_links = ni () in let ds_insert = ni () in let ds_copy = ni () in let ds_zero = nb () in
          { ds_equal; ds_move; ds_restore; ds_remove; ds_change; ds_equal_links; ds_insert; ds_copy; ds_zero }) in
        let p_scan_need_write = nb () in let p_blockmax = ni () in let p_used = ni () in
        let p_parity_access = bits (next ()) in let p_parity_open = bits (next ()) in let splits_tok = next () in let bs_tok = n_of_int (int_of_string (next ())) in
        let split_of x = (match String.split_on_char ':' x with
                          | [r; d] -> ((if r = "-" then None else Some (n_of_int (int_of_string r))), n_of_int (int_of_string d))
                          | _ -> failwith "split") in
        let p_parity_blocks = if splits_tok = "-" then [] else
            List.map (fun lv -> valid_blocks bs_tok (List.map split_of (String.split_on_char ',' lv))) (String.split_on_char ';' splits_tok) in let p_parity_absent = bits (next ()) in let p_parity_resize = bits (next ()) in let p_parity_modified = bits (next ()) in
        let p_prehash_fail = nb () in let sync_work = nb () in let p_sync_errors = nb () in let p_array_empty = nb () in
        let p_scrub_stripes = ni () in let p_scrub_errors = nb () in let p_check_errors = nb () in let p_diff = nb () in
        if next () <> "I" then failwith "I";
        let ni_ = int_of_string (next ()) in
        let p_fix_items = List.init ni_ (fun _ ->
          let fi_disk = ni () in let fi_path = ni () in let fi_kind = kind_of (next ()) in let fi_selected = nb () in
          let fi_missing = nb () in let fi_unrec_copy = nb () in let fi_larger = nb () in let fi_state = state_of (next ()) in
          let fi_partial = nb () in let fi_unsynced = nb () in let fi_finished = nb () in let na = int_of_string (next ()) in let fi_anc = List.init na (fun _ -> ni ()) in
          { fi_disk; fi_path; fi_kind; fi_selected; fi_missing; fi_unrec_copy; fi_larger; fi_state; fi_partial; fi_unsynced; fi_finished; fi_anc }) in
        if next () <> "F" then failwith "F";
        let nf = int_of_string (next ()) in
        let p_fix_parity = List.init nf (fun _ -> pair (next ())) in
        let p_fix_resize = bits (next ()) in
        if next () <> "T" then failwith "T";
        let nt = int_of_string (next ()) in
        let p_touch = List.init nt (fun _ -> pair (next ())) in
        let p_pool_conf = nb () in
        if next () <> "L" then failwith "L";
        let nl = int_of_string (next ()) in
        let p_pool_changes = List.init nl (fun _ -> ni ()) in
        let p = { p_conf_ok; p_lock_free; p_ncontent; p_level; p_content_found; p_content_ok; p_read_need_write; p_bs_mismatch;
                  p_hs_mismatch; p_unknown_disk; p_uuid_changes; p_disks; p_scan_need_write; p_blockmax; p_used; p_parity_access; p_parity_open;
                  p_parity_blocks; p_parity_absent; p_parity_resize; p_parity_modified; p_prehash_fail; p_sync_stripes = (if sync_work then [N0] else []);
                  p_sync_errors; p_array_empty; p_scrub_stripes; p_scrub_errors; p_check_errors; p_diff; p_fix_items;
                  p_fix_parity; p_fix_resize; p_touch; p_pool_conf; p_pool_changes } in
        let ((effs, reps), e) = run_full c o p in
        let bit x = if x then "1" else "0" in
        Printf.printf "ok %s E %s R %s T %s%s%s%s\n" (ex e) (String.concat " " (List.map eff effs)) (String.concat " " (List.map rep reps))
          (bit (empty_trigger p)) (bit (zero_trigger p)) (bit (short_parity p)) (bit (mismatch_trigger p))
      with e -> Printf.printf "error %s\n" (Printexc.to_string e));
      flush stdout
    done
  with End_of_file -> ()
