(* glue for the extracted ring model: parsing and printing only.
   input line:  replay <n> <R> <W> <bmax> ; <enabled positions> ; <events>
   event:       <label>:<slot>:<pos>  with label one of
                RT<w> RE<w> RW<w> RX<w>  WT<w> WE<w> WW<w> WX<w>
                CN  CR<base>,<count>,<w>  CQ<base>,<count>  CP<w>  CO  CW0|CW1(skip)  CB CS CJ
   output line: ok|rej accepted=<k> spurious=<sp> final=<0|1> [event=<text of the rejected event>] *)
open C13_ext

let rec nat_of_int i = if i <= 0 then O else S (nat_of_int (i - 1))
let rec int_of_nat = function O -> 0 | S n -> 1 + int_of_nat n

let words s = List.filter (fun x -> x <> "") (String.split_on_char ' ' s)
let tmap f l = List.rev (List.rev_map f l)   (* tail recursive: traces have up to 10^6 events *)

let parse_label s =
  let tl k = String.sub s k (String.length s - k) in
  let num k = nat_of_int (int_of_string (tl k)) in
  let nums k = List.map (fun x -> nat_of_int (int_of_string x)) (String.split_on_char ',' (tl k)) in
  match s.[0], s.[1] with
  | 'R', 'T' -> RTake (num 2) | 'R', 'E' -> REnd (num 2) | 'R', 'W' -> RWait (num 2) | 'R', 'X' -> RExit (num 2)
  | 'W', 'T' -> WTake (num 2) | 'W', 'E' -> WEnd (num 2) | 'W', 'W' -> WWait (num 2) | 'W', 'X' -> WExit (num 2)
  | 'C', 'N' -> CReadNext
  | 'C', 'R' -> (match nums 2 with [b; c; w] -> CTaskRead (b, c, w) | _ -> failwith "CR")
  | 'C', 'Q' -> (match nums 2 with [b; c] -> CTaskWait (b, c) | _ -> failwith "CQ")
  | 'C', 'P' -> CParityWrite (num 2)
  | 'C', 'O' -> CParityWait
  | 'C', 'W' -> CWriteNext (s.[2] = '1')
  | 'C', 'B' -> CBail | 'C', 'S' -> CStop | 'C', 'J' -> CJoin
  | _ -> failwith ("label " ^ s)

let parse_event s =
  match String.split_on_char ':' s with
  | [l; a; b] -> (parse_label l, (nat_of_int (int_of_string a), nat_of_int (int_of_string b)))
  | _ -> failwith ("event " ^ s)

let () =
  try
    while true do
      let line = input_line stdin in
      (try
        match String.split_on_char ';' line with
        | [hd; ps; evs] ->
          (match words hd with
           | ["replay"; n; r; w; bm] ->
             let p = { pn = nat_of_int (int_of_string n); pR = nat_of_int (int_of_string r);
                       pW = nat_of_int (int_of_string w);
                       poss = tmap (fun x -> nat_of_int (int_of_string x)) (words ps);
                       bmax = nat_of_int (int_of_string bm) } in
             let ew = Array.of_list (words evs) in
             let el = tmap parse_event (Array.to_list ew) in
             let (((st, k), sp), ok) = replay p (init p) el O O in
             let k = int_of_nat k in
             Printf.printf "%s accepted=%d spurious=%d final=%d%s\n" (if ok then "ok" else "rej") k (int_of_nat sp)
               (if is_final st then 1 else 0)
               (if ok then "" else " event=" ^ ew.(k))
           | _ -> print_endline "error bad header")
        | [hd; ps; fs; evs] ->
          (* ereplay <n> <R> <W> <bmax> ; <positions> ; <w>:<pos>:<kind> ... ; <events>  (injected write failures)
             prints: eok cnt=<k1,k2,...> bad=<p1,p2,...>  |  erej *)
          (match words hd with
           | ["ereplay"; n; r; w; bm] ->
             let p = { pn = nat_of_int (int_of_string n); pR = nat_of_int (int_of_string r);
                       pW = nat_of_int (int_of_string w);
                       poss = tmap (fun x -> nat_of_int (int_of_string x)) (words ps);
                       bmax = nat_of_int (int_of_string bm) } in
             let fl = tmap (fun x -> match String.split_on_char ':' x with
                                     | [a; b; c] -> ((nat_of_int (int_of_string a), nat_of_int (int_of_string b)), nat_of_int (int_of_string c))
                                     | _ -> failwith "fault") (words fs) in
             let ls = tmap (fun x -> fst (parse_event x)) (words evs) in
             (match ereplay_all p fl ls with
              | Some (c, b) ->
                let pr l = String.concat "," (List.map (fun x -> string_of_int (int_of_nat x)) l) in
                Printf.printf "eok cnt=%s bad=%s\n" (pr c) (pr b)
              | None -> print_endline "erej")
           | _ -> print_endline "error bad header")
        | _ -> print_endline "error bad line"
      with Failure m -> print_endline ("error " ^ m) | Invalid_argument m -> print_endline ("error " ^ m));
      flush stdout
    done
  with End_of_file -> ()
