(* c15 model driver: glue only (parsing, N/Z <-> int, printing).  One case per stdin line, one result per line.
   plan <even 0|1> <force_at> <default|bad|new|full|NUMBER> <older NUMBER|-> <now> <info>*
        -> fatal_older | fatal_empty | badarg | lim <kind> <countlimit> <timelimit> <lastlimit> <selection bits>
   stripe <io_error_limit> <cerr> <csilent> <cio> <info> <now> <ndata> <data>* <nparity> <parity>*
        data   = <disk 0|1><block E|B|C|R|D><tsdiff 0|1><state D|e|i|E|I><hasheq 0|1>   e.g. 1B0D1
        parity = <state D|e|i|E|I><equal 0|1>                                            e.g. D1
        -> bail | info <info'> <cerr> <csilent> <cio> verified=<0|1> damaged=<0|1>
   apply <now> <bits sel> <flags per position: 4 chars e s i u, or ->* <info>*   (same length lists)
        -> infos <info'>*
   word <info> -> time bad rehash justsynced
   NUMBER = decimal digits of any length, optionally preceded by '-' (strtoul semantics) *)
open C15_ext

let rec pos_of_int i = if i = 1 then XH else if i land 1 = 0 then XO (pos_of_int (i lsr 1)) else XI (pos_of_int (i lsr 1))
let n_of_int i = if i = 0 then N0 else Npos (pos_of_int i)
let z_of_int i = if i = 0 then Z0 else if i > 0 then Zpos (pos_of_int i) else Zneg (pos_of_int (-i))
let rec int_of_pos = function XH -> 1 | XO p -> 2 * int_of_pos p | XI p -> 2 * int_of_pos p + 1
let int_of_n = function N0 -> 0 | Npos p -> int_of_pos p
let int_of_z = function Z0 -> 0 | Zpos p -> int_of_pos p | Zneg p -> - (int_of_pos p)
let b c = c = '1'
let bit x = if x then "1" else "0"

let kind_name = function SCRUB_AUTO -> "auto" | SCRUB_BAD -> "bad" | SCRUB_NEW -> "new" | SCRUB_FULL -> "full" | SCRUB_EVEN -> "even"

(* decimal digits of any length -> N (strtoul's value before saturation); "-k" -> 2^64 - k as strtoul negates *)
let n_of_digits s =
  String.iter (fun c -> if c < '0' || c > '9' then failwith "digits") s;
  if s = "" then failwith "digits";
  let r = ref N0 in
  String.iter (fun c -> r := N.add (N.mul !r (n_of_int 10)) (n_of_int (Char.code c - 48))) s; !r
let n_of_number s =
  if String.length s > 1 && s.[0] = '-' then N.sub (n_of_digits "18446744073709551616") (n_of_digits (String.sub s 1 (String.length s - 1)))
  else n_of_digits s

let arg_of s = match s with
  | "default" -> Some ArgDefault | "bad" -> Some ArgBad | "new" -> Some ArgNew | "full" -> Some ArgFull
  | _ -> parse_plan_number (n_of_number s)

let block_of = function 'E' -> BLOCK_EMPTY | 'B' -> BLOCK_BLK | 'C' -> BLOCK_CHG | 'R' -> BLOCK_REP | _ -> BLOCK_DELETED
let state_of = function 'D' -> TASK_DONE | 'e' -> TASK_ERROR_CONTINUE | 'i' -> TASK_IOERROR_CONTINUE | 'E' -> TASK_ERROR | _ -> TASK_IOERROR
let data_of s = { dt_disk = b s.[0]; dt_block = block_of s.[1]; dt_ts_diff = b s.[2]; dt_state = state_of s.[3]; dt_hash_eq = b s.[4] }
let parity_of s = { pt_state = state_of s.[0]; pt_equal = b s.[1] }

let sub a off n = Array.to_list (Array.sub a off n)

let () =
  try
    while true do
      let line = input_line stdin in
      let toks = Array.of_list (List.filter (fun s -> s <> "") (String.split_on_char ' ' (String.trim line))) in
      (try
        (match toks.(0) with
         | "plan" ->
           let t = { force_scrub_even = (toks.(1) = "1"); force_scrub_at = n_of_int (int_of_string toks.(2)) } in
           let older = if toks.(4) = "-" then Some None else parse_older_number (n_of_number toks.(4)) in
           let now = z_of_int (int_of_string toks.(5)) in
           let infos = List.map (fun s -> n_of_int (int_of_string s)) (sub toks 6 (Array.length toks - 6)) in
           (match arg_of toks.(3), older with
            | Some arg, Some older ->
              (match scrub_limits t arg older now infos with
               | LimFatalOlder -> print_endline "fatal_older"
               | LimFatalEmpty -> print_endline "fatal_empty"
               | Lim (pk, cl, tl, ll) ->
                 let sel = scrub_selected pk tl ll infos in
                 (* scrub_plan must agree with limits + selection *)
                 (match scrub_plan t arg older now infos with
                  | Some s2 when s2 = sel -> ()
                  | _ -> failwith "scrub_plan <> scrub_selected");
                 Printf.printf "lim %s %d %d %d %s\n" (kind_name pk) (int_of_n cl) (int_of_z tl) (int_of_n ll)
                   (String.concat "" (List.map bit sel)))
            | _ -> print_endline "badarg")
         | "stripe" ->
           let lim = n_of_int (int_of_string toks.(1)) in
           let c = { c_error = n_of_int (int_of_string toks.(2)); c_silent = n_of_int (int_of_string toks.(3));
                     c_io = n_of_int (int_of_string toks.(4)) } in
           let info = n_of_int (int_of_string toks.(5)) and now = z_of_int (int_of_string toks.(6)) in
           let nd = int_of_string toks.(7) in
           let ds = List.map data_of (sub toks 8 nd) in
           let np = int_of_string toks.(8 + nd) in
           let ps = List.map parity_of (sub toks (9 + nd) np) in
           (match scrub_stripe lim c ds ps info now with
            | None -> print_endline "bail"
            | Some (info', c') ->
              Printf.printf "info %d %d %d %d verified=%s damaged=%s\n" (int_of_n info') (int_of_n c'.c_error)
                (int_of_n c'.c_silent) (int_of_n c'.c_io) (bit (verified ds ps)) (bit (damaged ds ps)))
         | "apply" ->
           let now = z_of_int (int_of_string toks.(1)) in
           let sel = List.init (String.length toks.(2)) (fun i -> b toks.(2).[i]) in
           let n = List.length sel in
           let fl = List.map (fun s ->
               if s = "-" then { error_on_this_block = false; silent_error_on_this_block = false;
                                 io_error_on_this_block = false; block_is_unsynced = false }
               else { error_on_this_block = b s.[0]; silent_error_on_this_block = b s.[1];
                      io_error_on_this_block = b s.[2]; block_is_unsynced = b s.[3] }) (sub toks 3 n) in
           let infos = List.map (fun s -> n_of_int (int_of_string s)) (sub toks (3 + n) n) in
           print_endline ("infos " ^ String.concat " " (List.map (fun x -> string_of_int (int_of_n x)) (apply_outcomes sel fl infos now)))
         | "word" ->
           let i = n_of_int (int_of_string toks.(1)) in
           Printf.printf "%d %s %s %s\n" (int_of_n (info_get_time i)) (bit (info_get_bad i)) (bit (info_get_rehash i)) (bit (info_get_justsynced i))
         | "md" ->
           Printf.printf "%d\n" (int_of_n (md (n_of_int (int_of_string toks.(1))) (n_of_int (int_of_string toks.(2))) (n_of_int (int_of_string toks.(3)))))
         | _ -> print_endline "unknown")
      with e -> print_endline ("error " ^ Printexc.to_string e));
      flush stdout
    done
  with End_of_file -> ()
