(* C16 model driver: runs the extracted Gallina models on the same case lines as harness/c/c16_drv.c and prints
   the same canonical result lines.  Glue only: parsing, N <-> int/string, hex, threading the rest of the
   stream through a sequence of reads, cutting the bytes written into STREAM_SIZE chunks. *)
open C16_ext

let rec pos_of_int i = if i = 1 then XH else if i land 1 = 0 then XO (pos_of_int (i lsr 1)) else XI (pos_of_int (i lsr 1))
let n_of_int i = if i = 0 then N0 else Npos (pos_of_int i)
let rec int_of_pos = function XH -> 1 | XO p -> 2 * int_of_pos p | XI p -> 2 * int_of_pos p + 1
let int_of_n = function N0 -> 0 | Npos p -> int_of_pos p
let rec nat_of_int i = if i = 0 then O else S (nat_of_int (i - 1))

(* decimal strings <-> N for values up to 2^64 and beyond: via base 10^9 limbs in OCaml ints would be more
   code than using the extracted N arithmetic itself *)
let n10 = n_of_int 10
let n_of_dec s =
  let r = ref N0 in
  String.iter (fun c -> r := N.add (N.mul !r n10) (n_of_int (Char.code c - 48))) s; !r
let dec_of_n n =
  if n = N0 then "0" else begin
    let b = Buffer.create 24 in
    let r = ref n in
    let digs = ref [] in
    while !r <> N0 do
      let (q, m) = N.div_eucl !r n10 in
      digs := Char.chr (48 + int_of_n m) :: !digs; r := q
    done;
    List.iter (Buffer.add_char b) !digs; Buffer.contents b
  end

let hexv c = if c <= '9' then Char.code c - 48 else (Char.code c lor 32) - 87
let bytes_of_hex s =
  if s = "-" then [] else List.init (String.length s / 2) (fun i -> n_of_int (hexv s.[2 * i] * 16 + hexv s.[2 * i + 1]))
let hex_of_bytes l =
  if l = [] then "-" else String.concat "" (List.map (fun x -> Printf.sprintf "%02x" (int_of_n x)) l)

let rec chunks k l =
  if l = [] then [] else
  let rec split i acc l = if i = 0 then (List.rev acc, l) else match l with [] -> (List.rev acc, []) | x :: t -> split (i - 1) (x :: acc) t in
  let (a, b) = split k [] l in a :: chunks k b

let rec firstn k l = if k = 0 then [] else match l with [] -> [] | x :: t -> x :: firstn (k - 1) t

let wresult ssize bytes =
  Printf.sprintf "ok %s %s %s" (hex_of_bytes bytes) (dec_of_n (stream_crc_stream [bytes])) (dec_of_n (stream_crc_chunks (chunks ssize bytes)))

let rresult all shown rest =
  let consumed = List.length all - List.length rest in
  Printf.sprintf "ok %s %d %s" shown consumed (dec_of_n (crc32c_spec N0 (firstn consumed all)))

let wop op =
  let i = String.index op ':' in
  let k = String.sub op 0 i and a = String.sub op (i + 1) (String.length op - i - 1) in
  match k with
  | "b32" -> sputb32 (n_of_dec a)
  | "b64" -> sputb64 (n_of_dec a)
  | "le32" -> sputble32 (n_of_dec a)
  | "bs" -> sputbs (bytes_of_hex a)
  | "c" -> [n_of_int (int_of_string a land 255)]
  | _ -> failwith "op"

let () =
  try
    while true do
      let line = input_line stdin in
      let toks = Array.of_list (List.filter (fun s -> s <> "") (String.split_on_char ' ' (String.trim line))) in
      let out =
        try
          match toks.(0) with
          | "crc" ->
            let init = n_of_dec toks.(2) and d = bytes_of_hex toks.(4) in
            let f = match toks.(1) with
              | "gen" -> crc32c_gen | "gen_plain" -> crc32c_gen_plain | "x86" -> crc32c_x86 | "x86_plain" -> crc32c_x86_plain
              | "plain" -> crc_bytes | "char" -> crc_table | "charhw" -> (fun c l -> List.fold_left hw_crc32b c l)
              | _ -> failwith "variant" in
            "ok " ^ dec_of_n (f init d)
          | "hash" | "hashvec" ->
            let seed = bytes_of_hex toks.(2) in
            let d = if toks.(0) = "hash" then bytes_of_hex toks.(4) else vec_data (n_of_dec toks.(3)) (nat_of_int (int_of_string toks.(4))) in
            (match toks.(1) with
             | "murmur3" -> "ok " ^ hex_of_bytes (murmur3_x86_128 seed d)
             | "spooky2" -> "ok " ^ hex_of_bytes (spooky2_128 seed d)
             | _ -> "skip")
          | "putb32" -> wresult (int_of_string toks.(1)) (sputb32 (n_of_dec toks.(3)))
          | "putb64" -> wresult (int_of_string toks.(1)) (sputb64 (n_of_dec toks.(3)))
          | "putble32" -> wresult (int_of_string toks.(1)) (sputble32 (n_of_dec toks.(3)))
          | "putbs" -> wresult (int_of_string toks.(1)) (sputbs (bytes_of_hex toks.(3)))
          | "wseq" ->
            let ops = List.filter (fun s -> s <> "") (String.split_on_char ',' toks.(3)) in
            wresult (int_of_string toks.(1)) (List.concat (List.map wop ops))
          | "getb32" | "getb64" | "getble32" ->
            let l = bytes_of_hex toks.(2) in
            let r = match toks.(0) with "getb32" -> sgetb32 l | "getb64" -> sgetb64 l | _ -> sgetble32 l in
            (match r with
             | Ok (v, rest) -> rresult l (dec_of_n v) rest
             | Eof -> "eof" | Bad -> "bad")
          | "getbs" ->
            let size = n_of_dec toks.(2) and l = bytes_of_hex toks.(3) in
            if sgetbs_oob size l then "oob" else
            (match sgetbs size l with
             | Ok (s, rest) -> rresult l (hex_of_bytes s) rest
             | Eof -> "eof" | Bad -> "bad")
          | "rseq" ->
            let all = bytes_of_hex toks.(2) in
            let ops = List.filter (fun s -> s <> "") (String.split_on_char ',' toks.(3)) in
            let b = Buffer.create 64 in
            let rec go l = function
              | [] -> Some l
              | op :: t ->
                let r = match op with
                  | "b32" -> (match sgetb32 l with Ok (v, r) -> Ok (dec_of_n v, r) | Eof -> Eof | Bad -> Bad)
                  | "b64" -> (match sgetb64 l with Ok (v, r) -> Ok (dec_of_n v, r) | Eof -> Eof | Bad -> Bad)
                  | "le32" -> (match sgetble32 l with Ok (v, r) -> Ok (dec_of_n v, r) | Eof -> Eof | Bad -> Bad)
                  | "c" -> (match getc l with Ok (v, r) -> Ok (dec_of_n v, r) | Eof -> Eof | Bad -> Bad)
                  | _ when String.length op > 2 && String.sub op 0 2 = "bs" ->
                    let size = n_of_dec (String.sub op 2 (String.length op - 2)) in
                    (match sgetbs size l with Ok (v, r) -> Ok (hex_of_bytes v, r) | Eof -> Eof | Bad -> Bad)
                  | _ -> failwith "op" in
                (match r with
                 | Ok (s, r) -> Buffer.add_string b s; Buffer.add_char b ';'; go r t
                 | Eof -> Buffer.add_string b "eof;"; None
                 | Bad -> Buffer.add_string b "bad;"; None) in
            (match go all ops with
             | Some rest ->
               let consumed = List.length all - List.length rest in
               Buffer.contents b ^ Printf.sprintf " %d %s" consumed (dec_of_n (crc32c_spec N0 (firstn consumed all)))
             | None -> Buffer.contents b)
          | "blockhash" ->
            (* blockhash <kind> <seedhex> <prevkind|none> <prevseedhex|-> <rehash 0|1> <hashsize> <hex> : the stored hash of a block *)
            let kind s = if s = "murmur3" then Murmur3 else if s = "spooky2" then Spooky2 else failwith "kind" in
            let prev = if toks.(3) = "none" then None else Some (kind toks.(3), bytes_of_hex toks.(4)) in
            let c = { hc_kind = kind toks.(1); hc_seed = bytes_of_hex toks.(2); hc_prev = prev; hc_size = nat_of_int (int_of_string toks.(6)) } in
            "ok " ^ hex_of_bytes (block_hash c (toks.(5) = "1") (bytes_of_hex toks.(7)))
          | "bsize" ->
            "ok " ^ dec_of_n (file_block_size (n_of_dec toks.(1)) (n_of_dec toks.(2)) (n_of_dec toks.(3)) (n_of_dec toks.(4)))
          | _ -> "unknown"
        with Failure _ | Invalid_argument _ | Not_found -> "unknown" in
      print_endline out
    done
  with End_of_file -> ()
