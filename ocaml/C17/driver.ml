(* C17 model driver: same case lines as harness/c/c17_drv.c, same result lines.  Glue only: parsing, N <-> int, printing. *)
open C17_ext

let rec pos_of_int i = if i = 1 then XH else if i land 1 = 0 then XO (pos_of_int (i lsr 1)) else XI (pos_of_int (i lsr 1))
let n_of_int i = if i = 0 then N0 else Npos (pos_of_int i)
let rec int_of_pos = function XH -> 1 | XO p -> 2 * int_of_pos p | XI p -> 2 * int_of_pos p + 1
let int_of_n = function N0 -> 0 | Npos p -> int_of_pos p
let rec nat_of_int i = if i = 0 then O else S (nat_of_int (i - 1))
let rec int_of_nat = function O -> 0 | S n -> 1 + int_of_nat n
let z_of_int i = if i = 0 then Z0 else if i > 0 then Zpos (pos_of_int i) else Zneg (pos_of_int (- i))
let int_of_z = function Z0 -> 0 | Zpos p -> int_of_pos p | Zneg p -> - (int_of_pos p)

let hex_of_bytes l = if l = [] then "-" else String.concat "" (List.map (fun x -> Printf.sprintf "%02x" (int_of_n x)) l)
let trace_str tr =
  if tr = [] then "-" else String.concat "," (List.map (fun (t, ok) -> Printf.sprintf "%d:%d" (int_of_n t) (if ok then 1 else 0)) tr)

let err_str = function
  | EFuel -> "fuel" | EAbort -> "abort" | EFixedMisaligned -> "fixedmis" | EOver -> "over" | ERestore -> "restore"
  | EMissing n -> Printf.sprintf "missing %d" (int_of_n n)

let take_ints toks i n = List.init n (fun k -> int_of_string toks.(i + k))

let () =
  try
    while true do
      let line = input_line stdin in
      let toks = Array.of_list (List.filter (fun s -> s <> "") (String.split_on_char ' ' (String.trim line))) in
      (match toks.(0) with
       | "find" ->
         let n = int_of_string toks.(1) in
         if n > 8 then print_endline "badinput" else begin
           let sizes = List.map n_of_int (take_ints toks 2 n) in
           let off = int_of_string toks.(2 + n) in
           let (r, o) = split_find_z sizes (z_of_int off) in
           Printf.printf "%d %d\n" (match r with Some s -> int_of_nat s | None -> -1) (int_of_z o)
         end
       | "hbit" -> Printf.printf "%d\n" (int_of_n (hbit (n_of_int (int_of_string toks.(1)))))
       | "limit" ->
         Printf.printf "%d\n" (int_of_n (parity_limit (n_of_int (int_of_string toks.(1))) (n_of_int (int_of_string toks.(2))) (n_of_int (int_of_string toks.(3)))))
       | "chsize" ->
         let bs = n_of_int (int_of_string toks.(1)) in
         let n = int_of_string toks.(3) in
         if n > 8 then print_endline "badinput" else begin
           let hs = List.init n (fun k ->
               let szv = int_of_string toks.(4 + 3 * k) and stv = int_of_string toks.(5 + 3 * k) in
               { sz = n_of_int szv; st = n_of_int stv; valid = n_of_int stv }) in
           let limits = List.init n (fun k -> n_of_int (int_of_string toks.(6 + 3 * k))) in
           let size = n_of_int (int_of_string toks.(4 + 3 * n)) in
           let tr = chsize_loop_trace (limits_oracle limits) bs O hs size in
           (match chsize_limits limits bs hs size with
            | Ok (hs', m) ->
              Printf.printf "ok %d%s t=%s\n" (if m then 1 else 0)
                (String.concat "" (List.map (fun h -> Printf.sprintf " %d:%d:%d" (int_of_n h.sz) (int_of_n h.st) (int_of_n h.valid)) hs'))
                (trace_str tr)
            | Err e -> Printf.printf "err %s t=%s\n" (err_str e) (trace_str tr))
         end
       | "ops" ->
         let bsi = int_of_string toks.(1) in
         let bs = n_of_int bsi in
         let n = int_of_string toks.(3) in
         let limits = ref (List.map n_of_int (take_ints toks 4 n)) in
         let ps = ref (List.init n (fun _ -> { p_size = N0; p_valid = N0; p_file = [] })) in
         let buf = Buffer.create 256 in
         let stop = ref false in
         let i = ref (4 + n) in
         while not !stop && !i < Array.length toks do
           let t = toks.(!i) in
           incr i;
           let arg = String.sub t 1 (String.length t - 1) in
           (match t.[0] with
            | 'O' -> ps := parity_reopen !ps; Buffer.add_string buf "o "
            | 'R' ->
              let size = n_of_int (int_of_string arg) in
              let g = limits_oracle !limits in
              (match chsize g bs (List.map to_h !ps) size, chsize_data g bs !ps size with
               | Ok (_, m), Ok ps' -> ps := ps'; Buffer.add_string buf (Printf.sprintf "r0m%d " (if m then 1 else 0))
               | Err EAbort, _ -> Buffer.add_string buf "r-2 "; stop := true
               | _, _ -> Buffer.add_string buf "r-1 "; stop := true)
            | 'W' ->
              let c = String.index arg ':' in
              let pos = int_of_string (String.sub arg 0 c) and seed = int_of_string (String.sub arg (c + 1) (String.length arg - c - 1)) in
              let blk = List.init bsi (fun j -> n_of_int ((seed + j) land 255)) in
              (match parity_write bs !ps (n_of_int pos) blk with
               | Some ps' -> ps := ps'; Buffer.add_string buf "w0 "
               | None -> Buffer.add_string buf "w-1 ")
            | 'D' ->
              (match parity_read bs !ps (n_of_int (int_of_string arg)) with
               | Some b -> Buffer.add_string buf ("d" ^ hex_of_bytes b ^ " ")
               | None -> Buffer.add_string buf "d-1 ")
            | 'T' -> ps := parity_truncate !ps; Buffer.add_string buf "t0 "
            | 'L' ->
              let c = String.index arg ':' in
              let sp = int_of_string (String.sub arg 0 c) and l = int_of_string (String.sub arg (c + 1) (String.length arg - c - 1)) in
              limits := List.mapi (fun i x -> if i = sp then n_of_int l else x) !limits;
              Buffer.add_string buf "l "
            | _ -> Buffer.add_string buf "badop "; stop := true)
         done;
         Buffer.add_string buf "|";
         List.iter (fun p -> Buffer.add_string buf (Printf.sprintf " %d:%s" (int_of_n p.p_size) (hex_of_bytes p.p_file))) !ps;
         print_endline (Buffer.contents buf)
       | "load" ->
         (* load <configured> <n> <recorded sizes> *)
         let c = int_of_string toks.(1) and n = int_of_string toks.(2) in
         (match load_splits (nat_of_int c) (List.map n_of_int (take_ints toks 3 n)) with
          | Some l -> print_endline ("ok" ^ String.concat "" (List.map (fun x -> " " ^ string_of_int (int_of_n x)) l))
          | None -> print_endline "refused")
       | _ -> print_endline "unknown");
      flush stdout
    done
  with End_of_file -> ()
