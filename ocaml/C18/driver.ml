(* C18 model driver: runs the extracted glob/filter models on case lines; glue only (parsing, hex, printing).
   Byte strings are hex ("-" = empty).  Rule tokens: e<hex> exclude, i<hex> include (filter_alloc_file),
   D<hex> include disk (filter_alloc_disk), c<hex> a content file path (only for "skip"). *)
open C18_ext

let rec pos_of_int i = if i = 1 then XH else if i land 1 = 0 then XO (pos_of_int (i lsr 1)) else XI (pos_of_int (i lsr 1))
let n_of_int i = if i = 0 then N0 else Npos (pos_of_int i)
let rec int_of_pos = function XH -> 1 | XO p -> 2 * int_of_pos p | XI p -> 2 * int_of_pos p + 1
let int_of_n = function N0 -> 0 | Npos p -> int_of_pos p

let hexv c = if c <= '9' then Char.code c - 48 else (Char.code c lor 32) - 87
let bytes_of_hex s =
  if s = "-" then [] else List.init (String.length s / 2) (fun i -> n_of_int (hexv s.[2 * i] * 16 + hexv s.[2 * i + 1]))
let hex_of_bytes b = if b = [] then "-" else String.concat "" (List.map (fun x -> Printf.sprintf "%02x" (int_of_n x)) b)
let b01 s = s = "1"
let p01 b = if b then "1" else "0"

exception Bad of int

(* rules from token index k on: (file rules+disk rules in order, contents) *)
let rules toks k =
  let fl = ref [] and cs = ref [] in
  for i = k to Array.length toks - 1 do
    let t = toks.(i) in
    if t <> "" then begin
      let body = bytes_of_hex (String.sub t 1 (String.length t - 1)) in
      match t.[0] with
      | 'e' -> (match filter_parse false body with Some f -> fl := f :: !fl | None -> raise (Bad (i - k)))
      | 'i' -> (match filter_parse true body with Some f -> fl := f :: !fl | None -> raise (Bad (i - k)))
      | 'D' -> (match filter_parse_disk true body with Some f -> fl := f :: !fl | None -> raise (Bad (i - k)))
      | 'c' -> cs := body :: !cs
      | _ -> raise (Bad (i - k))
    end
  done;
  (List.rev !fl, List.rev !cs)

let split_rules fl = (List.filter (fun f -> not f.f_is_disk) fl, List.filter (fun f -> f.f_is_disk) fl)

let () =
  try
    while true do
      let line = input_line stdin in
      let toks = Array.of_list (String.split_on_char ' ' (String.trim line)) in
      (try
         match toks.(0) with
         | "fnm" ->
           print_endline (p01 (glob_match (b01 toks.(1)) (bytes_of_hex toks.(2)) (bytes_of_hex toks.(3))))
         | "parse" ->
           (match filter_parse true (bytes_of_hex toks.(1)) with
            | None -> print_endline "none"
            | Some f -> print_endline (Printf.sprintf "ok %s%s%s %s" (p01 f.f_is_disk) (p01 f.f_is_path) (p01 f.f_is_dir) (hex_of_bytes f.f_pattern)))
         | "flt" ->
           let disk = bytes_of_hex toks.(2) and sub = bytes_of_hex toks.(3) in
           let (fl, _) = rules toks 4 in
           let r = (match toks.(1) with
               | "p" -> g_filter_path fl disk sub
               | "s" -> g_filter_subdir fl disk sub
               | _ -> g_filter_emptydir fl disk sub) in
           print_endline (p01 r)
         | "sel" ->
           let missing = b01 toks.(1) and error = b01 toks.(2) in
           let kind = (match toks.(3) with "f" -> KFile | "l" -> KLink | _ -> KDir) in
           let e = { e_kind = kind; e_present = b01 toks.(4); e_has_bad = b01 toks.(5);
                     e_disk = bytes_of_hex toks.(6); e_sub = bytes_of_hex toks.(7) } in
           let (fl, _) = rules toks 8 in
           let (ff, fd) = split_rules fl in
           print_endline (p01 (g_sel_excluded ff fd missing error e))
         | "par" ->
           let missing = b01 toks.(1) and error = b01 toks.(2) in
           let (fl, _) = rules toks 4 in
           let (ff, fd) = split_rules fl in
           print_endline (p01 (g_parity_excluded ff fd missing error (bytes_of_hex toks.(3))))
         | "skip" ->
           let nohidden = b01 toks.(1) and isdir = b01 toks.(2) in
           let name = bytes_of_hex toks.(3) and disk = bytes_of_hex toks.(4) in
           let dir = bytes_of_hex toks.(5) and sub = bytes_of_hex toks.(6) in
           let (fl, cs) = rules toks 7 in
           print_endline (p01 (g_scan_skips nohidden cs fl disk dir sub name isdir))
         | "why" ->
           let nohidden = b01 toks.(1) and isdir = b01 toks.(2) in
           let name = bytes_of_hex toks.(3) and disk = bytes_of_hex toks.(4) in
           let dir = bytes_of_hex toks.(5) and sub = bytes_of_hex toks.(6) in
           let (fl, cs) = rules toks 7 in
           let rec int_of_nat = function O -> 0 | S n -> 1 + int_of_nat n in
           (* rule indices count the file rules only (content tokens are not rules) *)
           print_endline (match g_scan_why nohidden cs fl disk dir sub name isdir with
               | WKeep -> "0" | WHidden -> "h" | WContent -> "c"
               | WRule None -> "r-" | WRule (Some k) -> Printf.sprintf "r%d" (int_of_nat k))
         | "" -> print_endline ""
         | _ -> print_endline "unknown"
       with Bad i -> print_endline (Printf.sprintf "bad %d" i)
          | Invalid_argument _ | Failure _ -> print_endline "usage")
    done
  with End_of_file -> ()
