(* C20 model runner: one case per stdin line, one result per line.  Glue only: tokenising, hex <-> byte list,
   decimal text <-> N/Z through the model's own dec_N / n_dec / dec_Z / z_dec. *)
open C20_ext

let rec pos_of_int i = if i = 1 then XH else if i land 1 = 0 then XO (pos_of_int (i lsr 1)) else XI (pos_of_int (i lsr 1))
let n_of_int i = if i = 0 then N0 else Npos (pos_of_int i)
let rec int_of_pos = function XH -> 1 | XO p -> 2 * int_of_pos p | XI p -> 2 * int_of_pos p + 1
let int_of_n = function N0 -> 0 | Npos p -> int_of_pos p
let rec nat_of_int i = if i = 0 then O else S (nat_of_int (i - 1))

let hexv c = if c <= '9' then Char.code c - 48 else (Char.code c lor 32) - 87
let bytes_of_hex s =
  if s = "-" then [] else List.init (String.length s / 2) (fun i -> n_of_int (hexv s.[2 * i] * 16 + hexv s.[2 * i + 1]))
let hex_of_bytes b =
  if b = [] then "-" else (let buf = Buffer.create 64 in List.iter (fun x -> Buffer.add_string buf (Printf.sprintf "%02x" (int_of_n x))) b; Buffer.contents buf)
let bytes_of_string s = List.init (String.length s) (fun i -> n_of_int (Char.code s.[i]))
let string_of_bytes b = String.concat "" (List.map (fun x -> String.make 1 (Char.chr (int_of_n x))) b)

let n_of_dec s = match n_dec (bytes_of_string s) with Some n -> n | None -> failwith ("bad N " ^ s)
let z_of_dec s = match z_dec (bytes_of_string s) with Some z -> z | None -> failwith ("bad Z " ^ s)
let dec_of_n n = string_of_bytes (dec_N n)
let dec_of_z z = string_of_bytes (dec_Z z)

let kind_of_string = function
  | "hardlink" -> Hardlink | "symlink" -> Symlink | "symdir" -> Symdir | "junction" -> Junction | _ -> Unknown
let string_of_kind k = string_of_bytes (kind_name k)

let split_on c s = if s = "-" || s = "" then [] else String.split_on_char c s

(* blocks:  "-"  or  state.hashhex,state.hashhex,... *)
let blocks_of s =
  List.map (fun b -> match String.split_on_char '.' b with
      | [st; h] -> (n_of_int (int_of_string st), bytes_of_hex h)
      | _ -> failwith "block") (split_on ',' s)

(* state:  D <namehex> | F <subhex> <size> <sec> <nsec> <inode> <blocks> | K <kind> <subhex> <tohex> *)
let parse_state toks =
  let disks = ref [] in
  let cur = ref None in
  let flush () = match !cur with
    | Some (n, fs, ls) -> disks := { d_name = n; d_files = List.rev fs; d_links = List.rev ls } :: !disks; cur := None
    | None -> () in
  let rec go = function
    | [] -> flush ()
    | "D" :: n :: r -> flush (); cur := Some (bytes_of_hex n, [], []); go r
    | "F" :: sub :: sz :: sec :: ns :: ino :: bl :: r ->
      (match !cur with
       | Some (n, fs, ls) ->
         cur := Some (n, { f_sub = bytes_of_hex sub; f_size = n_of_dec sz; f_sec = z_of_dec sec; f_nsec = z_of_dec ns;
                           f_inode = n_of_dec ino; f_blocks = blocks_of bl } :: fs, ls)
       | None -> failwith "F before D"); go r
    | "K" :: k :: sub :: target :: r ->
      (match !cur with
       | Some (n, fs, ls) -> cur := Some (n, fs, { l_sub = bytes_of_hex sub; l_to = bytes_of_hex target; l_kind = kind_of_string k } :: ls)
       | None -> failwith "K before D"); go r
    | t :: _ -> failwith ("state token " ^ t) in
  go toks; List.rev !disks

let show_record = function
  | None -> "X"
  | Some (RFile (d, n, sz, sec, ns, ino)) ->
    String.concat "," ["F"; hex_of_bytes d; hex_of_bytes n; dec_of_n sz; dec_of_z sec; dec_of_n ns; dec_of_z ino]
  | Some (RLink (k, d, n, l)) -> String.concat "," ["L"; string_of_kind k; hex_of_bytes d; hex_of_bytes n; hex_of_bytes l]
  | Some (RDup (d, n, d2, n2, sz)) ->
    String.concat "," ["D"; hex_of_bytes d; hex_of_bytes n; hex_of_bytes d2; hex_of_bytes n2; dec_of_n sz]
  | Some (ROther fs) -> String.concat "," ("O" :: List.map hex_of_bytes fs)

let parse_trecs toks =
  let rec go = function
    | [] -> []
    | "F" :: sz :: d1 :: d2 :: n :: r -> TFile (n_of_dec sz, bytes_of_hex d1, bytes_of_hex d2, bytes_of_hex n) :: go r
    | "K" :: k :: n :: l :: r -> TLink (kind_of_string k, bytes_of_hex n, bytes_of_hex l) :: go r
    | t :: _ -> failwith ("trec token " ^ t) in
  go toks

let show_trec = function
  | TFile (sz, d1, d2, n) -> String.concat "," ["F"; dec_of_n sz; hex_of_bytes d1; hex_of_bytes d2; hex_of_bytes n]
  | TLink (k, n, l) -> String.concat "," ["K"; string_of_kind k; hex_of_bytes n; hex_of_bytes l]

let opt_hex = function Some b -> "ok " ^ hex_of_bytes b | None -> "bail"

let handle line =
  let toks = List.filter (fun s -> s <> "") (String.split_on_char ' ' (String.trim line)) in
  match toks with
  | ["esctag"; h] -> opt_hex (esc_tag_buf (bytes_of_hex h))
  | ["escshell"; h] -> opt_hex (esc_shell_buf (bytes_of_hex h))
  | ["escmulti"; hs] -> "ok " ^ hex_of_bytes (esc_shell_multi (List.map bytes_of_hex (String.split_on_char ',' hs)))
  | ["unesctag"; h] -> (match unesc_tag (bytes_of_hex h) with Some b -> "ok " ^ hex_of_bytes b | None -> "none")
  | ["unescshell"; h] -> "ok " ^ hex_of_bytes (unesc_shell (bytes_of_hex h))
  | ["parselog"; h] -> "ok " ^ String.concat "|" (List.map show_record (parse_log (bytes_of_hex h)))
  | "listlog" :: st -> "ok " ^ hex_of_bytes (list_log (parse_state st))
  | "duplog" :: st -> "ok " ^ hex_of_bytes (print_log (dup_records (fun x -> x) (parse_state st)))
  | "zerosub" :: st ->
    "ok " ^ String.concat "|" (List.map (fun d -> hex_of_bytes (zerosub_lines d.d_name d.d_files N0)) (parse_state st))
  | ["status"; bm; infos; disks] ->
    let s = { s_infos = List.map n_of_dec (split_on ',' infos);
              s_disks = List.map (fun d -> List.map n_of_dec (split_on ',' d)) (split_on ';' disks) } in
    let c = status_count s (nat_of_int (int_of_string bm)) in
    "ok " ^ String.concat " " (List.map dec_of_n [c.c_bad; c.c_bad_first; c.c_bad_last; c.c_rehash; c.c_count; c.c_unsynced; c.c_unscrubbed])
  | "termlist" :: rs -> "ok " ^ hex_of_bytes (print_term_list (parse_trecs rs))
  | ["parseterm"; h] ->
    (match parse_term (bytes_of_hex h) with
     | Some rs -> "ok " ^ String.concat "|" (List.map show_trec rs)
     | None -> "none")
  | _ -> "error unknown command"

let () =
  try
    while true do
      let line = input_line stdin in
      (try print_endline (handle line) with
       | Failure m -> print_endline ("error " ^ m)
       | Stack_overflow -> print_endline "error stack overflow"
       | Invalid_argument m -> print_endline ("error " ^ m))
    done
  with End_of_file -> ()
