(* snapmodel: runs the extracted Gallina models on the same case lines as the C drivers and prints
   one canonical result per line.  Only glue: parsing, N <-> int, hex. *)
open Snapext

let rec pos_of_int i = if i = 1 then XH else if i land 1 = 0 then XO (pos_of_int (i lsr 1)) else XI (pos_of_int (i lsr 1))
let n_of_int i = if i = 0 then N0 else Npos (pos_of_int i)
let rec int_of_pos = function XH -> 1 | XO p -> 2 * int_of_pos p | XI p -> 2 * int_of_pos p + 1
let int_of_n = function N0 -> 0 | Npos p -> int_of_pos p
let rec nat_of_int i = if i = 0 then O else S (nat_of_int (i - 1))
let rec int_of_nat = function O -> 0 | S n -> 1 + int_of_nat n

let hexv c = if c <= '9' then Char.code c - 48 else (Char.code c lor 32) - 87
let bytes_of_hex s off n = List.init n (fun i -> n_of_int (hexv s.[off + 2 * i] * 16 + hexv s.[off + 2 * i + 1]))
let blocks_of_hex s nb size = List.init nb (fun b -> bytes_of_hex s (2 * b * size) size)
let hex_of_block b = String.concat "" (List.map (fun x -> Printf.sprintf "%02x" (int_of_n x)) b)
let hex_of_blocks bs = String.concat "" (List.map hex_of_block bs)

let starts s p = String.length s >= String.length p && String.sub s 0 (String.length p) = p

let genfn_of name np =
  if starts name "gen1" then Some G1 else if starts name "gen2" then Some G2
  else if starts name "genz" then Some GZ
  else if starts name "gen" then Some (GK (nat_of_int np)) else None

let mode_of s = if s = "z" then Vandermonde else Cauchy

let () =
  try
    while true do
      let line = input_line stdin in
      let toks = Array.of_list (String.split_on_char ' ' (String.trim line)) in
      (match toks.(0) with
       | "gen" ->
         let fn = toks.(1) and m = mode_of toks.(2) in
         let nd = int_of_string toks.(3) and np = int_of_string toks.(4) and size = int_of_string toks.(5) in
         (match genfn_of fn np with
          | None -> print_endline "skip"
          | Some g ->
            let data = blocks_of_hex toks.(6) nd size in
            let par = gen_blocks m g (nat_of_int size) data in
            print_endline ("ok " ^ hex_of_blocks par))
       | "spec" ->
         let fn = toks.(1) and m = mode_of toks.(2) in
         let nd = int_of_string toks.(3) and np = int_of_string toks.(4) and size = int_of_string toks.(5) in
         (match genfn_of fn np with
          | None -> print_endline "skip"
          | Some g ->
            let data = blocks_of_hex toks.(6) nd size in
            let par = spec_blocks (gen_mat m g) (gen_np g) (nat_of_int size) data in
            print_endline ("ok " ^ hex_of_blocks par))
       | _ -> print_endline "unknown");
      flush stdout
    done
  with End_of_file -> ()
