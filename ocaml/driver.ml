(* snapmodel: runs the extracted Gallina models on the same case lines as the C drivers and prints
   one canonical result per line.  Only glue: parsing, N <-> int, hex. *)
open Snapext

let rec pos_of_int i = if i = 1 then XH else if i land 1 = 0 then XO (pos_of_int (i lsr 1)) else XI (pos_of_int (i lsr 1))
let n_of_int i = if i = 0 then N0 else Npos (pos_of_int i)
let rec int_of_pos = function XH -> 1 | XO p -> 2 * int_of_pos p | XI p -> 2 * int_of_pos p + 1
let int_of_n = function N0 -> 0 | Npos p -> int_of_pos p
let rec nat_of_int i = if i = 0 then O else S (nat_of_int (i - 1))
let rec int_of_nat = function O -> 0 | S n -> 1 + int_of_nat n

let hexv c = if c <= '9' then Char.code c - 48 else (Char.code c lor 32) - 87
let bytes_of_hex s off n = List.init n (fun i -> n_of_int (hexv s.[off + 2 * i] * 16 + hexv s.[off + 2 * i + 1]))
let blocks_of_hex s nb size = List.init nb (fun b -> bytes_of_hex s (2 * b * size) size)
let hex_of_block b = String.concat "" (List.map (fun x -> Printf.sprintf "%02x" (int_of_n x)) b)
let hex_of_blocks bs = String.concat "" (List.map hex_of_block bs)

let starts s p = String.length s >= String.length p && String.sub s 0 (String.length p) = p

let genfn_of name np =
  if starts name "gen1" then Some G1 else if starts name "gen2" then Some G2
  else if starts name "genz" then Some GZ
  else if starts name "gen" then Some (GK (nat_of_int np)) else None

let mode_of s = if s = "z" then Vandermonde else Cauchy

let () =
  try
    while true do
      let line = input_line stdin in
      let toks = Array.of_list (List.filter (fun t -> t <> "") (String.split_on_char ' ' (String.trim line))) in
      (match toks.(0) with
       | "gen" ->
         let fn = toks.(1) and m = mode_of toks.(2) in
         let nd = int_of_string toks.(3) and np = int_of_string toks.(4) and size = int_of_string toks.(5) in
         (match genfn_of fn np with
          | None -> print_endline "skip"
          | Some g ->
            let data = blocks_of_hex toks.(6) nd size in
            let par = gen_blocks m g (nat_of_int size) data in
            print_endline ("ok " ^ hex_of_blocks par))
       | "spec" ->
         let fn = toks.(1) and m = mode_of toks.(2) in
         let nd = int_of_string toks.(3) and np = int_of_string toks.(4) and size = int_of_string toks.(5) in
         (match genfn_of fn np with
          | None -> print_endline "skip"
          | Some g ->
            let data = blocks_of_hex toks.(6) nd size in
            let par = spec_blocks (gen_mat m g) (gen_np g) (nat_of_int size) data in
            print_endline ("ok " ^ hex_of_blocks par))
       | "rec" | "data" | "check" | "scan" ->
         let cmd = toks.(0) in
         let k = ref 1 in
         let next () = let t = toks.(!k) in incr k; t in
         let _fam = if cmd = "rec" || cmd = "data" then next () else "disp" in
         let m = mode_of (next ()) in
         let nd = int_of_string (next ()) in
         let np = int_of_string (next ()) in
         let size = int_of_string (next ()) in
         let nr = if cmd = "scan" then 0 else int_of_string (next ()) in
         let ir = List.init nr (fun _ -> nat_of_int (int_of_string (next ()))) in
         let ip = if cmd = "data" then List.init nr (fun _ -> nat_of_int (int_of_string (next ()))) else [] in
         let bufs = blocks_of_hex (next ()) (nd + np) size in
         let ndn = nat_of_int nd and npn = nat_of_int np and sz = nat_of_int size in
         (match cmd with
          | "rec" -> (match raid_rec_blocks m ndn npn ir sz bufs with
                      | None -> print_endline "abort" | Some b -> print_endline ("ok " ^ hex_of_blocks b))
          | "data" -> (match raid_data_blocks m ndn npn ir ip sz bufs with
                       | None -> print_endline "abort" | Some b -> print_endline ("ok " ^ hex_of_blocks b))
          | "check" -> (match raid_check_blocks m ndn npn ir sz bufs with
                        | None -> print_endline "abort" | Some true -> print_endline "ret 0" | Some false -> print_endline "ret -1")
          | _ -> (match raid_scan_blocks m ndn npn sz bufs with
                  | None -> print_endline "ret -1"
                  | Some c -> print_endline (String.concat " " (("ret " ^ string_of_int (List.length c)) :: List.map (fun x -> string_of_int (int_of_nat x)) c))))
       | "invert" ->
         let n = int_of_string toks.(1) in
         let l = bytes_of_hex toks.(2) 0 (n * n) in
         (match invertN (mx_of_list (nat_of_int n) l) (nat_of_int n) with
          | None -> print_endline "abort"
          | Some v -> print_endline ("ok " ^ hex_of_block (list_of_mx (nat_of_int n) v)))
       | "sort" ->
         let n = int_of_string toks.(1) in
         let v = List.init n (fun i -> nat_of_int (int_of_string toks.(2 + i))) in
         print_endline (String.concat " " ("ok" :: List.map (fun x -> string_of_int (int_of_nat x)) (raid_sort_model v)))
       | "insert" ->
         let n = int_of_string toks.(1) in
         let v = List.init n (fun i -> nat_of_int (int_of_string toks.(2 + i))) in
         let x = nat_of_int (int_of_string toks.(2 + n)) in
         print_endline (String.concat " " ("ok" :: List.map (fun x -> string_of_int (int_of_nat x)) (raid_insert_model v x)))
       | "combo" ->
         let r = int_of_string toks.(1) and n = int_of_string toks.(2) in
         let all = comb_all (binom (nat_of_int n) (nat_of_int r)) (nat_of_int r) (nat_of_int n) (comb_first (nat_of_int r)) in
         let count = List.length all in
         let sum = List.fold_left (fun s c -> List.fold_left (fun s x -> (s * 31 + int_of_nat x + 1) mod 1000000007) s c) 0 all in
         Printf.printf "ok %d %d\n" count sum
       | _ -> print_endline "unknown");
      flush stdout
    done
  with End_of_file -> ()
