#!/bin/bash
# Offline setup: regenerate coq/Gen from /repo, full .vo build of the Rocq development, extraction, OCaml model.
set -e
cd "$(dirname "$0")"
python3 - <<'PY'
import sys, os
sys.path.insert(0, 'harness/py')
from common import *
snap = snapshot_repo()
msgs = regen(snap)
if msgs: print('translator messages:', msgs)
ok, log = coq_make([], timeout=3000)
print(log[-3000:] if not ok else 'coq build ok')
build_model()
print('model built')
sys.exit(0 if ok else 1)
PY
