#!/bin/bash
# Offline setup: regenerate coq/Gen from /repo, full .vo build of the Rocq development, extraction, OCaml models.
# Every check rebuilds what it needs by itself; this only pre-builds so that the checks start warm.
cd "$(dirname "$0")"
python3 - <<'PY'
import sys, os, glob
sys.path.insert(0, 'harness/py')
from common import *
snap = snapshot_repo()
msgs = regen(snap)
if msgs: print('translator messages:', msgs)
ok, log = coq_make([], timeout=3300)
print('coq full build:', 'ok' if ok else 'some files failed (see below); checks rebuild their own targets')
if not ok:
    print(log[-3000:])
try:
    build_model()
    print('base model built')
except Exception as e:
    print('base model build failed:', e); sys.exit(1)
# the core libraries must exist
need = ['GF/Gf.vo', 'GF/TablesOk.vo', 'Raid/GenProofs.vo']
missing = [n for n in need if not os.path.exists(os.path.join(COQ, n))]
if missing:
    print('core files failed to build:', missing); sys.exit(1)
sys.exit(0)
PY
